#!/bin/bash
# Run once after a fresh restore, offline: builds the native replay binary (dev + release),
# warms the MIR dumps and the Kani dependency graphs.  Everything is rebuilt on demand by ./check too.
set -u
cd "$(dirname "$0")"
export CARGO_NET_OFFLINE=true
mkdir -p .build evidence replays
/usr/local/bin/python3-vt - <<'PY'
import sys
sys.path.insert(0, '.')
from mirsmt import native, env
for prof in ("dev", "release"):
    print("replay", prof, native.build(prof))
from obligations import hubnative
for prof in ("dev", "release"):
    print("replay-hub", prof, hubnative.build(prof))
for w in ("lib", "bin"):
    t, p, dt = env.dump_mir(w)
    print("mir", w, p, "%.1fs" % dt)
PY
rc=$?
if [ -x ./kani/prebuild.sh ]; then ./kani/prebuild.sh || true; fi
exit $rc
