"""Symbolic executor over the MIR IR of mirparse.py, producing z3 terms.

Machine integers are mathematical Ints with explicit range/wrap (see DESIGN §2).
Control flow: loops are cut at back edges and unrolled to a bound K with an
unwinding obligation; states are merged (ite) at every join, so the result is one
term per local, not one path per branch outcome.
"""
import heapq
import itertools
import re
import z3

from .mirparse import Fn, Place, Operand, Rvalue, MirParseError


class Unsupported(Exception):
    """The encoding cannot represent this construct: the obligation is INCONCLUSIVE."""


# ----------------------------------------------------------------- integer types

def int_info(ty):
    """(signed, bits) or None"""
    m = re.fullmatch(r"([iu])(8|16|32|64|128|size)", ty)
    if m:
        bits = 64 if m.group(2) == "size" else int(m.group(2))
        return (m.group(1) == "i", bits)
    if ty == "char":
        return (False, 32)
    return None


def ty_range(ty):
    s, b = int_info(ty)
    if ty == "char":
        return 0, 0x10FFFF
    if s:
        return -(1 << (b - 1)), (1 << (b - 1)) - 1
    return 0, (1 << b) - 1


def I(n):
    return z3.IntVal(n)


def simp(t):
    return z3.simplify(t)


def is_lit(t):
    return z3.is_int_value(t) or z3.is_true(t) or z3.is_false(t)


# ----------------------------------------------------------------- values

class VInt:
    __slots__ = ("t", "ty", "lowzero")

    def __init__(self, t, ty, lowzero=0):
        self.t, self.ty, self.lowzero = t, ty, lowzero

    def __repr__(self):
        return "VInt(%s:%s)" % (self.t, self.ty)


class VBool:
    __slots__ = ("t",)

    def __init__(self, t):
        self.t = t

    def __repr__(self):
        return "VBool(%s)" % self.t


class VUnit:
    def __repr__(self):
        return "()"


UNIT = VUnit()


class VStruct:
    __slots__ = ("name", "f")

    def __init__(self, name, fields):
        self.name, self.f = name, list(fields)

    def __repr__(self):
        return "%s%r" % (self.name, self.f)


class VEnum:
    """discr: z3 Int; pay: {variant index: [field values]} for variants that may be live"""
    __slots__ = ("name", "discr", "pay")

    def __init__(self, name, discr, pay):
        self.name, self.discr, self.pay = name, discr, pay

    def __repr__(self):
        return "%s<%s %r>" % (self.name, self.discr, self.pay)


class VRef:
    """kind 'place': (fid, local, proj)   kind 'val': boxed immutable value"""
    __slots__ = ("kind", "fid", "local", "proj", "val")

    def __init__(self, kind, fid=None, local=None, proj=(), val=None):
        self.kind, self.fid, self.local, self.proj, self.val = kind, fid, local, tuple(proj), val

    def __repr__(self):
        if self.kind == "val":
            return "&val(%r)" % (self.val,)
        return "&%s.%s%r" % (self.fid, self.local, self.proj)


class VOpaque:
    __slots__ = ("what",)

    def __init__(self, what):
        self.what = what

    def __repr__(self):
        return "Opaque(%s)" % (self.what,)


class VSeq:
    """A sequence of scalars: z3 array `arr` viewed from `off` for `len` elements (slice, Vec, str-as-chars)."""
    __slots__ = ("arr", "off", "len", "elem")

    def __init__(self, arr, off, length, elem):
        self.arr, self.off, self.len, self.elem = arr, off, length, elem

    def at(self, i):
        return simp(z3.Select(self.arr, simp(self.off + i)))

    def __repr__(self):
        return "Seq[%s;off=%s;len=%s]" % (self.elem, self.off, self.len)


class VList:
    """Fixed-capacity python list of values with a symbolic length (Vec of records)."""
    __slots__ = ("items", "len", "elem")

    def __init__(self, items, length, elem):
        self.items, self.len, self.elem = list(items), length, elem

    def __repr__(self):
        return "List[%d;len=%s]" % (len(self.items), self.len)


def same_term(a, b):
    return a is b or (a is not None and b is not None and a.eq(b))


def merge(g, a, b):
    """value-level  ite(g, a, b)"""
    if a is b:
        return a
    if a is None:
        return b
    if b is None:
        return a
    if isinstance(a, VInt) and isinstance(b, VInt):
        if same_term(a.t, b.t):
            return a
        return VInt(z3.If(g, a.t, b.t), a.ty, min(a.lowzero, b.lowzero))
    if isinstance(a, VBool) and isinstance(b, VBool):
        if same_term(a.t, b.t):
            return a
        return VBool(z3.If(g, a.t, b.t))
    if isinstance(a, VUnit) and isinstance(b, VUnit):
        return a
    if isinstance(a, VStruct) and isinstance(b, VStruct):
        if len(a.f) != len(b.f):
            raise Unsupported("merge of structs of different shape: %s / %s" % (a.name, b.name))
        return VStruct(a.name, [merge(g, x, y) for x, y in zip(a.f, b.f)])
    if isinstance(a, VEnum) and isinstance(b, VEnum):
        pay = {}
        for k in set(a.pay) | set(b.pay):
            pa, pb = a.pay.get(k), b.pay.get(k)
            if pa is None:
                pay[k] = pb
            elif pb is None:
                pay[k] = pa
            else:
                n = max(len(pa), len(pb))
                pa = list(pa) + [None] * (n - len(pa))
                pb = list(pb) + [None] * (n - len(pb))
                pay[k] = [merge(g, x, y) for x, y in zip(pa, pb)]
        d = a.discr if same_term(a.discr, b.discr) else z3.If(g, a.discr, b.discr)
        return VEnum(a.name, d, pay)
    if isinstance(a, VRef) and isinstance(b, VRef):
        if a.kind == "val" and b.kind == "val":
            return VRef("val", val=merge(g, a.val, b.val))
        if a.kind == b.kind and a.fid == b.fid and a.local == b.local and _proj_eq(a.proj, b.proj):
            return a
        if a.kind == b.kind == "place" and a.fid == b.fid and a.local == b.local and _proj_shape_eq(a.proj, b.proj):
            # same path shape, different (symbolic) element indices: merge the indices
            proj = []
            for x, y in zip(a.proj, b.proj):
                if x[0] == "index" and not same_term(x[1], y[1]):
                    proj.append(("index", z3.If(g, x[1], y[1])))
                else:
                    proj.append(x)
            return VRef("place", a.fid, a.local, tuple(proj))
        raise Unsupported("merge of different references %r / %r" % (a, b))
    if isinstance(a, VSeq) and isinstance(b, VSeq):
        arr = a.arr if same_term(a.arr, b.arr) else z3.If(g, a.arr, b.arr)
        off = a.off if same_term(a.off, b.off) else z3.If(g, a.off, b.off)
        ln = a.len if same_term(a.len, b.len) else z3.If(g, a.len, b.len)
        return VSeq(arr, off, ln, a.elem)
    if isinstance(a, VList) and isinstance(b, VList):
        n = max(len(a.items), len(b.items))
        items = []
        for i in range(n):
            x = a.items[i] if i < len(a.items) else None
            y = b.items[i] if i < len(b.items) else None
            items.append(merge(g, x, y))
        ln = a.len if same_term(a.len, b.len) else z3.If(g, a.len, b.len)
        return VList(items, ln, a.elem)
    if isinstance(a, VOpaque) and isinstance(b, VOpaque) and hasattr(a.what, "merge_with"):
        return VOpaque(a.what.merge_with(g, b.what))
    if isinstance(a, VOpaque) or isinstance(b, VOpaque):
        return a if isinstance(a, VOpaque) else b
    raise Unsupported("merge %r / %r" % (type(a).__name__, type(b).__name__))


def _proj_shape_eq(p, q):
    if len(p) != len(q):
        return False
    for x, y in zip(p, q):
        if x[0] != y[0]:
            return False
        if x[0] in ("field", "cindex", "downcast") and x[1] != y[1]:
            return False
    return True


def _proj_eq(p, q):
    if len(p) != len(q):
        return False
    for x, y in zip(p, q):
        if x[0] != y[0]:
            return False
        if x[0] in ("field", "cindex") and x[1] != y[1]:
            return False
        if x[0] == "downcast" and x[1] != y[1]:
            return False
        if x[0] == "index" and not same_term(x[1], y[1]):
            return False
        if x[0] == "slice" and not (same_term(x[1], y[1]) and same_term(x[2], y[2])):
            return False
    return True


# ----------------------------------------------------------------- state

class State:
    __slots__ = ("guard", "frames")

    def __init__(self, guard=None, frames=None):
        self.guard = z3.BoolVal(True) if guard is None else guard
        self.frames = frames if frames is not None else {}

    def fork(self, guard=None):
        return State(self.guard if guard is None else guard, {k: dict(v) for k, v in self.frames.items()})


def _refs_by_value(v, frames):
    """replace references to immutable name-like values (paths, texts) by references to the value itself, so that two
    states holding references to DIFFERENT such places can be merged (sound only because those values are never written
    through the reference: restricted to PathV / StrV referents)"""
    if isinstance(v, VRef) and v.kind == "place" and not v.proj:
        tgt = frames.get(v.fid, {}).get(v.local)
        while isinstance(tgt, VRef) and tgt.kind == "val":
            tgt = tgt.val
        if isinstance(tgt, VStruct) and tgt.name in ("PathV", "StrV"):
            return VRef("val", val=tgt)
        raise Unsupported("reference to a mutable value")
    if isinstance(v, VStruct):
        return VStruct(v.name, [_refs_by_value(x, frames) for x in v.f])
    return v


def merge_states(sts):
    sts = [s for s in sts if not z3.is_false(s.guard)]
    if not sts:
        return None
    acc = sts[0]
    for s in sts[1:]:
        g = s.guard
        frames = {}
        for fid in set(acc.frames) | set(s.frames):
            fa, fb = acc.frames.get(fid, {}), s.frames.get(fid, {})
            fr = {}
            for loc in set(fa) | set(fb):
                try:
                    fr[loc] = merge(g, fb.get(loc), fa.get(loc)) if (loc in fa and loc in fb) else (fa.get(loc) or fb.get(loc))
                except Unsupported as e:
                    if "different references" in str(e):
                        try:
                            fr[loc] = merge(g, _refs_by_value(fb.get(loc), s.frames), _refs_by_value(fa.get(loc), acc.frames))
                            continue
                        except Unsupported:
                            pass
                    raise Unsupported("%s (local %s: %r / %r)" % (e, loc, fb.get(loc), fa.get(loc)))
            frames[fid] = fr
        acc = State(simp(z3.Or(acc.guard, g)), frames)
    return acc


class Oblig:
    __slots__ = ("kind", "where", "msg", "formula")

    def __init__(self, kind, where, msg, formula):
        self.kind, self.where, self.msg, self.formula = kind, where, msg, formula

    def __repr__(self):
        return "Oblig(%s @%s %s)" % (self.kind, self.where, self.msg[:60])


# ----------------------------------------------------------------- executor

STD_ENUMS = {
    "Option": {"None": 0, "Some": 1},
    "Result": {"Ok": 0, "Err": 1},
    "ControlFlow": {"Continue": 0, "Break": 1},
    "Poll": {"Ready": 0, "Pending": 1},
    "Ordering": {"Less": -1, "Equal": 0, "Greater": 1},
}


def array_to_seq(v):
    """[array] of scalars -> VSeq view with the same contents"""
    arr = z3.K(z3.IntSort(), I(0))
    ety = "u8"
    for i, x in enumerate(v.f):
        if not isinstance(x, VInt):
            raise Unsupported("slice view of an array of %r" % (x,))
        arr = z3.Store(arr, i, x.t)
        ety = x.ty
    return VSeq(arr, I(0), I(len(v.f)), ety)


def strip_generics(path):
    """remove ::<...> groups"""
    out, depth, i = [], 0, 0
    while i < len(path):
        if depth == 0 and path.startswith("::<", i):
            depth = 1
            i += 3
            continue
        c = path[i]
        if depth > 0:
            if c == "<":
                depth += 1
            elif c == ">" and path[i - 1] != "-":
                depth -= 1
            i += 1
            continue
        out.append(c)
        i += 1
    return "".join(out)


class Executor:
    def __init__(self, mir, enums=None, K=8):
        self.mir = mir
        self.enums = dict(STD_ENUMS)
        if enums:
            self.enums.update(enums)
        self.K = K
        self.assumes = []
        self.name_guards = True
        self.exit_guards = []     # path conditions of reaching the exit: assumed for goals, NOT for panic edges
        self.obligs = []
        self.models = []          # [(compiled regex, handler, label)]
        self.summaries = {}       # fn name (exact) -> handler
        self.used_models = set()
        self.used_summaries = set()
        self.executed_fns = set()
        self.fid = itertools.count(1)
        self.fresh = itertools.count(1)
        self.bounds = {}
        self._ivmemo = {}
        self._cfg = {}
        self.k_by_fn = {}         # fn name -> unroll bound override
        self.cur_fn = None
        self.stats = {"blocks": 0, "merges": 0, "calls": 0}

    # ---- plumbing
    def add_model(self, pattern, handler, label=None):
        self.models.append((re.compile(pattern), handler, label or pattern))

    def fresh_int(self, name, ty=None, lo=None, hi=None):
        v = z3.Int("%s!%d" % (name, next(self.fresh)))
        if ty is not None:
            l, h = ty_range(ty)
            lo = l if lo is None else lo
            hi = h if hi is None else hi
        if lo is not None:
            self.assumes.append(v >= lo)
        if hi is not None:
            self.assumes.append(v <= hi)
        self.bounds[v.get_id()] = (lo, hi)
        return v

    # ---- interval analysis (sound over-approximation; used only to drop provably redundant wraps)
    def interval(self, t):
        memo = self._ivmemo
        key = t.get_id()
        r = memo.get(key)
        if r is not None:
            return r
        r = self._interval(t)
        memo[key] = r
        return r

    def _interval(self, t):
        INF = None
        if z3.is_int_value(t):
            v = t.as_long()
            return (v, v)
        if not z3.is_app(t) or not z3.is_int(t):
            return (INF, INF)
        k = t.decl().kind()
        ch = t.children()
        if k == z3.Z3_OP_UNINTERPRETED and not ch:
            return self.bounds.get(t.get_id(), (INF, INF))
        if k == z3.Z3_OP_ADD:
            lo, hi = 0, 0
            for c in ch:
                l, h = self.interval(c)
                lo = None if (lo is None or l is None) else lo + l
                hi = None if (hi is None or h is None) else hi + h
            return (lo, hi)
        if k == z3.Z3_OP_SUB and len(ch) == 2:
            l1, h1 = self.interval(ch[0])
            l2, h2 = self.interval(ch[1])
            return (None if (l1 is None or h2 is None) else l1 - h2, None if (h1 is None or l2 is None) else h1 - l2)
        if k == z3.Z3_OP_UMINUS:
            l, h = self.interval(ch[0])
            return (None if h is None else -h, None if l is None else -l)
        if k == z3.Z3_OP_MUL:
            lo, hi = 1, 1
            for c in ch:
                l, h = self.interval(c)
                if None in (l, h, lo, hi):
                    return (INF, INF)
                cands = [lo * l, lo * h, hi * l, hi * h]
                lo, hi = min(cands), max(cands)
            return (lo, hi)
        if k == z3.Z3_OP_MOD and z3.is_int_value(ch[1]) and ch[1].as_long() > 0:
            m = ch[1].as_long()
            l, h = self.interval(ch[0])
            if l is not None and h is not None and l >= 0 and h < m:
                return (l, h)
            return (0, m - 1)
        if k == z3.Z3_OP_IDIV and z3.is_int_value(ch[1]) and ch[1].as_long() > 0:
            m = ch[1].as_long()
            l, h = self.interval(ch[0])
            return (None if l is None else l // m, None if h is None else h // m)
        if k == z3.Z3_OP_ITE:
            l1, h1 = self.interval(ch[1])
            l2, h2 = self.interval(ch[2])
            return (None if (l1 is None or l2 is None) else min(l1, l2), None if (h1 is None or h2 is None) else max(h1, h2))
        return (INF, INF)

    def fits(self, t, ty):
        l, h = self.interval(t)
        lo, hi = ty_range(ty)
        return l is not None and h is not None and l >= lo and h <= hi

    def fresh_bool(self, name):
        return z3.Bool("%s!%d" % (name, next(self.fresh)))

    def oblig(self, kind, where, msg, formula):
        f = simp(formula)
        if z3.is_false(f):
            return
        self.obligs.append(Oblig(kind, where, msg, f))

    def find_fn(self, name):
        l = self.mir.fns.get(name)
        if not l:
            return None
        rt = [f for f in l if not f.ctfe and getattr(f, "parsed", False)]
        if len(rt) > 1:
            raise Unsupported("ambiguous function name in MIR dump: " + name)
        if rt:
            return rt[0]
        ct = [f for f in l if getattr(f, "parsed", False)]
        return ct[0] if ct else None

    # ---- cfg
    def cfg_info(self, fn):
        ci = self._cfg.get(id(fn))
        if ci:
            return ci
        entry = fn.order[0]
        color, post, back = {}, [], set()
        stack = [(entry, iter(fn.succs(entry)))]
        color[entry] = 1
        while stack:
            bb, it = stack[-1]
            adv = False
            for s in it:
                if s not in fn.blocks:
                    continue
                c = color.get(s, 0)
                if c == 0:
                    color[s] = 1
                    stack.append((s, iter(fn.succs(s))))
                    adv = True
                    break
                if c == 1:
                    back.add((bb, s))
            if not adv:
                color[bb] = 2
                post.append(bb)
                stack.pop()
        rank = {bb: i for i, bb in enumerate(reversed(post))}
        ci = (rank, back)
        self._cfg[id(fn)] = ci
        return ci

    # ---- consts
    def const_value(self, text, fn, want_ty=None):
        t = text.strip()
        m = re.fullmatch(r"(-?\d+)_([iu](?:8|16|32|64|128|size))", t)
        if m:
            return VInt(I(int(m.group(1))), m.group(2))
        if t == "true":
            return VBool(z3.BoolVal(True))
        if t == "false":
            return VBool(z3.BoolVal(False))
        if t == "()":
            return UNIT
        m = re.fullmatch(r"'(.*)'", t)
        if m:
            body = m.group(1)
            if body.startswith("\\u{"):
                cp = int(body[3:-1], 16)
            elif body.startswith("\\x"):
                cp = int(body[2:], 16)
            elif body.startswith("\\"):
                cp = ord({"n": "\n", "t": "\t", "r": "\r", "0": "\0", "\\": "\\", "'": "'", '"': '"'}[body[1]])
            else:
                cp = ord(body)
            return VInt(I(cp), "char")
        if t.startswith('b"') and t.endswith('"'):
            # byte-string literal: a reference to an array of bytes
            body = t[2:-1]
            bs, i = [], 0
            while i < len(body):
                c = body[i]
                if c == "\\":
                    n = body[i + 1]
                    if n == "x":
                        bs.append(int(body[i + 2:i + 4], 16))
                        i += 4
                        continue
                    bs.append(ord({"n": "\n", "t": "\t", "r": "\r", "0": "\0", "\\": "\\", "'": "'", '"': '"'}[n]))
                    i += 2
                    continue
                bs.append(ord(c))
                i += 1
            return VRef("val", val=VStruct("[array]", [VInt(I(b), "u8") for b in bs]))
        if t.startswith('"'):
            return VOpaque(("str", t))
        if "SizedTypeProperties>::" in t:
            return VOpaque(("addr", t))
        mm = re.fullmatch(r"(?:core::num::<impl )?([iu](?:8|16|32|64|128|size))>?::(MAX|MIN|BITS)", t)
        if mm:
            lo, hi = ty_range(mm.group(1))
            if mm.group(2) == "BITS":
                return VInt(I(int_info(mm.group(1))[1]), "u32")
            return VInt(I(hi if mm.group(2) == "MAX" else lo), mm.group(1))
        # named constant
        name = strip_generics(t)
        last = name.split("::")[-1]
        cands = [(k, v) for k, v in self.mir.consts.items() if k.split("::")[-1] == last]
        if cands and fn is not None:
            mm = re.search(r"<impl at [^>]*>", fn.name)
            if mm:
                same = [(k, v) for k, v in cands if mm.group(0) in k]
                if same:
                    cands = same
        if len(cands) > 1 and len(name.split("::")) >= 2:
            # `Type::CONST`: pick the impl block of that type (impl blocks are mapped to types from the source)
            tyname = name.split("::")[-2]
            idx = getattr(self, "impl_index", None) or {}
            c2 = []
            for k, v in cands:
                mi = re.search(r"<impl at [^>]*>", k)
                if mi and idx.get("#impl:" + mi.group(0)) == tyname:
                    c2.append((k, v))
            if c2:
                cands = c2
        if len(cands) > 1 and len(name.split("::")) >= 2:
            # promoted[k] / {constant#k} of a particular function: match the enclosing item's name as well
            prev = name.split("::")[-2]
            c2 = [(k, v) for k, v in cands if k.split("::")[-2:-1] == [prev]]
            if c2:
                cands = c2
        if len(cands) > 1 and want_ty:
            c2 = [(k, v) for k, v in cands if v[0] == want_ty]
            if c2:
                cands = c2
        if len(cands) > 1:
            # free constant referenced by its full path
            c2 = [(k, v) for k, v in cands if k == name or name.endswith("::" + k) or k.endswith("::" + name)]
            if c2:
                cands = c2
        if len(cands) == 1:
            k, (cty, body) = cands[0]
            if isinstance(body, Fn):
                if not getattr(body, "parsed", False):
                    raise Unsupported("constant with unparsed body: " + k)
                st = State()
                v = self.exec_fn(body, [], st, keep_frame=True)
                # promoted constants return a reference to their own local: snapshot it
                if isinstance(v, VRef) and v.kind == "place":
                    v = VRef("val", val=self._read_raw(st, v.fid, v.local, v.proj))
                return v
            return self.const_value(body, None)
        # unit enum variant / fn item used as a value
        segs = name.split("::")
        if len(segs) >= 2 and segs[-2] in self.enums and segs[-1] in self.enums[segs[-2]]:
            return VEnum(segs[-2], I(self.enums[segs[-2]][segs[-1]]), {self.enums[segs[-2]][segs[-1]]: []})
        return VOpaque(("const", t))

    # ---- places
    def _follow(self, st, fid, place):
        """Resolve derefs: return ('place', fid, local, proj) or ('val', value, proj_rest)"""
        local, proj = place.local, []
        cur_fid = fid
        for idx, p in enumerate(place.proj):
            if p[0] == "deref":
                r = self._read_raw(st, cur_fid, local, proj)
                if isinstance(r, VOpaque) and isinstance(r.what, tuple) and r.what[0] == "rawbox":
                    return ("rawbox", r.what[1])
                if not isinstance(r, VRef):
                    raise Unsupported("deref of non-reference %r in %s" % (r, self.cur_fn))
                if r.kind == "val":
                    return ("val", r.val, self._conv_proj(st, fid, place.proj[idx + 1:]))
                cur_fid, local, proj = r.fid, r.local, list(r.proj)
            else:
                proj.append(self._conv1(st, fid, p))
        return ("place", cur_fid, local, tuple(proj))

    def _conv1(self, st, fid, p):
        if p[0] == "index":
            v = st.frames[fid][p[1]]
            return ("index", v.t)
        return p

    def _conv_proj(self, st, fid, projs):
        out = []
        for p in projs:
            if p[0] == "deref":
                out.append(p)
            else:
                out.append(self._conv1(st, fid, p))
        return tuple(out)

    def _read_raw(self, st, fid, local, proj):
        fr = st.frames[fid]
        if local not in fr:
            raise Unsupported("read of unset local %s in frame of %s" % (local, self.cur_fn))
        return self.project(st, fr[local], proj)

    def project(self, st, v, proj):
        for i, p in enumerate(proj):
            k = p[0]
            if isinstance(v, VOpaque) and isinstance(v.what, tuple) and v.what[0] in ("rawbox", "addr"):
                return v
            if k == "field":
                if isinstance(v, VStruct):
                    if p[1] >= len(v.f):
                        raise Unsupported("field %d of %s" % (p[1], v.name))
                    v = v.f[p[1]]
                elif isinstance(v, tuple) and v[0] == "variant":
                    if p[1] >= len(v[1]) or v[1][p[1]] is None:
                        raise Unsupported("read of an unset variant field %d" % p[1])
                    v = v[1][p[1]]
                elif isinstance(v, VEnum) and v.name == "Coroutine":
                    v = v.pay[-1][p[1]]        # captured upvars
                else:
                    raise Unsupported("field projection on %r" % (v,))
            elif k == "downcast":
                if not isinstance(v, VEnum):
                    raise Unsupported("downcast on %r" % (v,))
                vi = self.variant_index(v.name, p[1])
                if vi not in v.pay:
                    raise Unsupported("downcast to dead variant %s of %r" % (p[1], v))
                v = ("variant", v.pay[vi])
            elif k == "deref":
                if not isinstance(v, VRef):
                    raise Unsupported("deref of %r" % (v,))
                if v.kind == "val":
                    v = v.val
                else:
                    v = self._read_raw(st, v.fid, v.local, v.proj)
            elif k == "slice":
                if isinstance(v, VStruct) and v.name == "[array]":
                    v = array_to_seq(v)
                if not isinstance(v, VSeq):
                    raise Unsupported("sub-slice of %r" % (v,))
                v = VSeq(v.arr, simp(v.off + p[1]), p[2], v.elem)
            elif k == "index":
                v = self.index_value(v, p[1])
            elif k == "cindex":
                v = self.index_value(v, I(p[1]))
            else:
                raise Unsupported("projection " + k)
        return v

    def index_value(self, v, idx):
        if isinstance(v, VSeq):
            return VInt(v.at(idx), v.elem)
        if isinstance(v, VStruct) and v.name == "[array]":
            if z3.is_int_value(idx):
                return v.f[idx.as_long()]
            out = v.f[-1]
            for i in range(len(v.f) - 2, -1, -1):
                out = merge(idx == i, v.f[i], out)
            return out
        if isinstance(v, VList):
            return list_get(v, idx)
        raise Unsupported("index into %r" % (v,))

    def variant_index(self, ename, vname):
        m = re.fullmatch(r"variant#(\d+)", vname)
        if m:
            return int(m.group(1))
        e = self.enums.get(ename)
        if e is None or vname not in e:
            raise Unsupported("unknown enum variant %s::%s" % (ename, vname))
        return e[vname]

    def read_place(self, st, fid, place):
        r = self._follow(st, fid, place)
        if r[0] == "val":
            return self.project(st, r[1], r[2])
        _, f2, local, proj = r
        return self._read_raw(st, f2, local, proj)

    def write_place(self, st, fid, place, val):
        r = self._follow(st, fid, place)
        if r[0] == "rawbox":
            # vec![..] idiom: the wrappers (MaybeUninit/ManuallyDrop/MaybeDangling) are transparent
            st.frames.setdefault("heap", {})[r[1]] = val
            return
        if r[0] == "val":
            raise Unsupported("write through a reference to a value snapshot")
        _, f2, local, proj = r
        self.write_at(st, f2, local, proj, val)

    def write_at(self, st, fid, local, proj, val):
        fr = st.frames[fid]
        if not proj:
            fr[local] = val
            return
        fr[local] = self._update(st, fr.get(local), proj, val)

    def _update(self, st, base, proj, val):
        if not proj:
            return val
        p = proj[0]
        k = p[0]
        if k == "field":
            if isinstance(base, VStruct):
                f = list(base.f)
                f[p[1]] = self._update(st, f[p[1]], proj[1:], val)
                return VStruct(base.name, f)
            if isinstance(base, VEnum) and base.name == "Coroutine":
                up = list(base.pay[-1])
                up[p[1]] = self._update(st, up[p[1]], proj[1:], val)
                pay = dict(base.pay)
                pay[-1] = up
                return VEnum(base.name, base.discr, pay)
            if base is None:
                raise Unsupported("field write into unset aggregate")
            raise Unsupported("field write on %r" % (base,))
        if k == "downcast":
            if not isinstance(base, VEnum):
                raise Unsupported("downcast write on %r" % (base,))
            vi = self.variant_index(base.name, p[1])
            # next projection must be a field
            q = proj[1]
            fields = list(base.pay.get(vi, [])) if base.name == "Coroutine" else list(base.pay[vi])
            while len(fields) <= q[1]:
                fields.append(None)
            fields[q[1]] = self._update(st, fields[q[1]], proj[2:], val)
            pay = dict(base.pay)
            pay[vi] = fields
            return VEnum(base.name, base.discr, pay)
        if k == "index":
            if isinstance(base, VSeq) and len(proj) == 1 and isinstance(val, VInt):
                return VSeq(z3.Store(base.arr, simp(base.off + p[1]), val.t), base.off, base.len, base.elem)
            if isinstance(base, VList):
                items = []
                for i, it in enumerate(base.items):
                    new = self._update(st, it, proj[1:], val)
                    items.append(merge(simp(p[1] == i), new, it))
                return VList(items, base.len, base.elem)
            raise Unsupported("index write on %r" % (base,))
        if k == "slice":
            if isinstance(base, VStruct) and base.name == "[array]":
                n = len(base.f)
                upd = self._update(st, array_to_seq(base), proj, val)
                ety = base.f[0].ty if base.f and isinstance(base.f[0], VInt) else "u8"
                return VStruct("[array]", [VInt(simp(upd.at(I(i))), ety) for i in range(n)])
            if not isinstance(base, VSeq):
                raise Unsupported("sub-slice write on %r" % (base,))
            start, ln = p[1], p[2]
            if len(proj) > 1:
                inner = self._update(st, VSeq(base.arr, simp(base.off + start), ln, base.elem), proj[1:], val)
            else:
                inner = val
            if not isinstance(inner, VSeq):
                raise Unsupported("sub-slice write of %r" % (inner,))
            cap = getattr(self, "byte_cap", None) or 16
            arr = base.arr
            for j in range(cap):
                arr = z3.Store(arr, simp(base.off + start + j), z3.If(j < ln, inner.at(I(j)), z3.Select(base.arr, simp(base.off + start + j))))
            return VSeq(arr, base.off, base.len, base.elem)
        if k == "deref":
            raise Unsupported("write through nested reference")
        raise Unsupported("write projection " + k)

    def make_ref(self, st, fid, place):
        r = self._follow(st, fid, place)
        if r[0] == "val":
            return VRef("val", val=self.project(st, r[1], r[2]))
        _, f2, local, proj = r
        return VRef("place", f2, local, proj)

    def deref(self, st, ref):
        if not isinstance(ref, VRef):
            raise Unsupported("deref of %r" % (ref,))
        if ref.kind == "val":
            return ref.val
        return self._read_raw(st, ref.fid, ref.local, ref.proj)

    def store_ref(self, st, ref, val):
        if ref.kind == "val":
            raise Unsupported("write through value snapshot reference")
        self.write_at(st, ref.fid, ref.local, ref.proj, val)

    # ---- operands / rvalues
    def operand(self, st, fid, op, fn):
        if op.kind == "const":
            return self.const_value(op.const, fn)
        return self.read_place(st, fid, op.place)

    def wrap(self, t, ty):
        s, b = int_info(ty)
        if ty == "char":
            return t
        t = simp(t)
        if self.fits(t, ty):
            return t
        m = 1 << b
        if not s:
            return simp(t % m)
        h = 1 << (b - 1)
        return simp(((t + h) % m) - h)

    def in_range(self, t, ty):
        lo, hi = ty_range(ty)
        return z3.And(t >= lo, t <= hi)

    def bv_op(self, op, a, b, ty):
        s, bits = int_info(ty)
        if s:
            raise Unsupported("bitwise op on signed type " + ty)
        x, y = z3.Int2BV(a, bits), z3.Int2BV(b, bits)
        r = {"BitOr": x | y, "BitAnd": x & y, "BitXor": x ^ y,
             "Shl": x << y, "Shr": z3.LShR(x, y)}[op]
        return z3.BV2Int(r, False)

    def binop(self, op, a, b):
        if isinstance(a, VBool) and isinstance(b, VBool):
            t = {"Eq": lambda: a.t == b.t, "Ne": lambda: a.t != b.t,
                 "BitAnd": lambda: z3.And(a.t, b.t), "BitOr": lambda: z3.Or(a.t, b.t),
                 "BitXor": lambda: z3.Xor(a.t, b.t)}.get(op)
            if t is None:
                raise Unsupported("bool binop " + op)
            return VBool(simp(t()))
        if isinstance(a, VOpaque) or isinstance(b, VOpaque):
            if any(isinstance(x, VOpaque) and isinstance(x.what, tuple) and x.what[0] in ("rawbox", "addr") for x in (a, b)):
                return VOpaque(("addr", "pointer arithmetic of the vec![..] idiom"))
            if op in ("Mul", "Add", "Sub", "Div") and any(isinstance(x, VOpaque) and isinstance(x.what, tuple) and x.what[0] == "const" and str(x.what[1]).endswith(("f64", "f32")) for x in (a, b)):
                return VOpaque("float arithmetic (reporting only; never decided on)")
        if isinstance(a, VEnum) and isinstance(b, VEnum) and op in ("Eq", "Ne"):
            # fieldless enums compared through discriminant casts only; not expected here
            raise Unsupported("enum comparison by binop")
        if not (isinstance(a, VInt) and isinstance(b, VInt)):
            raise Unsupported("binop %s on %r, %r" % (op, a, b))
        ty = a.ty
        x, y = a.t, b.t
        if op in ("Eq", "Ne", "Lt", "Le", "Gt", "Ge"):
            t = {"Eq": x == y, "Ne": x != y, "Lt": x < y, "Le": x <= y, "Gt": x > y, "Ge": x >= y}[op]
            return VBool(simp(t))
        if op in ("Add", "Sub", "Mul", "AddUnchecked", "SubUnchecked", "MulUnchecked"):
            r = {"A": x + y, "S": x - y, "M": x * y}[op[0]]
            return VInt(self.wrap(r, ty), ty)
        if op in ("AddWithOverflow", "SubWithOverflow", "MulWithOverflow"):
            r = simp({"A": x + y, "S": x - y, "M": x * y}[op[0]])
            ov = z3.BoolVal(False) if self.fits(r, ty) else simp(z3.Not(self.in_range(r, ty)))
            return VStruct("(tuple)", [VInt(self.wrap(r, ty), ty), VBool(ov)])
        if op in ("Rem", "Div"):
            s, _ = int_info(ty)
            if s:
                # Rust: truncation toward zero (z3's div is Euclidean)
                ax, ay = z3.If(x < 0, -x, x), z3.If(y < 0, -y, y)
                q0 = ax / ay
                q = z3.If((x < 0) != (y < 0), -q0, q0)
                if op == "Div":
                    return VInt(self.wrap(q, ty), ty)
                return VInt(simp(x - q * y), ty)
            # divisor-zero is guarded by a preceding MIR assert; z3's div/mod agree with
            # unsigned machine division for non-negative operands and positive divisor
            return VInt(simp(x % y if op == "Rem" else x / y), ty)
        if op in ("Shl", "ShlUnchecked", "Shr", "ShrUnchecked"):
            s, bits = int_info(ty)
            if z3.is_int_value(y) and not s:
                k = y.as_long() % bits
                if op.startswith("Shl"):
                    return VInt(self.wrap(x * (1 << k), ty), ty, lowzero=k)
                return VInt(simp(x / (1 << k)), ty)
            return VInt(simp(self.bv_op(op[:3], x, y, ty)), ty)
        if op in ("BitOr", "BitAnd", "BitXor"):
            if is_lit(x) and is_lit(y):
                f = {"BitOr": int.__or__, "BitAnd": int.__and__, "BitXor": int.__xor__}[op]
                return VInt(I(f(x.as_long(), y.as_long())), ty)
            if op == "BitAnd":
                # x & (2^k - 1)  ==  x mod 2^k   (keeps the encoding in integer arithmetic)
                for u, v in ((x, y), (y, x)):
                    if z3.is_int_value(v) and v.as_long() >= 0 and (v.as_long() & (v.as_long() + 1)) == 0:
                        return VInt(simp(u % (v.as_long() + 1)), ty)
            full = self.bv_op(op, x, y, ty)
            if op == "BitOr" and (a.lowzero or b.lowzero):
                # (p << k) | q  ==  (p << k) + q   whenever q < 2^k   (sound case split)
                hi, lo = (a, b) if a.lowzero else (b, a)
                k = hi.lowzero
                return VInt(z3.If(z3.And(lo.t >= 0, lo.t < (1 << k)), hi.t + lo.t, full), ty)
            return VInt(full, ty)
        raise Unsupported("binop " + op)

    def cast(self, v, ty, kind):
        if kind == "IntToInt":
            if isinstance(v, VBool):
                return VInt(simp(z3.If(v.t, I(1), I(0))), ty)
            if isinstance(v, VEnum):
                return VInt(self.wrap(v.discr, ty), ty)
            if not isinstance(v, VInt):
                raise Unsupported("IntToInt of %r" % (v,))
            slo, shi = ty_range(v.ty)
            lo, hi = ty_range(ty)
            if slo >= lo and shi <= hi:
                return VInt(v.t, ty)
            return VInt(self.wrap(v.t, ty), ty)
        if kind.startswith("PointerCoercion") or kind in ("Transmute", "PtrToPtr"):
            if isinstance(v, VOpaque) and isinstance(v.what, tuple) and v.what[0] in ("rawbox", "addr"):
                return v
            if kind == "Transmute":
                raise Unsupported("transmute")
            return v
        raise Unsupported("cast kind " + kind)

    def rvalue(self, st, fid, rv, fn, dest_ty=None):
        k = rv.kind
        if k == "use":
            return self.operand(st, fid, rv.a[0], fn)
        if k == "ref":
            return self.make_ref(st, fid, rv.a[0])
        if k == "binop":
            a, b = self.operand(st, fid, rv.a[1], fn), self.operand(st, fid, rv.a[2], fn)
            # the arithmetic type is the DECLARED type of the destination local ((T, bool) for checked ops), not the tag
            # carried by the operand value (which an obligation may have built with a stale type)
            if dest_ty and isinstance(a, VInt) and rv.a[0] not in ("Eq", "Ne", "Lt", "Le", "Gt", "Ge"):
                m = re.fullmatch(r"\((\w+), bool\)", dest_ty)
                dt = m.group(1) if m else dest_ty
                if int_info(dt) and dt != a.ty:
                    a = VInt(a.t, dt)
            return self.binop(rv.a[0], a, b)
        if k == "unop":
            v = self.operand(st, fid, rv.a[1], fn)
            op = rv.a[0]
            if isinstance(v, VOpaque) and isinstance(v.what, tuple) and v.what[0] in ("rawbox", "addr"):
                return v
            if op == "Not":
                if isinstance(v, VBool):
                    return VBool(simp(z3.Not(v.t)))
                if isinstance(v, VInt):
                    s, b = int_info(v.ty)
                    if s:
                        return VInt(simp(-v.t - 1), v.ty)
                    return VInt(simp(((1 << b) - 1) - v.t), v.ty)
            if op == "Neg" and isinstance(v, VInt):
                return VInt(self.wrap(-v.t, v.ty), v.ty)
            if op == "PtrMetadata":
                if isinstance(v, VRef):
                    v = self.deref(st, v)
                if isinstance(v, (VSeq, VList)):
                    return VInt(v.len, "usize")
                if isinstance(v, VStruct) and v.name == "[array]":
                    return VInt(I(len(v.f)), "usize")
            raise Unsupported("unop %s on %r" % (op, v))
        if k == "cast":
            return self.cast(self.operand(st, fid, rv.a[0], fn), rv.a[1], rv.a[2])
        if k == "discriminant":
            v = self.read_place(st, fid, rv.a[0])
            if isinstance(v, VEnum):
                return VInt(v.discr, "isize")
            raise Unsupported("discriminant of %r" % (v,))
        if k == "tuple":
            if not rv.a[0]:
                return UNIT
            return VStruct("(tuple)", [self.operand(st, fid, o, fn) for o in rv.a[0]])
        if k == "array":
            return VStruct("[array]", [self.operand(st, fid, o, fn) for o in rv.a[0]])
        if k == "repeat":
            n = rv.a[1].strip()
            m = re.match(r"(?:const )?(\d+)", n)
            if not m:
                raise Unsupported("repeat count " + n)
            v = self.operand(st, fid, rv.a[0], fn)
            return VStruct("[array]", [v] * int(m.group(1)))
        if k == "closure":
            ops = list(rv.a[1])
            body = self.mir.closures.get(rv.a[0])
            if body is not None and getattr(body, "parsed", False):
                need = self._closure_arity(body)
                if need > len(ops):
                    # rustc's MIR printer zips captures with upvar *variables*, so disjoint captures of one
                    # variable are printed once; recover the operand list from the dead temporaries that
                    # were built for the aggregate (checked against the capture types of the closure body)
                    ops = self._recover_captures(fn, need, body)
            if rv.a[0].startswith("{coroutine@"):
                # an async fn / async block value: a coroutine in its initial state holding its captured variables
                return VEnum("Coroutine", I(0), {-1: [self.operand(st, fid, o, fn) for o in ops]})
            return VStruct(rv.a[0], [self.operand(st, fid, o, fn) for o in ops])
        if k == "adt":
            path = strip_generics(rv.a[0])
            segs = path.split("::")
            fields = [self.operand(st, fid, o, fn) for o in rv.a[1]]
            if len(segs) >= 2 and segs[-2] in self.enums and segs[-1] in self.enums[segs[-2]]:
                vi = self.enums[segs[-2]][segs[-1]]
                return VEnum(segs[-2], I(vi), {vi: fields})
            if len(segs) == 1 and dest_ty:
                # variant printed without its enum path (e.g. `Start(move _29)`): resolve through the destination type
                en = strip_generics(dest_ty).split("::")[-1]
                if en in self.enums and segs[0] in self.enums[en]:
                    vi = self.enums[en][segs[0]]
                    return VEnum(en, I(vi), {vi: fields})
            return VStruct(segs[-1], fields)
        if k == "len":
            v = self.read_place(st, fid, rv.a[0])
            if isinstance(v, VSeq):
                return VInt(v.len, "usize")
            if isinstance(v, VStruct) and v.name == "[array]":
                return VInt(I(len(v.f)), "usize")
        raise Unsupported("rvalue " + k)

    def _closure_arity(self, body):
        mx = -1
        for bb in body.order:
            blk = body.blocks[bb]
            for stmt in blk.stmts:
                for pl in _stmt_places(stmt):
                    if pl.local == "_1":
                        for p in pl.proj:
                            if p[0] == "deref":
                                continue
                            if p[0] == "field":
                                mx = max(mx, p[1])
                            break
        return mx + 1

    def _recover_captures(self, fn, need, body):
        cfn, bb, si = self._cur
        uses = {}
        for b in cfn.order:
            blk = cfn.blocks[b]
            for stmt in blk.stmts:
                for pl in _stmt_places(stmt, reads_only=True):
                    uses[pl.local] = uses.get(pl.local, 0) + 1
            t = blk.term
            for o in _term_operands(t):
                if o.place is not None:
                    uses[o.place.local] = uses.get(o.place.local, 0) + 1
        blk = cfn.blocks[bb]
        cands = []
        for stmt in blk.stmts[:si]:
            if stmt.kind == "assign" and not stmt.place.proj and stmt.rv.kind == "ref":
                loc = stmt.place.local
                if uses.get(loc, 0) <= 1:
                    cands.append(loc)
        cands = cands[-need:]
        if len(cands) != need:
            raise Unsupported("cannot recover the %d captures of closure (MIR printer shows fewer)" % need)
        return [Operand("move", Place(c)) for c in cands]

    # ---- function execution
    def exec_fn(self, fn, args, st, K=None, entry=None, stops=(), init=None, keep_frame=False):
        """Run `fn` on `st` (mutated to the merged post-state). Returns the return value,
        or (when `stops` is given) a dict {bb: (state)} of states captured on reaching a stop block
        after the first step, plus key 'return' -> (state, value)."""
        if not getattr(fn, "parsed", False):
            raise Unsupported("function body not parsed: " + fn.name)
        self.executed_fns.add(fn.name)
        fid = next(self.fid)
        K = self.k_by_fn.get(fn.name, self.K if K is None else K)
        frame = {}
        # zero-sized closure / fn-item locals are never assigned in MIR: give them their (field-less) value up front
        assigned = getattr(fn, "_assigned_locals", None)
        if assigned is None:
            assigned = set()
            for bb in fn.order:
                blk = fn.blocks[bb]
                for stmt in blk.stmts:
                    if stmt.place is not None:
                        assigned.add(stmt.place.local)
                d = blk.term.a.get("dest") if blk.term is not None and hasattr(blk.term, "a") else None
                if d is not None and hasattr(d, "local"):
                    assigned.add(d.local)
            fn._assigned_locals = assigned
        for loc, ty in fn.locals.items():
            if isinstance(ty, str) and ty.startswith("{closure@") and loc not in assigned:
                frame[loc] = VStruct(ty, [])
        for (a, _), v in zip(fn.args, args):
            frame[a] = v
        if init:
            frame.update(init)
        st.frames[fid] = frame
        rank, back = self.cfg_info(fn)
        heap, pend = [], {}
        seq = itertools.count()

        def push(bb, k, s):
            key = (k, rank.get(bb, 1 << 30), bb)
            if key not in pend:
                pend[key] = []
                heapq.heappush(heap, key)
            pend[key].append(s)

        entry = entry or fn.order[0]
        push(entry, 0, st.fork())
        returns, captured = [], {}
        first = True
        prev = self.cur_fn
        while heap:
            key = heapq.heappop(heap)
            k, _, bb = key
            incoming = pend.pop(key)
            s = merge_states(incoming)
            if s is None:
                continue
            if len(incoming) > 1 and not is_lit(s.guard) and self.name_guards:
                # passive form: name the path condition of the join so that later guards stay small
                gname = z3.Bool("pc!%d" % next(self.fresh))
                self.assumes.append(gname == s.guard)
                s.guard = gname
            if len(pend) >= 0:
                self.stats["blocks"] += 1
            if stops and bb in stops and not first:
                captured.setdefault(bb, []).append(s)
                continue
            first = False
            self.cur_fn = fn.name
            blk = fn.blocks[bb]
            where = "%s/%s" % (fn.name, bb)
            for si, stmt in enumerate(blk.stmts):
                if stmt.kind == "assign":
                    self._cur = (fn, bb, si)
                    dty = fn.locals.get(stmt.place.local) if not stmt.place.proj else None
                    v = self.rvalue(s, fid, stmt.rv, fn, dty)
                    self.write_place(s, fid, stmt.place, v)
                elif stmt.kind == "setdiscr":
                    old = self.read_place(s, fid, stmt.place)
                    if isinstance(old, VEnum):
                        self.write_place(s, fid, stmt.place, VEnum(old.name, I(stmt.rv), old.pay))
                    else:
                        raise Unsupported("SetDiscriminant on %r" % (old,))
            t = blk.term
            tk = t.kind

            def go(target, ns):
                if z3.is_false(ns.guard):
                    return
                if (bb, target) in back:
                    if k + 1 > K:
                        self.oblig("unwind", where, "loop bound %d exceeded in %s" % (K, fn.name), ns.guard)
                        return
                    push(target, k + 1, ns)
                else:
                    push(target, k, ns)

            if tk == "goto":
                go(t.a["target"], s)
            elif tk == "drop":
                go(t.a["target"], s)
            elif tk == "return":
                returns.append((s, s.frames[fid].get("_0", UNIT)))
            elif tk == "unreachable":
                self.oblig("unreachable", where, "MIR `unreachable` terminator", s.guard)
            elif tk == "abort":
                self.oblig("panic", where, "abort/resume terminator", s.guard)
            elif tk == "switch":
                v = self.operand(s, fid, t.a["op"], fn)
                taken = []
                for val, target in t.a["targets"]:
                    if isinstance(v, VBool):
                        c = v.t if val != 0 else z3.Not(v.t)
                    else:
                        c = v.t == val
                    c = simp(c)
                    taken.append(c)
                    if z3.is_false(c):
                        continue
                    go(target, s.fork(simp(z3.And(s.guard, c))))
                if t.a["otherwise"]:
                    c = simp(z3.Not(z3.Or(*taken))) if taken else z3.BoolVal(True)
                    if not z3.is_false(c):
                        go(t.a["otherwise"], s.fork(simp(z3.And(s.guard, c))))
            elif tk == "assert":
                v = self.operand(s, fid, t.a["cond"], fn)
                if isinstance(v, VOpaque) and isinstance(v.what, tuple) and v.what[0] == "addr" and \
                        ("misaligned pointer dereference" in t.a["msg"] or "null pointer dereference" in t.a["msg"]):
                    # allocator contract: a fresh Box pointer is aligned and non-null (vec![..] idiom)
                    self.used_models.add("allocator pointer alignment/non-null checks of vec![..] skipped")
                    go(t.a["target"], s)
                    continue
                c = z3.Not(v.t) if t.a["neg"] else v.t
                self.oblig("panic", where, "assert: " + t.a["msg"], z3.And(s.guard, z3.Not(c)))
                s.guard = simp(z3.And(s.guard, c))
                go(t.a["target"], s)
            elif tk == "call":
                self.stats["calls"] += 1
                args_v = [self.operand(s, fid, o, fn) for o in t.a["args"]]
                dest = t.a["dest"]
                dest_ty = None
                if dest is not None and not dest.proj:
                    dest_ty = fn.locals.get(dest.local)
                if t.a["target"] is None:
                    # diverging call: a panic
                    self.oblig("panic", where, "diverging call %s %s" % (
                        t.a["func"], " ".join(repr(a.what[1])[:80] for a in args_v if isinstance(a, VOpaque) and a.what[0] == "str")), s.guard)
                    self.cur_fn = prev
                    continue
                r = self.call(s, fid, t.a["func"], args_v, dest_ty, where)
                self.cur_fn = fn.name
                if z3.is_false(s.guard):
                    continue
                if dest is not None:
                    self.write_place(s, fid, dest, r)
                go(t.a["target"], s)
            else:
                raise Unsupported("terminator " + tk)
        self.cur_fn = prev
        if stops:
            out = {bb: merge_states(l) for bb, l in captured.items()}
            if returns:
                ms = merge_states([r[0] for r in returns])
                out["return"] = ms
            out["fid"] = fid
            return out
        if not returns:
            st.guard = z3.BoolVal(False)
            st.frames.pop(fid, None)
            return None
        ret = None
        acc = None
        live = [(rs, rv) for rs, rv in returns if not z3.is_false(rs.guard)]
        if not live:
            st.guard = z3.BoolVal(False)
            st.frames.pop(fid, None)
            return None
        for rs, rv in live:
            ret = rv if ret is None else merge(rs.guard, rv, ret)
        acc = merge_states([rs for rs, _ in live])
        st.guard = acc.guard
        st.frames = acc.frames
        if not keep_frame:
            st.frames.pop(fid, None)
        return ret

    def call(self, st, fid, func, args, dest_ty, where):
        # 1. summaries / exact copia functions
        name = func
        h = self.summaries.get(name)
        if h is None and "<" in name:
            h = self.summaries.get(strip_generics(name))
        if h is not None:
            self.used_summaries.add(name)
            return h(self, st, args, dest_ty, func, where)
        fn = self.find_fn(name)
        if fn is None and "::<" in name:
            fn = self.find_fn(strip_generics(name))          # free generic function: `f::<A, B>` is defined as `f`
        if fn is None:
            # path printed at the call site may differ from the definition (impl blocks):
            fn = self.resolve_by_suffix(name)
        if fn is not None:
            return self.exec_fn(fn, args, st)
        for rx, handler, label in self.models:
            if rx.search(func):
                self.used_models.add(label)
                return handler(self, st, args, dest_ty, func, where)
        raise Unsupported("call to unmodelled function `%s` at %s" % (func, where))

    def resolve_by_suffix(self, name):
        """Call sites print `Type::method`; definitions print `module::<impl at ..>::method`.
        Resolve through self.impl_index (built by the obligation module from the dump)."""
        idx = getattr(self, "impl_index", None)
        if not idx:
            return None
        key = strip_generics(name)
        target = idx.get(key)
        if not target:
            m = re.fullmatch(r"<([\w:]+) as ([\w:]+)>::(\w+)", key)
            if m:
                target = idx.get("<%s as %s>::%s" % (m.group(1).split("::")[-1], m.group(2).split("::")[-1], m.group(3)))
            else:
                m = re.fullmatch(r"([\w:]+)::(\w+)::(\w+)", key)
                if m:
                    target = idx.get("%s::%s" % (m.group(2), m.group(3)))
        if target:
            return self.find_fn(target)
        return None


def _stmt_places(stmt, reads_only=False):
    out = []
    if stmt.place is not None and not reads_only:
        out.append(stmt.place)
    elif stmt.place is not None and stmt.place.proj:
        out.append(stmt.place)

    def walk(x):
        if isinstance(x, Place):
            out.append(x)
        elif isinstance(x, Operand):
            if x.place is not None:
                out.append(x.place)
        elif isinstance(x, (list, tuple)):
            for y in x:
                walk(y)
    if isinstance(stmt.rv, Rvalue):
        walk(stmt.rv.a)
    return out


def _term_operands(t):
    out = []
    if t is None:
        return out
    for k in ("op", "cond"):
        if k in t.a and isinstance(t.a[k], Operand):
            out.append(t.a[k])
    for o in t.a.get("args", []) or []:
        out.append(o)
    return out


# ----------------------------------------------------------------- list helpers

def list_get(lst, idx):
    if z3.is_int_value(idx):
        k = idx.as_long()
        # out-of-range reads only happen on dead paths (guarded by the caller's bounds obligation)
        return lst.items[k] if 0 <= k < len(lst.items) else lst.items[-1]
    out = lst.items[-1]
    for i in range(len(lst.items) - 2, -1, -1):
        out = merge(simp(idx == i), lst.items[i], out)
    return out
