"""Discharging proof obligations: goal formulas + the executor's panic/unwind edges, with a vacuity twin,
cross-solver re-decision and native confirmation of counterexamples (DESIGN §3)."""
import z3

from . import env
from .env import decide, cross_check, Inconclusive, now


class Prover:
    def __init__(self, R, tier, cross_order=("cvc5", "z3-4.8.12")):
        self.R, self.tier = R, tier
        self.cross_order = cross_order
        self.cap = 60 if tier == "quick" else 600
        self.cross_cap = 15 if tier == "quick" else 120

    def prove(self, ex, goals, oidp, bound, functions, witness_fn=None, extra_info=None, covers=None):
        """goals: {name: formula that must hold under ex.assumes}.  witness_fn(name, model, negated_goal)
        must replay the model natively and return {'confirmed': bool, 'detail': str, 'replay_path': .., 'key': ..}."""
        R = self.R
        info = dict(bound=bound, functions=functions, models=sorted(ex.used_models), summaries=sorted(ex.used_summaries))
        if extra_info:
            info.update(extra_info)
        # vacuity twin: the assumptions (incl. the path condition of reaching the function's exit) are satisfiable
        t0 = now()
        eg = list(getattr(ex, "exit_guards", []))
        st, model, _ = decide(ex.assumes + eg, z3.BoolVal(True), self.cap)
        if st != "sat":
            R.add("%s/vacuity-witness" % oidp, "inconclusive", detail="assumptions are %s: obligation would be vacuous" % st,
                  solver_s=now() - t0, queries=1, **info)
            return {}
        R.extra["vacuity_witnesses_sat"] = R.extra.get("vacuity_witnesses_sat", 0) + 1
        # reachability witnesses: each must be satisfiable at the exit (a twin whose assertion must FAIL)
        for cname, cf in (covers or {}).items():
            t0 = now()
            stc, _, _ = decide(ex.assumes + eg, cf, self.cap)
            if stc == "sat":
                R.add("%s/cover/%s" % (oidp, cname), "holds", solver_s=now() - t0, queries=1, detail="reachability witness satisfied", **info)
            else:
                R.add("%s/cover/%s" % (oidp, cname), "inconclusive", solver_s=now() - t0, queries=1,
                      detail="reachability witness is %s: the obligations of this harness may be vacuous" % stc, **info)
        # goals speak about the returned state: they are asked under the exit path condition;
        # panic / unwinding edges are asked WITHOUT it (assuming the exit is reached would assume them away)
        items = [(k, z3.And(*(eg + [z3.Not(f)]))) for k, f in goals.items()]
        pan = list(ex.obligs)
        if pan:
            items.append(("panic-free", z3.Or(*[o.formula for o in pan])))
        results = {}
        for name, neg in items:
            oid = "%s/%s" % (oidp, name)
            t0 = now()
            q0 = env.STATS.queries
            try:
                st, model, solver = decide(ex.assumes, neg, self.cap)
            except z3.Z3Exception as e:
                R.add(oid, "inconclusive", detail="z3 exception %s" % e, **info)
                results[name] = "inconclusive"
                continue
            if st == "unsat":
                try:
                    cross = cross_check(solver, "unsat", self.cross_cap, which=self.cross_order, first_only=(self.tier == "quick"))
                except Inconclusive as e:
                    R.add(oid, "inconclusive", detail=str(e), **info)
                    results[name] = "inconclusive"
                    continue
                R.add(oid, "holds", solver_s=now() - t0, queries=env.STATS.queries - q0, cross=cross, **info)
                results[name] = "holds"
            elif st == "sat":
                detail = ""
                if name == "panic-free":
                    hit = [o for o in pan if z3.is_true(model.eval(o.formula, model_completion=True))]
                    detail = "reachable panic/unwind edge: " + "; ".join("%s %s" % (o.where, o.msg[:70]) for o in hit[:3]) + " | "
                res = {"confirmed": False, "detail": "no native oracle for this obligation"}
                if witness_fn is not None:
                    try:
                        res = witness_fn(name, model, neg)
                    except Inconclusive as e:
                        res = {"confirmed": False, "detail": "witness construction failed: %s" % e}
                if res.get("refined_holds"):
                    R.add(oid, "holds", solver_s=now() - t0, queries=env.STATS.queries - q0, detail=res.get("detail", ""), **info)
                    results[name] = "holds"
                    continue
                R.add(oid, "violated", solver_s=now() - t0, queries=env.STATS.queries - q0, detail=detail + res.get("detail", ""),
                      confirmed=res.get("confirmed", False), replay_path=res.get("replay_path"), key=res.get("key", oid), **info)
                results[name] = "violated"
            else:
                # no verdict from the solver: still look for a concrete counterexample (cheaper witness queries, native
                # stress histories); only a natively confirmed one is reported
                res = None
                if witness_fn is not None:
                    try:
                        res = witness_fn(name, None, neg)
                    except Exception as e:   # witness code may need the model
                        res = None
                if res and res.get("confirmed"):
                    R.add(oid, "violated", solver_s=now() - t0, queries=env.STATS.queries - q0,
                          detail="solver gave no verdict (%s); counterexample found by the witness search: %s" % (model, res.get("detail", "")),
                          confirmed=True, replay_path=res.get("replay_path"), key=res.get("key", oid), **info)
                    results[name] = "violated"
                    continue
                R.add(oid, "inconclusive", detail="solver: %s" % model, solver_s=now() - t0, queries=env.STATS.queries - q0, **info)
                results[name] = "inconclusive"
        return results
