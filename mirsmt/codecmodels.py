"""Models for executing Codec::{write_message, read_message} and FrameHeader::{read_from, write_to} from MIR.

bincode is NOT modelled: Message::encode / Message::decode are contract summaries (encode yields an arbitrary byte
string or an error; decode is recorded with the exact slice it is given and yields an arbitrary result).  What is
decided is the FRAMING around them and every allocation request made on the way.
`bincode::deserialize_from` (reader-based) is modelled by its documented hazard: it reserves the length it reads from
the (untrusted) stream before reading, i.e. an allocation request of attacker-controlled size.
"""
import re
import z3

from .symexec import (VInt, VBool, VStruct, VEnum, VRef, VOpaque, VSeq, VList, UNIT, Unsupported, I, simp, merge)
from .stdmodels import opt_sym, some, none, seq_of
from .patchmodels import _find_place


def effects(ex):
    if not hasattr(ex, "effects"):
        ex.effects = []
    return ex.effects


def as_seq(ex, st, v):
    while isinstance(v, VRef):
        v = ex.deref(st, v)
    if isinstance(v, VSeq):
        return v
    if isinstance(v, VStruct) and v.name == "[array]":
        arr = z3.K(z3.IntSort(), I(0))
        for i, x in enumerate(v.f):
            arr = z3.Store(arr, i, x.t)
        return VSeq(arr, I(0), I(len(v.f)), "u8")
    raise Unsupported("expected bytes, got %r" % (v,))


def _read_exact_any(ex, st, args, dest_ty, func, where):
    """Cursor::read_exact into a [u8; N] array or a whole Vec<u8>: all or UnexpectedEof"""
    ref, cur = _find_place(ex, st, args[0])
    bref, buf = _find_place(ex, st, args[1])
    if not (isinstance(cur, VStruct) and cur.name == "Cursor"):
        raise Unsupported("read_exact on %r" % (cur,))
    data, pos = cur.f[0], cur.f[1].t
    if isinstance(buf, VStruct) and buf.name == "[array]":
        n = I(len(buf.f))
        ok = simp(n <= z3.If(pos <= data.len, data.len - pos, 0))
        new = VStruct("[array]", [VInt(simp(z3.If(ok, data.at(simp(pos + j)), old.t)), "u8") for j, old in enumerate(buf.f)])
        ex.store_ref(st, bref, new)
    elif isinstance(buf, VSeq):
        n = buf.len
        ok = simp(n <= z3.If(pos <= data.len, data.len - pos, 0))
        # the whole buffer is overwritten on success: it becomes (a copy of) the data slice; on failure its content is unspecified
        junk = z3.Array("unspecified!%d" % next(ex.fresh), z3.IntSort(), z3.IntSort())
        view = VSeq(z3.If(ok, data.arr, junk), simp(z3.If(ok, data.off + pos, 0)), n, "u8")
        if any(p[0] == "slice" for p in bref.proj):
            from .patchmodels import _read_exact
            return _read_exact(ex, st, args, dest_ty, func, where)
        ex.store_ref(st, bref, view)
    else:
        raise Unsupported("read_exact into %r" % (buf,))
    ex.store_ref(st, ref, VStruct("Cursor", [data, VInt(simp(z3.If(ok, pos + n, data.len)), "u64")]))
    return VEnum("Result", simp(z3.If(ok, I(0), I(1))), {0: [UNIT], 1: [VOpaque("io::Error(UnexpectedEof)")]})


def _read_any(ex, st, args, dest_ty, func, where):
    """Read::read per its contract: Ok(n) with 1 <= n <= min(buf.len, remaining) (0 only at end of input or for an
    empty buffer); exactly those n bytes are written.  A reader is NOT obliged to fill the buffer."""
    ref, cur = _find_place(ex, st, args[0])
    bref, buf = _find_place(ex, st, args[1])
    if not (isinstance(cur, VStruct) and cur.name == "Cursor"):
        raise Unsupported("read on %r" % (cur,))
    data, pos = cur.f[0], cur.f[1].t
    left = z3.If(pos <= data.len, data.len - pos, 0)
    if isinstance(buf, VStruct) and buf.name == "[array]":
        blen = I(len(buf.f))
    elif isinstance(buf, VSeq):
        blen = buf.len
    else:
        raise Unsupported("read into %r" % (buf,))
    most = simp(z3.If(left < blen, left, blen))
    n = ex.fresh_int("short_read", lo=0)
    ex.assumes.append(z3.Implies(st.guard, z3.And(n <= most, z3.Implies(most > 0, n >= 1))))
    if isinstance(buf, VStruct):
        new = VStruct("[array]", [VInt(simp(z3.If(j < n, data.at(simp(pos + j)), old.t)), "u8") for j, old in enumerate(buf.f)])
    else:
        arr = buf.arr
        for j in range(ex.byte_cap):
            arr = z3.Store(arr, simp(buf.off + j), z3.If(j < n, data.at(simp(pos + j)), buf.at(I(j))))
        new = VSeq(arr, buf.off, buf.len, buf.elem)
    ex.store_ref(st, bref, new)
    ex.store_ref(st, ref, VStruct("Cursor", [data, VInt(simp(pos + n), "u64")]))
    return VEnum("Result", I(0), {0: [VInt(n, "usize")]})


def _take_read(ex, st, args, dest_ty, func, where):
    """<Take<&mut R> as Read>::read: Read::read's contract, additionally capped by the remaining limit"""
    tref, tk = _find_place(ex, st, args[0])
    if not (isinstance(tk, VStruct) and tk.name == "Take"):
        raise Unsupported("Take::read on %r" % (tk,))
    inner, limit = tk.f[0], tk.f[1].t
    cref, cur = (_find_place(ex, st, inner) if isinstance(inner, VRef) else (None, inner))
    bref, buf = _find_place(ex, st, args[1])
    if not (isinstance(cur, VStruct) and cur.name == "Cursor" and isinstance(buf, VSeq)):
        raise Unsupported("Take::read from %r into %r" % (cur, buf))
    data, pos = cur.f[0], cur.f[1].t
    left = z3.If(pos <= data.len, data.len - pos, 0)
    most = simp(z3.If(left < buf.len, left, buf.len))
    most = simp(z3.If(limit < most, limit, most))
    n = ex.fresh_int("short_read", lo=0)
    ex.assumes.append(z3.Implies(st.guard, z3.And(n <= most, z3.Implies(most > 0, n >= 1))))
    arr = buf.arr
    for j in range(ex.byte_cap):
        arr = z3.Store(arr, simp(buf.off + j), z3.If(j < n, data.at(simp(pos + j)), buf.at(I(j))))
    ex.store_ref(st, bref, VSeq(arr, buf.off, buf.len, buf.elem))
    newcur = VStruct("Cursor", [data, VInt(simp(pos + n), "u64")])
    if cref is not None:
        ex.store_ref(st, cref, newcur)
        ex.store_ref(st, tref, VStruct("Take", [inner, VInt(simp(limit - n), "u64")]))
    else:
        ex.store_ref(st, tref, VStruct("Take", [newcur, VInt(simp(limit - n), "u64")]))
    return VEnum("Result", I(0), {0: [VInt(n, "usize")]})


def _recording_write_all(ex, st, args, dest_ty, func, where):
    ref, w = _find_place(ex, st, args[0])
    src = as_seq(ex, st, args[1])
    if not (isinstance(w, VStruct) and w.name == "RecordingWriter"):
        from .patchmodels import _write_all
        return _write_all(ex, st, args, dest_ty, func, where)
    effects(ex).append({"guard": st.guard, "call": "write_all", "bytes": src})
    return VEnum("Result", I(0), {0: [UNIT]})


def _vec_resize(ex, st, args, dest_ty, func, where):
    ref, n, v = args
    old = ex.deref(st, ref)
    effects(ex).append({"guard": st.guard, "call": "alloc", "size": n.t, "what": "Vec::resize"})
    fresh = z3.Array("resized!%d" % next(ex.fresh), z3.IntSort(), z3.IntSort())
    ex.store_ref(st, ref, VSeq(fresh, I(0), n.t, "u8"))
    return UNIT


def _vec_with_capacity(ex, st, args, dest_ty, func, where):
    effects(ex).append({"guard": st.guard, "call": "alloc", "size": args[0].t, "what": "Vec::with_capacity"})
    return VSeq(z3.K(z3.IntSort(), I(0)), I(0), I(0), "u8")


def _vec_capacity(ex, st, args, dest_ty, func, where):
    s = as_seq(ex, st, args[0])
    c = ex.fresh_int("capacity", ty="usize")
    ex.assumes.append(c >= s.len)
    return VInt(c, "usize")


def _msg_encode(ex, st, args, dest_ty, func, where):
    ok = ex.fresh_bool("encode_ok")
    ln = ex.fresh_int("payload_len", lo=0, hi=(1 << 40))
    arr = z3.Array("ENC", z3.IntSort(), z3.IntSort())
    ex.inputs = getattr(ex, "inputs", {})
    ex.inputs["encode"] = (ok, ln, arr)
    return VEnum("Result", simp(z3.If(ok, I(0), I(1))), {0: [VSeq(arr, I(0), ln, "u8")], 1: [VOpaque("CopiaError::ProtocolError")]})


def _msg_decode(ex, st, args, dest_ty, func, where):
    s = as_seq(ex, st, args[0])
    ok = ex.fresh_bool("decode_ok")
    effects(ex).append({"guard": st.guard, "call": "Message::decode", "bytes": s, "ok": ok})
    return VEnum("Result", simp(z3.If(ok, I(0), I(1))), {0: [VOpaque("Message")], 1: [VOpaque("CopiaError::ProtocolError")]})


def _deserialize_from(ex, st, args, dest_ty, func, where):
    """bincode::deserialize_from(reader): reserves the (untrusted) length prefixes it reads before reading them"""
    n = ex.fresh_int("bincode_reserve", ty="u64")
    effects(ex).append({"guard": st.guard, "call": "alloc", "size": n, "what": "bincode::deserialize_from (length prefix from the stream)"})
    ok = ex.fresh_bool("deserialize_ok")
    effects(ex).append({"guard": st.guard, "call": "bincode::deserialize_from", "ok": ok})
    return VEnum("Result", simp(z3.If(ok, I(0), I(1))), {0: [VOpaque("Message")], 1: [VOpaque("bincode::Error")]})


def _map_err(ex, st, args, dest_ty, func, where):
    r = args[0]
    pay = dict(r.pay)
    if 1 in pay:
        pay[1] = [VOpaque("mapped error")]
    return VEnum("Result", r.discr, pay)


def _result_map(ex, st, args, dest_ty, func, where):
    """Result::map(f) for f = an enum constructor (Some) or a closure/fn over the Ok payload"""
    from .stdmodels import _call_fn_value
    r, f = args
    pay = dict(r.pay)
    if 0 in pay:
        v = pay[0][0]
        fname = str(f.what[1]) if isinstance(f, VOpaque) and isinstance(f.what, tuple) and f.what[0] == "const" else ""
        if fname.endswith("::Some") or "::Some}" in func:
            pay[0] = [some(v)]
        else:
            st2 = st
            pay[0] = [_call_fn_value(ex, st2, f, [v], where)]
    return VEnum("Result", r.discr, pay)


def _from_le_bytes(ex, st, args, dest_ty, func, where):
    m = re.search(r"<impl (\w+)>::from_(le|be)_bytes", func)
    ty, end = m.group(1), m.group(2)
    a = args[0]
    while isinstance(a, VRef):
        a = ex.deref(st, a)
    bs = [x.t for x in a.f]
    if end == "be":
        bs = list(reversed(bs))
    return VInt(simp(sum(b * (256 ** i) for i, b in enumerate(bs))), ty)


def _to_le_bytes(ex, st, args, dest_ty, func, where):
    m = re.search(r"<impl (\w+)>::to_(le|be)_bytes", func)
    ty, end = m.group(1), m.group(2)
    n = {"u16": 2, "u32": 4, "u64": 8}[ty]
    x = args[0].t
    bs = [VInt(simp((x / (256 ** i)) % 256), "u8") for i in range(n)]
    if end == "be":
        bs = list(reversed(bs))
    return VStruct("[array]", bs)


def _opaque(ex, st, args, dest_ty, func, where):
    return VOpaque(func[:50])


def _identity(ex, st, args, dest_ty, func, where):
    return args[0]


def _sink(ex, st, args, dest_ty, func, where):
    return VStruct("RecordingWriter", [])


def install(ex):
    M = []

    def A(pat, h, label):
        M.append((re.compile(pat), h, label))
    S = ex.summaries
    S["Message::encode"] = _msg_encode
    S["Message::decode"] = _msg_decode
    A(r"^<R as (std::io::)?Read>::read_exact$", _read_exact_any, "Cursor::read_exact (array / whole Vec; all or UnexpectedEof)")
    A(r"^<(std::io::)?Take<.*> as (std::io::)?Read>::read$", _take_read, "Take::read (Read::read contract capped by the limit; short reads allowed)")
    A(r"^<R as (std::io::)?Read>::read$", _read_any, "Read::read (contract: any 1..=min(buf, remaining) bytes; short reads allowed)")
    A(r"^<W as (std::io::)?Write>::write_all$", _recording_write_all, "Write::write_all (recorded)")
    A(r"^Vec::<u8>::resize$", _vec_resize, "Vec::resize (allocation request recorded; new contents unspecified)")
    A(r"^Vec::<u8>::with_capacity$", _vec_with_capacity, "Vec::with_capacity (allocation request recorded)")
    A(r"^Vec::<u8>::capacity$", _vec_capacity, "Vec::capacity (any value >= len)")
    A(r"^bincode::deserialize_from::<", _deserialize_from, "bincode::deserialize_from (HAZARD model: reserves untrusted length prefixes)")
    A(r"^(std::result::)?Result::<.*>::map::<", _result_map, "Result::map")
    A(r"^(std::result::)?Result::<.*>::map_err::<", _map_err, "Result::map_err (error value opaque)")
    A(r"<impl \w+>::from_(le|be)_bytes$", _from_le_bytes, "uN::from_le_bytes")
    A(r"<impl \w+>::to_(le|be)_bytes$", _to_le_bytes, "uN::to_le_bytes")
    A(r"^core::fmt::rt::Argument::<'_>::new_\w+::<|^(std::fmt::|alloc::fmt::)?format$|^must_use::<|^Arguments::<'_>::new::<", _opaque, "fmt machinery (opaque)")
    A(r"^std::io::sink$", _sink, "io::sink")
    ex.models = M + ex.models
