"""File-system EFFECT RECORDER for executing the hub handlers (serve.rs) and the bisync apply step (bidir.rs,
archive.rs) from MIR.

The file system is NOT modelled.  Every std::fs / fs2 call is recorded, in program order, as an effect
{guard, call, path(s), ...} and its outcome is an arbitrary input (a fresh Boolean / fresh value): the obligations
are about WHICH operations the code requests, on WHICH paths, in WHICH order and under WHICH conditions.

Paths are terms over uninterpreted constructors:   join(base, rel)   suffix(path, text)   parent(path)
with text = interned literal or an uninterpreted function of the formatted arguments.  Nothing is assumed about the
constructors except functionality (equal arguments -> equal path), so a path obligation such as "the renamed file is
tmp_of(dst)" is decided syntactically-modulo-congruence by the solver.
"""
import re
import z3

from .symexec import (VInt, VBool, VStruct, VEnum, VRef, VOpaque, VSeq, VList, UNIT, Unsupported, I, simp, merge)
from .stdmodels import opt_sym, some, none

PJ = z3.Function("path_join", z3.IntSort(), z3.IntSort(), z3.IntSort())
PS = z3.Function("path_suffix", z3.IntSort(), z3.IntSort(), z3.IntSort())
PP = z3.Function("path_parent", z3.IntSort(), z3.IntSort())
HASPARENT = z3.Function("path_has_parent", z3.IntSort(), z3.BoolSort())
FMT = z3.Function("fmt_text", z3.IntSort(), z3.IntSort(), z3.IntSort(), z3.IntSort())
SHORTHASH = z3.Function("short_hash_text", *([z3.IntSort()] * 7))

_LITS = {}


def lit_id(s):
    """interned literal text -> small distinct integer (>= 1000)"""
    if s not in _LITS:
        _LITS[s] = 1000 + len(_LITS)
    return I(_LITS[s])


def lit_name(k):
    for s, v in _LITS.items():
        if v == k:
            return s
    return None


def pathv(t):
    return VStruct("PathV", [VInt(t, "usize")])


def strv(t):
    return VStruct("StrV", [VInt(t, "usize")])


def effects(ex):
    if not hasattr(ex, "effects"):
        ex.effects = []
    return ex.effects


def record(ex, st, call, **kw):
    e = {"guard": st.guard, "call": call, "seq": len(effects(ex))}
    e.update(kw)
    effects(ex).append(e)
    return e


def _deep(ex, st, v):
    while isinstance(v, VRef):
        v = ex.deref(st, v)
    return v


def text_term(ex, st, v):
    """integer term naming a piece of text: StrV term, or the interned id of a concrete literal"""
    v = _deep(ex, st, v)
    if isinstance(v, VStruct) and v.name in ("StrV", "PathV"):
        return v.f[0].t
    if isinstance(v, VSeq):
        ln = simp(v.len)
        if z3.is_int_value(ln):
            cs = [simp(v.at(I(i))) for i in range(ln.as_long())]
            if all(z3.is_int_value(c) for c in cs):
                return lit_id("".join(chr(c.as_long()) for c in cs))
        raise Unsupported("symbolic text where only an opaque name or a literal is modelled")
    if isinstance(v, VOpaque):
        if isinstance(v.what, tuple) and v.what[0] == "str":
            t = str(v.what[1])
            return lit_id(t[1:-1] if len(t) >= 2 and t[0] == t[-1] == '"' else t)
        return lit_id("opaque:" + str(v.what)[:40])
    raise Unsupported("text of %r" % (v,))


def path_term(ex, st, v):
    v = _deep(ex, st, v)
    if isinstance(v, VStruct) and v.name in ("PathV", "StrV"):
        return v.f[0].t
    return text_term(ex, st, v)


ERRKIND = {"NotFound": 1, "UnexpectedEof": 2, "InvalidData": 3, "PermissionDenied": 4, "AlreadyExists": 5, "Interrupted": 6, "BrokenPipe": 7, "Other": 8}


def io_result(ex, ok, okval=UNIT, kind=None):
    """io::Result with an error of ARBITRARY kind (a fresh integer code; `Error::kind()` compares it with the std constants)"""
    if kind is None:
        kind = ex.fresh_int("errkind", lo=1, hi=64)
    return VEnum("Result", simp(z3.If(ok, I(0), I(1))), {0: [okval], 1: [VStruct("IoError", [VInt(kind, "u8")])]})


def _err_kind(ex, st, args, dest_ty, func, where):
    e = _deep(ex, st, args[0])
    if isinstance(e, VStruct) and e.name == "IoError":
        return VStruct("ErrorKind", [e.f[0]])
    if isinstance(e, VOpaque) and "UnexpectedEof" in str(e.what):
        return VStruct("ErrorKind", [VInt(I(ERRKIND["UnexpectedEof"]), "u8")])
    return VStruct("ErrorKind", [VInt(ex.fresh_int("errkind", lo=1, hi=64), "u8")])


def _kind_code(ex, st, v):
    v = _deep(ex, st, v)
    if isinstance(v, VStruct) and v.name == "ErrorKind":
        return v.f[0].t
    if isinstance(v, VEnum) and v.name == "ErrorKind":
        return v.discr
    txt = str(getattr(v, "what", v))
    for k, c in ERRKIND.items():
        if k in txt:
            return I(c)
    raise Unsupported("io::ErrorKind value %r" % (v,))


def _kind_eq(ex, st, args, dest_ty, func, where):
    t = _kind_code(ex, st, args[0]) == _kind_code(ex, st, args[1])
    return VBool(simp(z3.Not(t) if func.endswith("::ne") else t))


# ----------------------------------------------------------------- path algebra

def _identity_path(ex, st, args, dest_ty, func, where):
    return pathv(path_term(ex, st, args[0]))


def _identity_path_ref(ex, st, args, dest_ty, func, where):
    return VRef("val", val=pathv(path_term(ex, st, args[0])))


def _path_join(ex, st, args, dest_ty, func, where):
    return pathv(PJ(path_term(ex, st, args[0]), path_term(ex, st, args[1])))


def _path_parent(ex, st, args, dest_ty, func, where):
    p = path_term(ex, st, args[0])
    return opt_sym(HASPARENT(p), VRef("val", val=pathv(PP(p))))


HASNAME = z3.Function("path_has_file_name", z3.IntSort(), z3.BoolSort())
FNAME = z3.Function("path_file_name", z3.IntSort(), z3.IntSort())
WITHNAME = z3.Function("path_with_file_name", z3.IntSort(), z3.IntSort(), z3.IntSort())


def _file_name(ex, st, args, dest_ty, func, where):
    p = path_term(ex, st, args[0])
    return opt_sym(HASNAME(p), VRef("val", val=pathv(FNAME(p))))


def _with_file_name(ex, st, args, dest_ty, func, where):
    return pathv(WITHNAME(path_term(ex, st, args[0]), path_term(ex, st, args[1])))


WITHEXT = z3.Function("path_with_extension", z3.IntSort(), z3.IntSort(), z3.IntSort())


def _with_extension(ex, st, args, dest_ty, func, where):
    return pathv(WITHEXT(path_term(ex, st, args[0]), text_term(ex, st, args[1])))


def _os_push(ex, st, args, dest_ty, func, where):
    ref = args[0]
    cur = path_term(ex, st, ref)
    ex.store_ref(st, ref, pathv(PS(cur, text_term(ex, st, args[1]))))
    return UNIT


def _to_path_buf(ex, st, args, dest_ty, func, where):
    return pathv(path_term(ex, st, args[0]))


# ----------------------------------------------------------------- formatting (opaque but functional)

def _fmt_arg(ex, st, args, dest_ty, func, where):
    v = _deep(ex, st, args[0])
    try:
        t = text_term(ex, st, v)
    except Unsupported:
        t = lit_id("arg")
    return VStruct("FmtArg", [VInt(t, "usize")])


def _fmt_arguments(ex, st, args, dest_ty, func, where):
    # template = concrete bytes (interned) ; arguments = array of FmtArg
    tv = _deep(ex, st, args[0])
    try:
        tid = text_term(ex, st, tv) if isinstance(tv, VSeq) else lit_id("tmpl:" + where)
    except Unsupported:
        tid = lit_id("tmpl:" + where)
    if isinstance(tv, VStruct) and tv.name == "[array]":
        bs = [simp(x.t) for x in tv.f]
        tid = lit_id("tmpl:" + ",".join(str(b) for b in bs)) if all(z3.is_int_value(b) for b in bs) else lit_id("tmpl:" + where)
    a = _deep(ex, st, args[1]) if len(args) > 1 else None
    ts = []
    if isinstance(a, VStruct) and a.name == "[array]":
        ts = [x.f[0].t if isinstance(x, VStruct) and x.name == "FmtArg" else lit_id("arg") for x in a.f]
    while len(ts) < 2:
        ts.append(I(0))
    return VStruct("FmtArgs", [VInt(FMT(tid, ts[0], ts[1]), "usize")])


def _fmt_format(ex, st, args, dest_ty, func, where):
    a = _deep(ex, st, args[0])
    if isinstance(a, VStruct) and a.name == "FmtArgs":
        return strv(a.f[0].t)
    return strv(lit_id("formatted:" + where))


def _must_use(ex, st, args, dest_ty, func, where):
    return args[0]


def _str_into_string(ex, st, args, dest_ty, func, where):
    return _deep(ex, st, args[0])


# ----------------------------------------------------------------- file-system calls (recorded; outcome arbitrary)

def _fs_unit(call):
    def h(ex, st, args, dest_ty, func, where):
        ok = ex.fresh_bool(call + "_ok")
        kind = ex.fresh_int("errkind", lo=1, hi=64)
        record(ex, st, call, path=path_term(ex, st, args[0]), ok=ok, errkind=kind)
        return io_result(ex, ok, kind=kind)
    return h


def _fs_rename(ex, st, args, dest_ty, func, where):
    ok = ex.fresh_bool("rename_ok")
    record(ex, st, "rename", path=path_term(ex, st, args[0]), to=path_term(ex, st, args[1]), ok=ok)
    return io_result(ex, ok)


def _fs_copy(ex, st, args, dest_ty, func, where):
    ok = ex.fresh_bool("copy_ok")
    record(ex, st, "copy", path=path_term(ex, st, args[0]), to=path_term(ex, st, args[1]), ok=ok)
    return io_result(ex, ok, VInt(ex.fresh_int("copied", ty="u64"), "u64"))


OO_FLAGS = ("create", "truncate", "write", "read", "append", "create_new")


def _file_open(call):
    def h(ex, st, args, dest_ty, func, where):
        ok = ex.fresh_bool(call + "_ok")
        p = path_term(ex, st, args[-1])
        flags = {"create": z3.BoolVal(call == "create"), "truncate": z3.BoolVal(call == "create"), "write": z3.BoolVal(call == "create"),
                 "read": z3.BoolVal(call == "open"), "append": z3.BoolVal(False), "create_new": z3.BoolVal(False)}
        if call == "open-options":
            oo = _deep(ex, st, args[0])
            if isinstance(oo, VStruct) and oo.name == "OpenOptions" and len(oo.f) == len(OO_FLAGS):
                flags = {k: oo.f[i].t for i, k in enumerate(OO_FLAGS)}
        e = record(ex, st, call, path=p, ok=ok, flags=flags)
        return io_result(ex, ok, VStruct("File", [VInt(p, "usize"), VInt(I(e["seq"]), "usize")]))
    return h


def _oo_new(ex, st, args, dest_ty, func, where):
    return VStruct("OpenOptions", [VBool(z3.BoolVal(False)) for _ in OO_FLAGS])


def _oo_set(ex, st, args, dest_ty, func, where):
    """OpenOptions::{create,truncate,write,read,append}(&mut self, bool) -> &mut Self"""
    which = func.rsplit("::", 1)[1]
    ref = args[0]
    oo = _deep(ex, st, ref)
    if not (isinstance(oo, VStruct) and oo.name == "OpenOptions"):
        return ref
    val = args[1].t if isinstance(args[1], VBool) else z3.BoolVal(True)
    new = VStruct("OpenOptions", [VBool(val) if k == which else oo.f[i] for i, k in enumerate(OO_FLAGS)])
    if isinstance(ref, VRef):
        try:
            ex.store_ref(st, ref, new)
            return ref
        except Exception:
            return VRef("val", val=new)
    return new


def _file_of(ex, st, v):
    f = _deep(ex, st, v)
    if not (isinstance(f, VStruct) and f.name == "File"):
        raise Unsupported("file operation on %r" % (f,))
    return f


def _file_call(call):
    def h(ex, st, args, dest_ty, func, where):
        f = _file_of(ex, st, args[0])
        ok = ex.fresh_bool(call + "_ok")
        record(ex, st, call, path=f.f[0].t, handle=f.f[1].t, ok=ok)
        return io_result(ex, ok)
    return h


def _file_write_all(ex, st, args, dest_ty, func, where):
    from .stdmodels import seq_of
    f = _file_of(ex, st, args[0])
    ok = ex.fresh_bool("write_ok")
    record(ex, st, "write", path=f.f[0].t, handle=f.f[1].t, bytes=seq_of(ex, st, args[1]), ok=ok)
    return io_result(ex, ok)


def _metadata(ex, st, args, dest_ty, func, where):
    ok = ex.fresh_bool("metadata_ok")
    ln = ex.fresh_int("file_len", ty="u64")
    secs = ex.fresh_int("mtime_secs", lo=-(1 << 40), hi=(1 << 40))
    nanos = ex.fresh_int("mtime_nanos", lo=0, hi=999_999_999)
    record(ex, st, "metadata", path=path_term(ex, st, args[0]), ok=ok, len=ln)
    # Metadata = (len, modified-ok, modified time): read-only facts about the file, all inputs
    mt = VStruct("SystemTime", [VInt(secs, "i64"), VInt(nanos, "u32")])
    return io_result(ex, ok, VStruct("Metadata", [VInt(ln, "u64"), VBool(z3.BoolVal(True)), mt]))


def _meta_modified2(ex, st, args, dest_ty, func, where):
    m = _deep(ex, st, args[0])
    if isinstance(m, VStruct) and m.name == "Metadata" and len(m.f) >= 3:
        return VEnum("Result", I(0), {0: [m.f[2]], 1: [VStruct("IoError", [VInt(I(8), "u8")])]})
    raise Unsupported("Metadata::modified on %r" % (m,))


def _systime_cmp(ex, st, args, dest_ty, func, where):
    a, b = _deep(ex, st, args[0]), _deep(ex, st, args[1])
    x = (a.f[0].t, a.f[1].t)
    y = (b.f[0].t, b.f[1].t)
    gt = z3.Or(x[0] > y[0], z3.And(x[0] == y[0], x[1] > y[1]))
    eq = z3.And(x[0] == y[0], x[1] == y[1])
    op = func.rsplit("::", 1)[1]
    t = {"ge": z3.Or(gt, eq), "gt": gt, "le": z3.Not(gt), "lt": z3.Not(z3.Or(gt, eq)), "eq": eq, "ne": z3.Not(eq)}[op]
    return VBool(simp(t))


def _result_and_then(ex, st, args, dest_ty, func, where):
    """Result::and_then(f): f on the Ok payload, the error passed through"""
    from .stdmodels import _call_fn_value
    r, f = _deep(ex, st, args[0]), args[1]
    if 0 not in r.pay:
        return r
    g0 = st.guard
    s_ok = st.fork(simp(z3.And(g0, r.discr == 0)))
    inner = _call_fn_value(ex, s_ok, f, [r.pay[0][0]], where)
    from .symexec import merge_states
    s_err = st.fork(simp(z3.And(g0, r.discr != 0)))
    ms = merge_states([s_ok, s_err])
    if ms is not None:
        st.guard, st.frames = ms.guard, ms.frames
    pay = {0: list(inner.pay.get(0, [])), 1: list(inner.pay.get(1, r.pay.get(1, [VOpaque("error")])))}
    return VEnum("Result", simp(z3.If(r.discr == 0, inner.discr, I(1))), pay)


def _metadata_len(ex, st, args, dest_ty, func, where):
    m = _deep(ex, st, args[0])
    return VInt(m.f[0].t, "u64")


def _path_exists(ex, st, args, dest_ty, func, where):
    b = ex.fresh_bool("exists")
    record(ex, st, "exists", path=path_term(ex, st, args[0]), ok=b)
    return VBool(b)


STRLEN = z3.Function("str_byte_len", z3.IntSort(), z3.IntSort())
BOUNDARY = z3.Function("str_is_char_boundary", z3.IntSort(), z3.IntSort(), z3.BoolSort())
PREFIX = z3.Function("str_prefix", z3.IntSort(), z3.IntSort(), z3.IntSort())


def _abs_str(ex, st, v):
    v = _deep(ex, st, v)
    if isinstance(v, VStruct) and v.name == "StrV":
        return v.f[0].t
    raise Unsupported("abstract-string operation on %r" % (v,))


def _abs_str_len(ex, st, args, dest_ty, func, where):
    """str::len of an ABSTRACT string: its UTF-8 byte length, an uninterpreted non-negative function of the string"""
    try:
        t = _abs_str(ex, st, args[0])
    except Unsupported:
        from . import stdmodels
        return stdmodels._str_len(ex, st, args, dest_ty, func, where)
    ex.assumes.append(STRLEN(t) >= 0)
    return VInt(STRLEN(t), "usize")


def _abs_str_boundary(ex, st, args, dest_ty, func, where):
    t = _abs_str(ex, st, args[0])
    n = args[1].t
    return VBool(simp(z3.Or(n == 0, n == STRLEN(t), z3.And(n > 0, n < STRLEN(t), BOUNDARY(t, n)))))


def _abs_str_index_to(ex, st, args, dest_ty, func, where):
    """&s[..n] of an ABSTRACT string: panics unless n <= len and n is a char boundary - 0 and len always are, whether any other
    offset is depends on the string's characters (an uninterpreted predicate: for SOME string it is not)"""
    try:
        t = _abs_str(ex, st, args[0])
    except Unsupported:
        from . import stdmodels
        return stdmodels._str_index_range(ex, st, args, dest_ty, func, where)
    r = _deep(ex, st, args[1])
    if not (isinstance(r, VStruct) and r.name == "RangeTo"):
        raise Unsupported("abstract-string index by %r" % (r,))
    n = r.f[0].t
    ex.assumes.append(STRLEN(t) >= 0)
    okb = z3.Or(n == 0, n == STRLEN(t), z3.And(n > 0, n < STRLEN(t), BOUNDARY(t, n)))
    ex.oblig("panic", where, "byte index is not a char boundary / out of range of the string", z3.And(st.guard, z3.Not(okb)))
    st.guard = simp(z3.And(st.guard, okb))
    return VRef("val", val=strv(z3.If(n == STRLEN(t), t, PREFIX(t, n))))


def _osstr_len(ex, st, args, dest_ty, func, where):
    """OsStr::len of an abstract name: an uninterpreted non-negative function of the name (ANY length)"""
    t = path_term(ex, st, args[0])
    ex.assumes.append(STRLEN(t) >= 0)
    return VInt(STRLEN(t), "usize")


def _file_set_len(ex, st, args, dest_ty, func, where):
    f = _file_of(ex, st, args[0])
    ok = ex.fresh_bool("set_len_ok")
    record(ex, st, "set_len", path=f.f[0].t, handle=f.f[1].t, ok=ok, len=args[1].t)
    return io_result(ex, ok)


def _file_metadata(ex, st, args, dest_ty, func, where):
    """File::metadata: what the file system says about the open file - an INPUT (its length is not tied to what this code wrote)"""
    f = _file_of(ex, st, args[0])
    ok = ex.fresh_bool("fmetadata_ok")
    ln = ex.fresh_int("file_len", ty="u64")
    record(ex, st, "file-metadata", path=f.f[0].t, handle=f.f[1].t, ok=ok, len=ln)
    mt = VStruct("SystemTime", [VInt(ex.fresh_int("mtime_secs", lo=-(1 << 40), hi=(1 << 40)), "i64"), VInt(ex.fresh_int("mtime_nanos", lo=0, hi=999_999_999), "u32")])
    return io_result(ex, ok, VStruct("Metadata", [VInt(ln, "u64"), VBool(z3.BoolVal(True)), mt]))


def _io_copy_file(ex, st, args, dest_ty, func, where):
    """io::copy(&mut File, &mut W): the file's content is streamed to the writer (recorded)"""
    f = _file_of(ex, st, args[0])
    ok = ex.fresh_bool("stream_ok")
    n = ex.fresh_int("streamed", ty="u64")
    record(ex, st, "stream-to-writer", path=f.f[0].t, handle=f.f[1].t, ok=ok, count=n)
    return io_result(ex, ok, VInt(n, "u64"))


def _flush(ex, st, args, dest_ty, func, where):
    ok = ex.fresh_bool("flush_ok")
    record(ex, st, "flush", path=I(0), ok=ok)
    return io_result(ex, ok)


def _call_once(ex, st, args, dest_ty, func, where):
    from .deltamodels import call_closure
    clos = _deep(ex, st, args[0])
    return call_closure(ex, st, clos, [], where)


def _opt_array_eq(ex, st, args, dest_ty, func, where):
    """<Option<[u8; 32]> as PartialEq>::eq"""
    a, b = _deep(ex, st, args[0]), _deep(ex, st, args[1])
    if not (isinstance(a, VEnum) and isinstance(b, VEnum)):
        raise Unsupported("Option<[u8;32]> == on %r, %r" % (a, b))
    both_some = z3.And(a.discr == 1, b.discr == 1)
    eqs = []
    if 1 in a.pay and 1 in b.pay:
        x, y = _deep(ex, st, a.pay[1][0]), _deep(ex, st, b.pay[1][0])
        eqs = [xi.t == yi.t for xi, yi in zip(x.f, y.f)]
    t = z3.Or(z3.And(a.discr == 0, b.discr == 0), z3.And(both_some, *eqs))
    if func.endswith("::ne"):
        t = z3.Not(t)
    return VBool(simp(t))


def _opt_tuple_eq(ex, st, args, dest_ty, func, where):
    """<Option<(scalar, scalar, ..)> as PartialEq>::eq"""
    a, b = _deep(ex, st, args[0]), _deep(ex, st, args[1])
    conj = []
    if 1 in a.pay and 1 in b.pay:
        x, y = _deep(ex, st, a.pay[1][0]), _deep(ex, st, b.pay[1][0])
        conj = [p.t == q.t for p, q in zip(x.f, y.f)]
    t = z3.Or(z3.And(a.discr == 0, b.discr == 0), z3.And(a.discr == 1, b.discr == 1, *conj))
    return VBool(simp(z3.Not(t) if func.endswith("::ne") else t))


def install(ex):
    M = []

    def A(pat, h, label):
        M.append((re.compile(pat), h, label))
    A(r"^Path::new::<", _identity_path_ref, "Path::new (opaque name)")
    A(r"^Path::as_os_str$|^<PathBuf as Deref>::deref$|^<PathBuf as AsRef<.*>>::as_ref$|^PathBuf::as_path$|^<OsString as Deref>::deref$", _identity_path_ref, "Path/OsStr views (same name)")
    A(r"^<(std::ffi::)?OsStr as ToOwned>::to_owned$|^<PathBuf as From<(std::ffi::)?OsString>>::from$|^Path::to_path_buf$|^<PathBuf as Clone>::clone$|^<PathBuf as From<.*>>::from$", _to_path_buf, "owned copies of a path (same name)")
    A(r"^Path::join::<", _path_join, "Path::join (uninterpreted constructor)")
    A(r"^Path::parent$", _path_parent, "Path::parent (uninterpreted)")
    A(r"^Path::file_name$", _file_name, "Path::file_name (uninterpreted)")
    A(r"^Path::with_file_name::<", _with_file_name, "Path::with_file_name (uninterpreted)")
    A(r"^Path::with_extension::<", _with_extension, "Path::with_extension (uninterpreted: REPLACES the extension, it is not a suffix)")
    A(r"^(std::ffi::)?OsString::push::<", _os_push, "OsString::push (uninterpreted suffix constructor)")
    A(r"^core::fmt::rt::Argument::<'_>::new_\w+::<", _fmt_arg, "fmt::Argument (names its value)")
    A(r"^Arguments::<'_>::new::<|^Arguments::<'_>::new_const::<|^Arguments::<'_>::from_str", _fmt_arguments, "fmt::Arguments (template id + argument names)")
    A(r"^(std::fmt::|alloc::fmt::)?format$", _fmt_format, "format! (uninterpreted function of template and arguments)")
    A(r"^must_use::<", _must_use, "must_use")
    A(r"^<&str as Into<(std::string::)?String>>::into$|^<str as ToString>::to_string$|^<(std::string::)?String as From<&str>>::from$", _str_into_string, "&str -> String")
    A(r"^std::io::Error::kind$", _err_kind, "io::Error::kind (the error's arbitrary kind code)")
    A(r"^<std::io::ErrorKind as PartialEq>::(eq|ne)$", _kind_eq, "ErrorKind == / != (kind codes)")
    A(r"^std::fs::create_dir_all::<", _fs_unit("create_dir_all"), "fs::create_dir_all (recorded)")
    A(r"^std::fs::remove_file::<", _fs_unit("remove_file"), "fs::remove_file (recorded)")
    A(r"^std::fs::remove_dir_all::<", _fs_unit("remove_dir_all"), "fs::remove_dir_all (recorded: removes a whole subtree)")
    A(r"^std::fs::Metadata::is_dir$|^std::fs::Metadata::is_file$", lambda ex, st, args, d, f, w: VBool(ex.fresh_bool("is_dir" if f.endswith("is_dir") else "is_file")), "Metadata::is_dir / is_file (an input)")
    A(r"^std::fs::rename::<", _fs_rename, "fs::rename (recorded)")
    A(r"^std::fs::copy::<", _fs_copy, "fs::copy (recorded)")
    A(r"^std::fs::File::create::<", _file_open("create"), "File::create (recorded)")
    A(r"^std::fs::File::open::<", _file_open("open"), "File::open (recorded)")
    A(r"^std::fs::OpenOptions::new$", _oo_new, "OpenOptions::new")
    A(r"^(std|tokio)::fs::OpenOptions::(create|truncate|write|read|append|create_new)$", _oo_set, "OpenOptions setters")
    A(r"^tokio::fs::OpenOptions::new$", _oo_new, "tokio OpenOptions::new")
    A(r"^std::fs::OpenOptions::open::<", _file_open("open-options"), "OpenOptions::open (recorded)")
    A(r"^std::fs::File::sync_all$", _file_call("sync_all"), "File::sync_all (recorded)")
    A(r"^std::fs::File::set_len$", _file_set_len, "File::set_len (recorded)")
    A(r"^(std::ffi::)?OsStr::len$", _osstr_len, "OsStr::len of an abstract name (uninterpreted length)")
    A(r"^(std::ffi::)?OsStr::is_empty$", lambda ex, st, args, d, f, w: VBool(simp(_osstr_len(ex, st, args, d, f, w).t == 0)), "OsStr::is_empty of an abstract name")
    A(r"^core::str::<impl str>::len$", _abs_str_len, "str::len of an abstract string (uninterpreted byte length)")
    A(r"^core::str::<impl str>::is_char_boundary$", _abs_str_boundary, "str::is_char_boundary of an abstract string (uninterpreted predicate; 0 and len are boundaries)")
    A(r"^<str as (std::ops::)?Index<(std::ops::)?RangeTo<usize>>>::index$|^core::str::traits::<impl (std::ops::)?Index<(std::ops::)?RangeTo<usize>> for str>::index$", _abs_str_index_to,
      "&str[..n] of an abstract string (panics unless n is 0, len or a char boundary)")
    A(r"^std::fs::File::metadata$", _file_metadata, "File::metadata (recorded; the reported length is an input)")
    A(r"^<std::fs::File as fs2::FileExt>::lock_exclusive$", _file_call("lock"), "fs2 lock_exclusive (recorded)")
    A(r"^<std::fs::File as fs2::FileExt>::unlock$", _file_call("unlock"), "fs2 unlock (recorded)")
    A(r"^<std::fs::File as (std::io::)?Write>::flush$", _file_call("flush-file"), "File::flush (recorded; NOT a sync)")
    A(r"^std::fs::File::sync_data$", _file_call("sync_data"), "File::sync_data (recorded)")
    A(r"^<std::fs::File as (std::io::)?Write>::write_all$", _file_write_all, "File::write_all (recorded with its bytes)")
    A(r"^std::fs::(symlink_)?metadata::<", _metadata, "fs::metadata / symlink_metadata (recorded; length and mtime are inputs)")
    A(r"^std::fs::Metadata::modified$", _meta_modified2, "Metadata::modified (input value)")
    A(r"^<(std::time::)?SystemTime as Partial(Ord|Eq)>::(ge|gt|le|lt|eq|ne)$", _systime_cmp, "SystemTime comparisons")
    A(r"^(std::result::)?Result::<.*>::and_then::<", _result_and_then, "Result::and_then")
    A(r"^std::fs::Metadata::len$", _metadata_len, "Metadata::len")
    A(r"^Path::exists$", _path_exists, "Path::exists (recorded)")
    A(r"^std::io::copy::<std::fs::File, ", _io_copy_file, "io::copy(File -> writer) (recorded)")
    A(r"^<W as (std::io::)?Write>::flush$", _flush, "Write::flush (recorded)")
    A(r"^<impl FnOnce\(\) -> T as FnOnce<\(\)>>::call_once$", _call_once, "FnOnce::call_once of a closure value")
    A(r"^<(std::option::)?Option<\(\w+(, \w+)*\)> as PartialEq>::(eq|ne)$", _opt_tuple_eq, "<Option<(scalars)> as PartialEq>::eq")
    A(r"^<(std::option::)?Option<\[u8; 32\]> as PartialEq>::(eq|ne)$", _opt_array_eq, "<Option<[u8; 32]> as PartialEq>::eq")
    ex.models = M + ex.models
