"""Text as bounded symbolic character sequences for code that BUILDS strings (shell command lines): str::replace(char, &str),
format! (template decoded by the documented encoding of core::fmt::Arguments of this toolchain), String::new.

format!: the template byte string is decoded as library/core/src/fmt/mod.rs documents it (length-prefixed literal pieces,
0xC0 = next argument with default options, 0b11______ placeholders with optional flags/width/precision/arg_index, 0 = end).
Only default formatting options are modelled; anything else is Unsupported (-> INCONCLUSIVE).  Display of a string is the
string, Display of an integer is an UNINTERPRETED digit string keyed by the integer term (same term, same text); any other
argument makes the result an arbitrary string.  The decoder is validated natively by every obligation that uses it."""
import re
import z3

from .symexec import VInt, VBool, VStruct, VEnum, VRef, VSeq, VOpaque, UNIT, I, simp, Unsupported
from . import stdmodels

K0 = z3.K(z3.IntSort(), I(0))


def lit(s):
    arr = K0
    for i, ch in enumerate(s):
        arr = z3.Store(arr, i, ord(ch) if isinstance(ch, str) else int(ch))
    return VSeq(arr, I(0), I(len(s)), "char")


def concat(parts):
    """parts: list of (VSeq, cap) - cap = python upper bound of that piece's length (the caller obliges len <= cap)"""
    out, off = K0, I(0)
    for s, cap in parts:
        ln = simp(s.len)
        if z3.is_int_value(ln):
            for j in range(ln.as_long()):
                out = z3.Store(out, simp(off + j), s.at(I(j)))
        else:
            for j in range(cap):
                out = z3.Store(out, simp(off + j), z3.If(j < ln, s.at(I(j)), z3.Select(out, simp(off + j))))
        off = simp(off + ln)
    return VSeq(out, I(0), off, "char")


def replace_char(ex, s, c, to, cap, where=None, st=None):
    """left-to-right replacement of every character equal to c by the concrete string `to`"""
    k = simp(to.len).as_long()
    tcs = [simp(to.at(I(j))) for j in range(k)]
    if ex is not None and st is not None:
        ex.oblig("model-bound", where, "string longer than the model capacity %d" % cap, z3.And(st.guard, s.len > cap))
    out, off = K0, I(0)
    for i in range(cap):
        live = i < s.len
        hit = z3.And(live, s.at(I(i)) == c)
        for j in range(k):
            out = z3.Store(out, simp(off + j), z3.If(hit, tcs[j], z3.Select(out, simp(off + j))))
        out = z3.Store(out, off, z3.If(z3.And(live, z3.Not(hit)), s.at(I(i)), z3.Select(out, off)))
        off = simp(off + z3.If(hit, k, z3.If(live, 1, 0)))
    return VSeq(out, I(0), off, "char")


def decode_template(bs):
    """-> list of ('lit', bytes) / ('arg', index)"""
    out, i, nxt = [], 0, 0
    while True:
        if i >= len(bs):
            raise Unsupported("format template without its end marker")
        n = bs[i]
        i += 1
        if n == 0:
            if i != len(bs):
                raise Unsupported("format template: bytes after the end marker")
            return out
        if n < 0x80:
            out.append(("lit", bytes(bs[i:i + n])))
            i += n
        elif n == 0x80:
            ln = bs[i] | (bs[i + 1] << 8)
            out.append(("lit", bytes(bs[i + 2:i + 2 + ln])))
            i += 2 + ln
        elif n == 0xC0:
            out.append(("arg", nxt))
            nxt += 1
        elif n > 0xC0:
            if n & (4 | 16 | 32):
                raise Unsupported("format placeholder with a precision or an indirect width (0x%02x)" % n)
            opts = {}
            if n & 1:
                opts["flags"] = bs[i] | (bs[i + 1] << 8) | (bs[i + 2] << 16) | (bs[i + 3] << 24)
                i += 4
            if n & 2:
                opts["width"] = bs[i] | (bs[i + 1] << 8)
                i += 2
            if n & 8:
                nxt = bs[i] | (bs[i + 1] << 8)
                i += 2
            out.append(("arg", nxt, opts) if opts else ("arg", nxt))
            nxt += 1
        else:
            raise Unsupported("format template byte 0x%02x" % n)


class DecTable:
    """Display of an integer: an uninterpreted non-empty digit string per integer TERM"""
    def __init__(self, cap=2):
        self.cap, self.tab = cap, {}

    def of(self, ex, term):
        key = simp(term).sexpr()
        if key not in self.tab:
            n = len(self.tab)
            ln = ex.fresh_int("declen%d" % n, lo=1, hi=self.cap)
            self.tab[key] = VSeq(z3.Array("DEC%d" % n, z3.IntSort(), z3.IntSort()), I(0), ln, "char")
        return self.tab[key]


ZERO_PAD, WIDTH_FLAG, ALIGN_BITS, FILL_MASK = 1 << 24, 1 << 27, 3 << 29, (1 << 21) - 1


def hex_u8(v, opts, upper=False):
    """LowerHex / UpperHex of a u8 under FormattingOptions (flags layout of this toolchain's core::fmt): no sign, no '#';
    zero-padded or (alignment not set: numbers are right-aligned) fill-padded to the width"""
    flags = opts.get("flags", (3 << 29) | 0x20)
    width = opts.get("width", 0) if flags & WIDTH_FLAG or "flags" not in opts else 0
    if flags & ((1 << 21) | (1 << 22) | (1 << 23) | (1 << 25) | (1 << 26) | (1 << 28)) or (flags & ALIGN_BITS) != ALIGN_BITS or width > 4:
        raise Unsupported("hex formatting with flags 0x%08x width %d" % (flags, width))
    fill = ord("0") if flags & ZERO_PAD else (flags & FILL_MASK)
    a = 55 if upper else 87
    hi, lo = v / 16, v % 16
    ch = lambda d: z3.If(d < 10, 48 + d, a + d)
    two = hi > 0
    nd = z3.If(two, 2, 1)
    pad = z3.If(nd >= width, 0, width - nd)
    arr, off = K0, I(0)
    for j in range(width):
        arr = z3.Store(arr, j, z3.If(j < pad, fill, z3.Select(arr, j)))
    arr = z3.Store(arr, pad, z3.If(two, ch(hi), ch(lo)))
    arr = z3.Store(arr, pad + 1, z3.If(two, ch(lo), z3.Select(arr, pad + 1)))
    return VSeq(arr, I(0), simp(pad + nd), "char"), max(width, 2)


def install(ex, str_cap, fmt_cap, dec=None):
    ex.str_cap = str_cap
    ex.fmt_cap = fmt_cap
    ex.dec_table = dec or DecTable()
    from . import fsmodels

    def deep(st, v):
        return fsmodels._deep(ex, st, v)

    def as_seq(st, v):
        v = deep(st, v)
        if isinstance(v, VStruct) and v.name in ("String", "Cow"):
            v = v.f[0]
        if isinstance(v, VSeq) and v.elem == "char":
            return v
        if isinstance(v, VOpaque) and isinstance(v.what, tuple) and v.what[0] == "str":
            return stdmodels._str_of(ex, st, v)
        return None

    def h_replace_char(ex_, st, args, dest_ty, func, where):
        s = as_seq(st, args[0])
        to = as_seq(st, args[2])
        if s is None or to is None or not z3.is_int_value(simp(to.len)):
            raise Unsupported("str::replace(char, &str) on %r" % (deep(st, args[0]),))
        return VStruct("String", [replace_char(ex_, s, args[1].t, to, ex_.str_cap, where, st)])

    def h_fmt_arg(ex_, st, args, dest_ty, func, where):
        v = deep(st, args[0])
        kind = re.search(r"new_(\w+)::<", func).group(1)
        return VStruct("FmtArg", [VOpaque(kind), v])

    def h_arguments(ex_, st, args, dest_ty, func, where):
        tv = deep(st, args[0])
        if not (isinstance(tv, VStruct) and tv.name == "[array]"):
            raise Unsupported("format template %r" % (tv,))
        bs = [simp(x.t).as_long() for x in tv.f]
        a = deep(st, args[1]) if len(args) > 1 else VStruct("[array]", [])
        items = list(a.f) if isinstance(a, VStruct) and a.name == "[array]" else []
        return VStruct("FmtArgs", [VOpaque(("template", tuple(bs))), VStruct("[array]", items)])

    def h_from_str(ex_, st, args, dest_ty, func, where):
        s = as_seq(st, args[0])
        return VStruct("FmtArgs", [VOpaque(("text", s)), VStruct("[array]", [])])

    def h_format(ex_, st, args, dest_ty, func, where):
        a = deep(st, args[0])
        if not (isinstance(a, VStruct) and a.name == "FmtArgs"):
            raise Unsupported("format of %r" % (a,))
        if a.f[0].what[0] == "text":
            return VStruct("String", [a.f[0].what[1]])
        parts = []
        for piece in decode_template(list(a.f[0].what[1])):
            kind, x = piece[0], piece[1]
            opts = piece[2] if len(piece) > 2 else {}
            if kind == "lit":
                parts.append((lit(x), len(x)))
                continue
            if x >= len(a.f[1].f):
                raise Unsupported("format placeholder %d without an argument" % x)
            fa = a.f[1].f[x]
            v = fa.f[1] if isinstance(fa, VStruct) and fa.name == "FmtArg" else None
            s = as_seq(st, v) if v is not None else None
            if isinstance(v, VInt) and fa.f[0].what in ("lower_hex", "upper_hex") and v.ty == "u8":
                parts.append(hex_u8(v.t, opts, fa.f[0].what == "upper_hex"))
                continue
            if opts:
                raise Unsupported("format placeholder with options %r on %r" % (opts, v))
            if s is not None and fa.f[0].what == "display":
                ex_.oblig("model-bound", where, "formatted argument longer than the model capacity %d" % ex_.fmt_cap, z3.And(st.guard, s.len > ex_.fmt_cap))
                parts.append((s, ex_.fmt_cap))
            elif isinstance(v, VInt) and fa.f[0].what == "display":
                d = ex_.dec_table.of(ex_, v.t)
                parts.append((d, ex_.dec_table.cap))
            else:
                # any other argument (an error value, a Path display ...): the result is SOME text
                n = ex_.fresh_int("textlen", lo=0, hi=ex_.fmt_cap)
                return VStruct("String", [VSeq(z3.Array("TEXT%d" % len(getattr(ex_, "_texts", [])), z3.IntSort(), z3.IntSort()), I(0), n, "char")])
        return VStruct("String", [concat(parts)])

    def h_string_new(ex_, st, args, dest_ty, func, where):
        return VStruct("String", [lit("")])

    def h_write_fmt(ex_, st, args, dest_ty, func, where):
        cur = as_seq(st, args[0])
        new = h_format(ex_, st, [args[1]], dest_ty, func, where)
        if cur is None:
            raise Unsupported("write_fmt into %r" % (deep(st, args[0]),))
        ex_.oblig("model-bound", where, "string longer than the model capacity %d" % ex_.fmt_cap, z3.And(st.guard, cur.len > ex_.fmt_cap))
        ex_.store_ref(st, args[0], VStruct("String", [concat([(cur, ex_.fmt_cap), (new.f[0], ex_.fmt_cap)])]))
        return VEnum("Result", I(0), {0: [UNIT], 1: [VOpaque("fmt::Error")]})

    def h_deref(ex_, st, args, dest_ty, func, where):
        s = as_seq(st, args[0])
        if s is None:
            raise Unsupported("String deref of %r" % (deep(st, args[0]),))
        return VRef("val", val=s)

    def h_must_use(ex_, st, args, dest_ty, func, where):
        return args[0]
    ex.models = [(re.compile(r"^(std|alloc)::str::<impl str>::replace::<char>$|^str::<impl str>::replace::<char>$"), h_replace_char, "str::replace(char, &str) on a bounded symbolic string"),
                 (re.compile(r"^core::fmt::rt::Argument::<'_>::new_\w+::<"), h_fmt_arg, "fmt::Argument (keeps its value)"),
                 (re.compile(r"^Arguments::<'_>::new::<"), h_arguments, "fmt::Arguments::new (template bytes + arguments)"),
                 (re.compile(r"^Arguments::<'_>::from_str"), h_from_str, "fmt::Arguments::from_str"),
                 (re.compile(r"^(std::fmt::|alloc::fmt::)?format$"), h_format, "format! (template decoded per core::fmt's documented encoding; Display of strings and integers)"),
                 (re.compile(r"^(std::string::)?String::new$|^(std::string::)?String::with_capacity$"), h_string_new, "String::new / with_capacity"),
                 (re.compile(r"^<(std::string::)?String as (std::fmt::)?Write>::write_fmt$"), h_write_fmt, "<String as fmt::Write>::write_fmt (appends the formatted text)"),
                 (re.compile(r"^<(std::string::)?String as (std::ops::)?Deref>::deref$|^(std::string::)?String::as_str$"), h_deref, "<String as Deref>::deref"),
                 (re.compile(r"^must_use::<"), h_must_use, "must_use"),
                 ] + ex.models


def seq_eq(a, b, idx):
    """a == b as strings; idx = a fresh Int constant (the goal is asked for every value of it)"""
    return z3.And(a.len == b.len, z3.Implies(z3.And(idx >= 0, idx < a.len), a.at(idx) == b.at(idx)))


def model_text(model, s, cap=400):
    n = model.eval(s.len, model_completion=True).as_long()
    return [model.eval(s.at(I(i)), model_completion=True).as_long() for i in range(min(n, cap))]
