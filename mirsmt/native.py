"""Native oracle: build and drive /verif/replay (the REAL copia code, dev and release profiles)."""
import json
import os
import shutil
import subprocess

from .env import REPO, VERIF, BUILD, Inconclusive, _cargo_env, now

_built = {}


def build(profile):
    if profile in _built:
        return _built[profile]
    crate = os.path.join(VERIF, "replay")
    shutil.copyfile(os.path.join(REPO, "Cargo.lock"), os.path.join(crate, "Cargo.lock"))
    tdir = os.path.join(BUILD, "replay")
    cmd = ["cargo", "build", "--offline", "--target-dir", tdir]
    if profile == "release":
        cmd.append("--release")
    env = _cargo_env()
    env["RUSTUP_TOOLCHAIN"] = _repo_toolchain()
    p = subprocess.run(cmd, cwd=crate, env=env, stdout=subprocess.PIPE, stderr=subprocess.STDOUT, text=True)
    if p.returncode != 0:
        raise Inconclusive("replay binary does not build (%s):\n%s" % (profile, p.stdout[-3000:]))
    exe = os.path.join(tdir, "release" if profile == "release" else "debug", "copia-replay")
    _built[profile] = exe
    return exe


def _repo_toolchain():
    try:
        txt = open(os.path.join(REPO, "rust-toolchain.toml")).read()
        import re
        m = re.search(r'channel\s*=\s*"([^"]+)"', txt)
        if m:
            return m.group(1)
    except OSError:
        pass
    return "stable"


def run_cases(cases, profile="dev", timeout=600):
    """cases: list of dicts -> list of result dicts (same order)"""
    if not cases:
        return []
    exe = build(profile)
    inp = "\n".join(json.dumps(c) for c in cases) + "\n"
    p = subprocess.run([exe], input=inp, stdout=subprocess.PIPE, stderr=subprocess.PIPE, text=True, timeout=timeout)
    lines = [l for l in p.stdout.split("\n") if l.strip()]
    if len(lines) != len(cases):
        # a crash (abort) in the middle: report what we have, mark the rest
        out = [json.loads(l) for l in lines]
        out += [{"crash": "replay process ended (rc=%s) %s" % (p.returncode, p.stderr[-300:])}] * (len(cases) - len(lines))
        return out
    return [json.loads(l) for l in lines]


def run_both(case):
    return {"dev": run_cases([case], "dev")[0], "release": run_cases([case], "release")[0]}
