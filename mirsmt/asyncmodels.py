"""Sequential execution of async code from MIR: a future is polled to completion at its `.await` (one schedule: every
sub-future is immediately ready).  `tokio::spawn(fut)` runs the task at the spawn point, `JoinHandle`s are ready.
This decides what the code REQUESTS and in which program order; it says nothing about other schedules."""
import re
import z3

from .symexec import VInt, VBool, VStruct, VEnum, VRef, VOpaque, UNIT, Unsupported, I, simp


def body_index(ex):
    """async fn / async block type string -> name of its poll function in the MIR dump"""
    idx = getattr(ex, "_async_bodies", None)
    if idx is None:
        idx = {}
        for name, fns in ex.mir.fns.items():
            for f in fns:
                if getattr(f, "args", None):
                    ty = f.args[0][1]
                    m = re.match(r"Pin<&mut \{(async (?:fn body of|block@)[^}]*)\}>$", ty.replace("std::pin::", ""))
                    if m:
                        idx[m.group(1).strip()] = name
        ex._async_bodies = idx
    return idx


def _norm(t):
    return t.replace("std::path::", "").replace("std::option::", "").strip()


def find_body(ex, tystr):
    idx = body_index(ex)
    t = _norm(tystr)
    if t in idx:
        return idx[t]
    # module prefixes and the trailing "()" differ between call sites and definitions: match on the distinctive part
    key = re.sub(r"^async fn body of (\w+::)*", "async fn body of ", t)
    for k, v in idx.items():
        if re.sub(r"^async fn body of (\w+::)*", "async fn body of ", _norm(k)) == key:
            return v
    return None


def ready(val):
    return VStruct("ReadyFuture", [val])


def run_to_completion(ex, st, fut_ref, tystr, where):
    """poll the future behind fut_ref once; it must complete (every awaited sub-future is ready)"""
    v = fut_ref
    while isinstance(v, VRef):
        v = ex.deref(st, v)
    if isinstance(v, VStruct) and v.name == "ReadyFuture":
        return v.f[0]
    if isinstance(v, VEnum) and v.name == "Coroutine":
        body = find_body(ex, tystr)
        fn = ex.find_fn(body) if body else None
        if fn is None:
            raise Unsupported("no MIR body for the future `%s`" % tystr[:80])
        r = ex.exec_fn(fn, [VStruct("Pin", [fut_ref]), VOpaque("Context")], st)
        if r is None:
            return None
        if not (isinstance(r, VEnum) and 0 in r.pay):
            raise Unsupported("future `%s` is never ready" % tystr[:60])
        ex.oblig("model-bound", where, "a future was still pending after one poll (another schedule)", z3.And(st.guard, r.discr != 0))
        return r.pay[0][0] if r.pay[0] else UNIT
    raise Unsupported("poll of %r" % (v,))


def _poll(ex, st, args, dest_ty, func, where):
    m = re.match(r"^<\{(async (?:fn body of|block@).*)\} as (?:std::future::)?Future>::poll$", func)
    pin = args[0]
    ref = pin.f[0] if isinstance(pin, VStruct) and pin.name == "Pin" else pin
    val = run_to_completion(ex, st, ref, m.group(1), where)
    return VEnum("Poll", I(0), {0: [val if val is not None else UNIT]})


_spawned = [0]


def _spawn(ex, st, args, dest_ty, func, where):
    m = re.match(r"^tokio::(?:task::)?spawn::<\{(async (?:fn body of|block@).*)\}>$", func)
    if not m:
        raise Unsupported("tokio::spawn of " + func[:80])
    _spawned[0] += 1
    name = "__task%d" % _spawned[0]
    fid0 = min(st.frames)
    st.frames[fid0][name] = args[0]
    run_to_completion(ex, st, VRef("place", fid0, name), m.group(1), where)
    return VStruct("JoinHandle", [])


def install(ex):
    M = []

    def A(pat, h, label):
        M.append((re.compile(pat), h, label))
    A(r"^<\{async (fn body of|block@).*\} as (std::future::)?Future>::poll$", _poll, "Future::poll of an async fn/block (run to completion at the await: ONE schedule)")
    A(r"^tokio::(task::)?spawn::<", _spawn, "tokio::spawn (task run at the spawn point: ONE schedule)")
    A(r" as (std::future::)?IntoFuture>::into_future$", lambda ex_, st, a, d, f, w: a[0], "IntoFuture::into_future (identity)")
    A(r"^Pin::<&mut .*>::new_unchecked$", lambda ex_, st, a, d, f, w: VStruct("Pin", [a[0]]), "Pin::new_unchecked")
    ex.models = M + ex.models
