"""Models for executing CopiaSync::patch / AsyncCopiaSync::patch / Delta::validate from MIR:
in-memory basis (Cursor: Read + Seek), in-memory output (Vec<u8>: Write), BLAKE3 as the ideal hash
(a hasher accumulates the byte string; finalize yields "the hash of that string")."""
import re
import z3

from .symexec import (VInt, VBool, VStruct, VEnum, VRef, VOpaque, VSeq, VList, UNIT, Unsupported, I, simp, merge)
from .stdmodels import opt_sym, some, none, seq_of
from .deltamodels import deep, seq_append, hash_of, call_closure, closure_of, pure_call, _iter_elem, conc


def cursor(data):
    return VStruct("Cursor", [data, VInt(I(0), "u64")])


def _find_place(ex, st, v):
    """follow references down to the reference that points at the actual object"""
    ref = v
    while True:
        inner = ex.deref(st, ref)
        if isinstance(inner, VRef):
            ref = inner
            continue
        return ref, inner


def _io_err():
    return VEnum("Result", I(1), {1: [VOpaque("io::Error")]})


def _seek(ex, st, args, dest_ty, func, where):
    ref, cur = _find_place(ex, st, args[0])
    pos = args[1]
    if not (isinstance(cur, VStruct) and cur.name == "Cursor"):
        raise Unsupported("seek on %r" % (cur,))
    if not (isinstance(pos, VEnum) and pos.name == "SeekFrom" and 0 in pos.pay and z3.is_int_value(simp(pos.discr)) and simp(pos.discr).as_long() == 0):
        raise Unsupported("only SeekFrom::Start is modelled")
    n = pos.pay[0][0].t
    ex.store_ref(st, ref, VStruct("Cursor", [cur.f[0], VInt(n, "u64")]))
    return VEnum("Result", I(0), {0: [VInt(n, "u64")]})


def _stream_position(ex, st, args, dest_ty, func, where):
    ref, cur = _find_place(ex, st, args[0])
    if not (isinstance(cur, VStruct) and cur.name == "Cursor"):
        raise Unsupported("stream_position on %r" % (cur,))
    return VEnum("Result", I(0), {0: [VInt(cur.f[1].t, "u64")]})


def _read_exact(ex, st, args, dest_ty, func, where):
    """Cursor::read_exact: fills the whole buffer or fails with UnexpectedEof (buffer then unspecified)"""
    ref, cur = _find_place(ex, st, args[0])
    bref, buf = _find_place(ex, st, args[1])
    if not (isinstance(cur, VStruct) and cur.name == "Cursor" and isinstance(buf, VSeq)):
        raise Unsupported("read_exact on %r into %r" % (cur, buf))
    data, pos = cur.f[0], cur.f[1].t
    n = buf.len
    # std: the remaining slice is data[min(pos, len)..]; an EMPTY buffer is filled trivially even past the end
    ok = simp(n <= z3.If(pos <= data.len, data.len - pos, 0))
    cap = ex.byte_cap
    arr = buf.arr
    for j in range(cap):
        arr = z3.Store(arr, simp(buf.off + j), z3.If(z3.And(ok, j < n), data.at(simp(pos + j)), buf.at(I(j))))
    ex.store_ref(st, bref, VSeq(arr, buf.off, buf.len, buf.elem))
    ex.store_ref(st, ref, VStruct("Cursor", [data, VInt(simp(z3.If(ok, pos + n, data.len)), "u64")]))
    return VEnum("Result", simp(z3.If(ok, I(0), I(1))), {0: [UNIT], 1: [VOpaque("io::Error(UnexpectedEof)")]})


def _write_all(ex, st, args, dest_ty, func, where):
    ref, out = _find_place(ex, st, args[0])
    src = seq_of(ex, st, args[1])
    if not isinstance(out, VSeq):
        raise Unsupported("write_all into %r" % (out,))
    ex.oblig("model-bound", where, "output longer than the model capacity %d" % ex.byte_cap,
             z3.And(st.guard, out.len + src.len > ex.byte_cap))
    ex.store_ref(st, ref, seq_append(ex, out, src))
    return VEnum("Result", I(0), {0: [UNIT]})


def _take(ex, st, args, dest_ty, func, where):
    inner = args[0]
    return VStruct("Take", [inner, VInt(args[1].t, "u64")])


def _by_ref(ex, st, args, dest_ty, func, where):
    return args[0]


def _read_to_end_cursor(ex, st, args, dest_ty, func, where):
    """Read::read_to_end from a Cursor or Take<(&mut) Cursor> into a Vec<u8>: appends everything that is left (up to
    the Take limit), advances the cursor, returns the count; an in-memory reader never fails"""
    rref, rd = _find_place(ex, st, args[0])
    limit, cur, cref = None, rd, rref
    if isinstance(rd, VStruct) and rd.name == "Take":
        limit = rd.f[1].t
        cur = rd.f[0]
        if isinstance(cur, VRef):
            cref, cur = _find_place(ex, st, cur)
        else:
            cref = None
    if not (isinstance(cur, VStruct) and cur.name == "Cursor"):
        from .deltamodels import _read_to_end
        return _read_to_end(ex, st, args, dest_ty, func, where)
    data, pos = cur.f[0], cur.f[1].t
    left = z3.If(pos <= data.len, data.len - pos, 0)
    n = simp(left if limit is None else z3.If(limit < left, limit, left))
    vref, v = _find_place(ex, st, args[1])
    ex.store_ref(st, vref, seq_append(ex, v, VSeq(data.arr, simp(data.off + pos), n, "u8")))
    newcur = VStruct("Cursor", [data, VInt(simp(pos + n), "u64")])
    if cref is not None:
        ex.store_ref(st, cref, newcur)
    if limit is not None:
        ex.store_ref(st, rref, VStruct("Take", [rd.f[0] if cref is not None else newcur, VInt(simp(limit - n), "u64")]))
    return VEnum("Result", I(0), {0: [VInt(n, "usize")]})


def _io_copy(ex, st, args, dest_ty, func, where):
    """std::io::copy from an in-memory reader (Cursor or Take<Cursor>) into an in-memory writer: copies everything
    that is left (up to the Take limit) and returns the count; never fails"""
    rref, rd = _find_place(ex, st, args[0])
    wref, out = _find_place(ex, st, args[1])
    limit = None
    cur = rd
    if isinstance(rd, VStruct) and rd.name == "Take":
        cur, limit = rd.f[0], rd.f[1].t
    while isinstance(cur, VRef):
        cur = ex.deref(st, cur)
    if isinstance(out, VStruct) and out.name == "RecordingWriter" and isinstance(cur, VStruct) and cur.name == "Cursor":
        # draining into a sink: only the reader position matters
        data, pos = cur.f[0], cur.f[1].t
        left = z3.If(pos <= data.len, data.len - pos, 0)
        n = simp(left if limit is None else z3.If(limit < left, limit, left))
        newcur = VStruct("Cursor", [data, VInt(simp(pos + n), "u64")])
        inner = rd.f[0] if limit is not None else None
        if inner is not None and isinstance(inner, VRef):
            r2, _ = _find_place(ex, st, inner)
            ex.store_ref(st, r2, newcur)
        elif limit is None:
            ex.store_ref(st, rref, newcur)
        else:
            ex.store_ref(st, rref, VStruct("Take", [newcur, VInt(simp(limit - n), "u64")]))
        return VEnum("Result", I(0), {0: [VInt(n, "u64")]})
    if not (isinstance(cur, VStruct) and cur.name == "Cursor" and isinstance(out, VSeq)):
        raise Unsupported("io::copy from %r into %r" % (rd, out))
    data, pos = cur.f[0], cur.f[1].t
    left = z3.If(pos <= data.len, data.len - pos, 0)
    n = simp(left if limit is None else z3.If(limit < left, limit, left))
    src = VSeq(data.arr, simp(data.off + pos), n, "u8")
    ex.oblig("model-bound", where, "output longer than the model capacity %d" % ex.byte_cap, z3.And(st.guard, out.len + n > ex.byte_cap))
    ex.store_ref(st, wref, seq_append(ex, out, src))
    newcur = VStruct("Cursor", [data, VInt(simp(pos + n), "u64")])
    if limit is None:
        ex.store_ref(st, rref, newcur)
    else:
        inner = rd.f[0]
        if isinstance(inner, VRef):
            r2, _ = _find_place(ex, st, inner)
            ex.store_ref(st, r2, newcur)
            ex.store_ref(st, rref, VStruct("Take", [inner, VInt(simp(limit - n), "u64")]))
        else:
            ex.store_ref(st, rref, VStruct("Take", [newcur, VInt(simp(limit - n), "u64")]))
    return VEnum("Result", I(0), {0: [VInt(n, "u64")]})


def _opaque_err(ex, st, args, dest_ty, func, where):
    return VOpaque("error value (%s)" % func[:60])


def _as_slice(ex, st, args, dest_ty, func, where):
    return VRef("val", val=deep(ex, st, args[0]))


def _index_mut_range(ex, st, args, dest_ty, func, where):
    """<Vec<u8> as IndexMut<Range*>>::index_mut: a mutable view (reference with a sub-slice projection), bounds-checked"""
    ref = args[0]
    while True:
        inner = ex.deref(st, ref)
        if isinstance(inner, VRef):
            ref = inner
            continue
        break
    s, rg = inner, args[1]
    if isinstance(s, VStruct) and s.name == "[array]":
        from .symexec import array_to_seq
        s = array_to_seq(s)
    if not (isinstance(ref, VRef) and ref.kind == "place" and isinstance(s, VSeq)):
        raise Unsupported("index_mut on %r" % (inner,))
    if rg.name == "Range":
        a, b = rg.f[0].t, rg.f[1].t
    elif rg.name == "RangeTo":
        a, b = I(0), rg.f[0].t
    elif rg.name == "RangeFrom":
        a, b = rg.f[0].t, s.len
    elif rg.name == "RangeFull":
        a, b = I(0), s.len
    else:
        raise Unsupported("index_mut range " + rg.name)
    ok = z3.And(a <= b, b <= s.len)
    ex.oblig("panic", where, "slice range out of bounds (%s)" % func, z3.And(st.guard, z3.Not(ok)))
    st.guard = simp(z3.And(st.guard, ok))
    return VRef("place", ref.fid, ref.local, ref.proj + (("slice", simp(a), simp(b - a)),))


def _from_elem(ex, st, args, dest_ty, func, where):
    v, n = args
    return VSeq(z3.K(z3.IntSort(), v.t), I(0), n.t, "u8")


def _hasher_new(ex, st, args, dest_ty, func, where):
    return VStruct("Hasher", [VSeq(z3.K(z3.IntSort(), I(0)), I(0), I(0), "u8")])


def _hasher_update(ex, st, args, dest_ty, func, where):
    ref, h = _find_place(ex, st, args[0])
    src = seq_of(ex, st, args[1])
    ex.oblig("model-bound", where, "hashed stream longer than the model capacity %d" % ex.byte_cap,
             z3.And(st.guard, h.f[0].len + src.len > ex.byte_cap))
    ex.store_ref(st, ref, VStruct("Hasher", [seq_append(ex, h.f[0], src)]))
    return ref


def hash_bytes(ex, seq):
    """byte-level hash model: out[i] = HB_i(len, c_0..c_{cap-1}) — 32 uninterpreted functions of the content
    (any hash function; partial comparisons of the digest are therefore visible)"""
    cap = ex.hash_cap
    if not hasattr(ex, "HB"):
        ex.HB = [z3.Function("HB%d" % i, *([z3.IntSort()] * (cap + 2))) for i in range(32)]
        ex.HB_apps = []
    args = [seq.len] + [z3.If(k < seq.len, seq.at(I(k)), I(0)) for k in range(cap)]
    out = []
    for i in range(32):
        t = ex.HB[i](*args)
        out.append(VInt(t, "u8"))
    ex.HB_apps.append((seq, out))
    for o in out:
        ex.assumes += [o.t >= 0, o.t <= 255]
    return VStruct("[array]", out)


def _hasher_finalize(ex, st, args, dest_ty, func, where):
    h = deep(ex, st, args[0])
    if getattr(ex, "hash_model", "ideal") == "bytes":
        return VStruct("Hash", [hash_bytes(ex, h.f[0])])
    return VStruct("Hash", [h.f[0]])


def _hash_as_bytes(ex, st, args, dest_ty, func, where):
    h = deep(ex, st, args[0])
    if isinstance(h.f[0], VStruct) and h.f[0].name == "[array]":
        return VRef("val", val=h.f[0])
    return VRef("val", val=VStruct("HashBytes", [h.f[0]]))


def _strong_from_bytes(ex, st, args, dest_ty, func, where):
    b = deep(ex, st, args[0])
    if isinstance(b, VStruct) and b.name == "[array]":
        return VStruct("StrongHash", [b])
    if not (isinstance(b, VStruct) and b.name == "HashBytes"):
        raise Unsupported("StrongHash::from_bytes of %r" % (b,))
    return VStruct("StrongHash", [b.f[0]])


def _strong_as_bytes(ex, st, args, dest_ty, func, where):
    h = deep(ex, st, args[0])
    if isinstance(h.f[0], VStruct) and h.f[0].name == "[array]":
        return VRef("val", val=h.f[0])
    return VRef("val", val=VStruct("HashBytes", [h.f[0]]))


def _ref_vec_into_iter(ex, st, args, dest_ty, func, where):
    v = deep(ex, st, args[0])
    return VStruct("SliceIter", [v, VInt(I(0), "usize")])


def _slice_iter_next_any(ex, st, args, dest_ty, func, where):
    ref = args[0]
    it = ex.deref(st, ref)
    s, idx = it.f
    has = simp(idx.t < s.len)
    if isinstance(s, VList) and not s.items:
        has = z3.BoolVal(False)
    ex.store_ref(st, ref, VStruct("SliceIter", [s, VInt(simp(z3.If(has, idx.t + 1, idx.t)), "usize")]))
    return opt_sym(has, VRef("val", val=_iter_elem(s, idx.t)))


def _sum_map(ex, st, args, dest_ty, func, where):
    """Map<slice::Iter<T>, f>::sum / FilterMap<..>::sum with f a closure or a function item"""
    m = args[0]
    if not (isinstance(m, VStruct) and m.name in ("Map", "FilterMap")):
        raise Unsupported("sum on %r" % (m,))
    it, f = m.f
    s, idx = it.f
    if conc(idx.t, "iterator position") != 0 or not isinstance(s, VList):
        raise Unsupported("sum over a partially consumed iterator")
    total = I(0)
    for i, item in enumerate(s.items):
        def run(s2, item=item):
            arg = VRef("val", val=item)
            if isinstance(f, VOpaque) and f.what[0] == "const":
                return ex.call(s2, None, f.what[1], [arg], None, where)
            return call_closure(ex, s2, f, [arg], where)
        r = pure_call(ex, st, i < s.len, run)
        if r is None:
            continue
        if m.name == "FilterMap":
            val = r.pay[1][0].t if 1 in r.pay else I(0)
            total = total + z3.If(z3.And(i < s.len, r.discr == 1), val, I(0))
        else:
            total = total + z3.If(i < s.len, r.t, I(0))
    total = simp(total)
    mm = re.search(r"sum::<(\w+)>", func)
    ty = mm.group(1) if mm else "u64"
    ex.oblig("panic", where, "sum overflows " + ty, z3.And(st.guard, z3.Not(ex.in_range(total, ty))))
    return VInt(total, ty)


# ---- tokio futures over in-memory objects: every poll is Ready

def _fut(kind):
    def mk(ex, st, args, dest_ty, func, where):
        return VStruct("Future:" + kind, list(args))
    return mk


def _read_some(ex, st, args, dest_ty, func, where):
    """AsyncRead::read on an in-memory reader, allowing SHORT reads: returns any n with 1 <= n <= min(remaining, buf.len)
    (0 only at end of input or for an empty buffer) and copies exactly those n bytes"""
    rref, rd = _find_place(ex, st, args[0])
    bref, buf = _find_place(ex, st, args[1])
    if not (isinstance(rd, VStruct) and rd.name == "SliceReader" and isinstance(buf, VSeq)):
        raise Unsupported("read on %r into %r" % (rd, buf))
    data = rd.f[0]
    most = simp(z3.If(data.len < buf.len, data.len, buf.len))
    n = ex.fresh_int("short_read", lo=0)
    ex.assumes.append(z3.Implies(st.guard, z3.And(n <= most, z3.Implies(most > 0, n >= 1))))
    cap = ex.byte_cap
    arr = buf.arr
    for j in range(cap):
        arr = z3.Store(arr, simp(buf.off + j), z3.If(j < n, data.at(I(j)), buf.at(I(j))))
    ex.store_ref(st, bref, VSeq(arr, buf.off, buf.len, buf.elem))
    ex.store_ref(st, rref, VStruct("SliceReader", [VSeq(data.arr, simp(data.off + n), simp(data.len - n), "u8")]))
    return VEnum("Result", I(0), {0: [VInt(n, "usize")]})


def _poll_future(ex, st, args, dest_ty, func, where):
    pin = args[0]
    fut = deep(ex, st, pin.f[0] if isinstance(pin, VStruct) and pin.name == "Pin" else pin)
    if not (isinstance(fut, VStruct) and fut.name.startswith("Future:")):
        raise Unsupported("poll of %r" % (fut,))
    kind = fut.name.split(":", 1)[1]
    h = {"seek": _seek, "read_exact": _read_exact, "write_all": _write_all, "read": _read_some, "stream_position": _stream_position}[kind]
    r = h(ex, st, fut.f, dest_ty, func, where)
    if kind == "read_exact":
        # tokio's read_exact yields the number of bytes read
        pay = dict(r.pay)
        if 0 in pay:
            pay[0] = [VInt(deep(ex, st, fut.f[1]).len, "usize")]
        r = VEnum("Result", r.discr, pay)
    return VEnum("Poll", I(0), {0: [r]})


def install(ex):
    ex.enums.setdefault("SeekFrom", {"Start": 0, "End": 1, "Current": 2})
    M = []

    def A(pat, h, label):
        M.append((re.compile(pat), h, label))
    S = ex.summaries
    S["StrongHash::from_bytes"] = _strong_from_bytes
    S["StrongHash::as_bytes"] = _strong_as_bytes
    A(r"^<R as (std::io::)?Seek>::seek$", _seek, "Cursor::seek(SeekFrom::Start)")
    A(r"^<R as (std::io::)?Seek>::stream_position$", _stream_position, "Cursor::stream_position")
    A(r"^<R as (tokio::io::)?AsyncSeekExt>::stream_position$", _fut("stream_position"), "AsyncSeekExt::stream_position (in-memory, always ready)")
    A(r"^<R as (std::io::)?Read>::read_exact$", _read_exact, "Cursor::read_exact (all or UnexpectedEof)")
    A(r"^<W as (std::io::)?Write>::write_all$", _write_all, "Vec<u8>::write_all (never fails)")
    A(r"^<(&mut )?R as (std::io::)?Read>::take$", _take, "Read::take")
    A(r"^<(&mut )?R as (std::io::)?Read>::by_ref$", _by_ref, "Read::by_ref")
    A(r"^<(std::io::)?Take<.*> as (std::io::)?Read>::read_to_end$|^<R as (std::io::)?Read>::read_to_end$", _read_to_end_cursor,
      "Read::read_to_end from a Cursor / Take<Cursor> (in-memory: never fails)")
    A(r"^std::io::copy::<", _io_copy, "std::io::copy between in-memory reader and writer")
    A(r"^<std::io::Error as From<.*>>::from$|^<std::io::Error as Into<.*>>::into$|^std::io::Error::new::<", _opaque_err, "io::Error constructors (opaque)")
    A(r"^Vec::<\w+>::as_slice$", _as_slice, "Vec::as_slice")
    A(r"^<\[u8; \d+\] as (std::ops::)?IndexMut<(std::ops::)?Range\w*<usize>>>::index_mut$", _index_mut_range, "<[u8; N] as IndexMut<Range*>>::index_mut (mutable view)")
    A(r"^<Vec<u8> as (std::ops::)?IndexMut<(std::ops::)?Range\w*<usize>>>::index_mut$", _index_mut_range, "<Vec<u8> as IndexMut<Range*>>::index_mut (mutable view)")
    A(r"^(std|alloc)::vec::from_elem::<u8>$", _from_elem, "vec![x; n]")
    A(r"^blake3::Hasher::new$", _hasher_new, "blake3::Hasher::new (ideal hash)")
    A(r"^blake3::Hasher::update$", _hasher_update, "blake3::Hasher::update (ideal hash: appends)")
    A(r"^blake3::Hasher::finalize$", _hasher_finalize, "blake3::Hasher::finalize (ideal hash)")
    A(r"^blake3::Hash::as_bytes$", _hash_as_bytes, "blake3::Hash::as_bytes")
    A(r"^<&Vec<DeltaOp> as IntoIterator>::into_iter$", _ref_vec_into_iter, "<&Vec<T> as IntoIterator>::into_iter")
    A(r"^<std::slice::Iter<'_, DeltaOp> as Iterator>::next$", _slice_iter_next_any, "slice::Iter<record>::next")
    A(r"^<std::iter::(Map|FilterMap)<std::slice::Iter<'_, DeltaOp>, .*> as Iterator>::sum::<u64>$", _sum_map, "Map/FilterMap::sum::<u64>")
    A(r"^<Vec<u8> as (std::ops::)?DerefMut>::deref_mut$", lambda ex_, st, a, d, f, w: a[0], "<Vec<u8> as DerefMut>::deref_mut")
    A(r"^<R as (tokio::io::)?AsyncSeekExt>::seek$", _fut("seek"), "AsyncSeekExt::seek (in-memory, always ready)")
    A(r"^<R as (tokio::io::)?AsyncReadExt>::read_exact::<", _fut("read_exact"), "AsyncReadExt::read_exact (in-memory, always ready)")
    A(r"^<R as (tokio::io::)?AsyncReadExt>::read_exact$", _fut("read_exact"), "AsyncReadExt::read_exact (in-memory, always ready)")
    A(r"^<W as (tokio::io::)?AsyncWriteExt>::write_all::<|^<W as (tokio::io::)?AsyncWriteExt>::write_all$", _fut("write_all"), "AsyncWriteExt::write_all (in-memory, always ready)")
    A(r"^<R as (tokio::io::)?AsyncReadExt>::read::<|^<R as (tokio::io::)?AsyncReadExt>::read$", _fut("read"), "AsyncReadExt::read (in-memory, always ready, SHORT READS allowed)")
    A(r"^<tokio::io::(seek::Seek|util::read_exact::ReadExact|util::write_all::WriteAll|util::read::Read)<'_, \w+> as (std::future::)?Future>::poll$", _poll_future, "tokio Seek/ReadExact/WriteAll::poll (completes immediately)")
    ex.models = M + ex.models
