"""Result collection, known-findings handling, evidence files, exit codes (DESIGN §3.4, §3.5, §7)."""
import hashlib
import json
import os
import sys

from .env import VERIF, STATS, now


class Runner:
    def __init__(self, pid, tier, level, seed):
        self.pid, self.tier, self.level, self.seed = pid, tier, level, seed
        self.results = []
        self.t0 = now()
        self.assumptions = []
        self.trusted = []
        self.notes = []
        self.validation = {"cases": 0, "disagreements": 0, "samples": []}
        self.extra = {}

    # status: 'holds' | 'violated' | 'inconclusive' | 'assumed'
    def add(self, oid, status, **kw):
        r = {"id": oid, "status": status}
        r.update(kw)
        self.results.append(r)
        tag = {"holds": "ok  ", "violated": "FAIL", "inconclusive": "??? ", "assumed": "asm "}[status]
        extra = ""
        if kw.get("solver_s") is not None:
            extra = " [%.2fs, %d queries]" % (kw.get("solver_s", 0.0), kw.get("queries", 0))
        print("  %s %s%s%s" % (tag, oid, extra, (" -- " + kw["detail"]) if kw.get("detail") else ""), flush=True)
        return r

    def known(self):
        p = os.path.join(VERIF, "known_findings.json")
        if not os.path.exists(p):
            return []
        return json.load(open(p))

    def save_replay(self, oid, case):
        d = os.path.join(VERIF, "replays")
        os.makedirs(d, exist_ok=True)
        body = json.dumps(case, sort_keys=True)
        h = hashlib.sha256((oid + body).encode()).hexdigest()[:10]
        path = os.path.join(d, "%s-%s.json" % (self.pid, h))
        with open(path, "w") as f:
            json.dump({"property": self.pid, "obligation": oid, "case": case}, f, indent=1)
        return path

    def finish(self):
        known = [k for k in self.known() if k.get("property") == self.pid]
        open_keys = {k["key"]: k for k in known if k.get("status") == "open"}
        violations, known_hits, inconcl = [], [], []
        for r in self.results:
            if r["status"] == "violated":
                key = r.get("key", r["id"])
                if not r.get("confirmed", False):
                    inconcl.append(r)
                    continue
                if key in open_keys:
                    known_hits.append((r, open_keys[key]))
                else:
                    violations.append(r)
            elif r["status"] == "inconclusive":
                inconcl.append(r)
        for r, k in known_hits:
            print("KNOWN-FINDING: property=%s %s [%s] replay=%s" % (self.pid, k.get("what", ""), k["key"], r.get("replay_path", "-")))
        for r in violations:
            print("VIOLATION property=%s replay=%s" % (self.pid, r.get("replay_path", "-")))
            print("  obligation %s: %s" % (r["id"], r.get("detail", "")))
        for r in inconcl:
            print("INCONCLUSIVE property=%s obligation=%s %s" % (self.pid, r["id"], r.get("detail", "")))
        self.write_evidence(len(violations), len(known_hits), len(inconcl))
        if violations:
            return 1
        if inconcl:
            return 2
        return 0

    def write_evidence(self, nviol, nknown, ninc):
        obl = [r for r in self.results]
        discharged = [r for r in obl if r["status"] == "holds"]
        nontrivial = [r for r in obl if r.get("queries", 0) > 0]
        samples = []
        for r in obl[:60]:
            samples.append({k: r[k] for k in ("id", "status", "bound", "functions", "queries", "solver_s", "detail", "cross", "replay_path")
                            if k in r and r[k] is not None})
        funcs = sorted({f for r in obl for f in r.get("functions", [])})
        models = sorted({m for r in obl for m in r.get("models", [])})
        summaries = sorted({m for r in obl for m in r.get("summaries", [])})
        cov = {
            "obligations": len(obl),
            "discharged": len(discharged),
            "evaluations": max(1, STATS.queries),
            "distinct_nontrivial": len({r["id"] for r in nontrivial}),
            "rule": "one entry per proof obligation (a solver query set over symbolic inputs inside the stated bound); "
                    "non-trivial = needed at least one SMT/SAT query (not discharged by term simplification); "
                    "distinct = distinct obligation id",
            "samples": samples,
            "checker_cmd": "./check %s --tier %s" % (self.pid, self.tier),
            "trusted_base": self.trusted,
            "functions_encoded": funcs,
            "std_models_used": models,
            "contract_summaries_used": summaries,
            "solver_queries": STATS.queries,
            "solver_time_s": {k: round(v, 3) for k, v in STATS.time.items()},
            "cross_solver": dict(STATS.cross),
            "translator_validation": self.validation,
            "known_findings_matched": nknown,
            "inconclusive": ninc,
            "statuses": {s: sum(1 for r in obl if r["status"] == s) for s in ("holds", "violated", "inconclusive", "assumed")},
            "explanation": "; ".join(self.notes),
        }
        cov.update(self.extra)
        ev = {
            "property_id": self.pid,
            "tier": self.tier,
            "seed": self.seed,
            "level": self.level,
            "coverage": cov,
            "assumptions": self.assumptions,
            "wall_s": round(now() - self.t0, 2),
            "violations": nviol,
        }
        d = os.path.join(VERIF, "evidence")
        os.makedirs(d, exist_ok=True)
        with open(os.path.join(d, "%s.json" % self.pid), "w") as f:
            json.dump(ev, f, indent=1, default=str)
