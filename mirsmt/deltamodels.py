"""Models and contract summaries for the delta pipeline (Signature::generate -> SignatureTable -> delta scan).

* std models: Vec<record> as VList, HashMap as an association list (math map), iterator adaptors over
  sequences of concrete or bounded length, Read::read_to_end from an in-memory reader.
* contract summaries of copia's own leaves, each backed by a separately decided obligation:
    - RollingChecksum::new(..).digest() and FastRollingChecksum::{new,roll,digest} by their C17 contract:
      the digest is a function D of the bytes in the window (D uninterpreted: any function, so also the real one);
    - StrongHash::compute as an ideal (collision-free) hash: a hash value *is* the hashed byte string.
"""
import re
import z3

from .symexec import (VInt, VBool, VStruct, VEnum, VRef, VOpaque, VSeq, VList, UNIT, Unsupported, State,
                      I, simp, merge, merge_states, list_get)
from .stdmodels import opt_sym, some, none, seq_of, call_closure


def conc(t, what):
    t = simp(t)
    if not z3.is_int_value(t):
        raise Unsupported("%s must be concrete in this encoding, got %s" % (what, t))
    return t.as_long()


def deep(ex, st, v):
    while isinstance(v, VRef):
        v = ex.deref(st, v)
    return v


# ----------------------------------------------------------------- ideal strong hash

def hash_of(seq):
    return VStruct("StrongHash", [VSeq(seq.arr, seq.off, seq.len, "u8")])


def hash_eq_term(ex, a, b):
    sa, sb = a.f[0], b.f[0]
    cap = ex.hash_cap
    conj = [sa.len == sb.len]
    for i in range(cap):
        conj.append(z3.Implies(i < sa.len, sa.at(I(i)) == sb.at(I(i))))
    return simp(z3.And(*conj))


def _strong_compute(ex, st, args, dest_ty, func, where):
    s = seq_of(ex, st, args[0])
    if not getattr(ex, "big_views", False):
        ex.oblig("model-bound", where, "ideal hash: input longer than the model capacity", z3.And(st.guard, s.len > ex.hash_cap))
    return hash_of(s)


def _strong_eq(ex, st, args, dest_ty, func, where):
    a, b = deep(ex, st, args[0]), deep(ex, st, args[1])
    t = hash_eq_term(ex, a, b)
    return VBool(simp(z3.Not(t)) if func.endswith("::ne") else t)


# ----------------------------------------------------------------- weak hash D (uninterpreted)

def weak_D(ex, seq):
    """D(len, b0..b_{W-1}) with W = ex.window_cap; positions >= len are padded with 0.
    Windows longer than W (large-input obligations) use D2(array, offset, len): the digest of a *view*, which is
    weaker (it does not say that equal contents at different places agree) and only used where views are compared."""
    W = ex.window_cap
    ln = simp(seq.len)
    if z3.is_int_value(ln) and ln.as_long() > W:
        return simp(ex.D2(seq.arr, simp(seq.off), ln))
    args = [seq.len]
    for k in range(W):
        args.append(z3.If(k < seq.len, seq.at(I(k)), I(0)))
    return simp(ex.D(*args))


def _rc_new(ex, st, args, dest_ty, func, where):
    s = seq_of(ex, st, args[0])
    if not z3.is_int_value(simp(s.len)):
        ex.oblig("model-bound", where, "window longer than the model capacity", z3.And(st.guard, s.len > ex.window_cap))
    return VStruct("RollingChecksum#contract", [VSeq(s.arr, s.off, s.len, "u8")])


def _rc_digest(ex, st, args, dest_ty, func, where):
    c = deep(ex, st, args[0])
    return VInt(weak_D(ex, c.f[0]), "u32")


def _frc_new(ex, st, args, dest_ty, func, where):
    s = seq_of(ex, st, args[0])
    W = ex.window_cap
    ex.oblig("model-bound", where, "window longer than the model capacity", z3.And(st.guard, s.len > W))
    ws = [VInt(simp(z3.If(k < s.len, s.at(I(k)), I(0))), "u8") for k in range(W)]
    return VStruct("FastRollingChecksum#contract", [VInt(s.len, "usize"), VBool(z3.BoolVal(True))] + ws)


def _frc_roll(ex, st, args, dest_ty, func, where):
    """C17 contract: if `old` is the first byte of the represented window, the state afterwards represents
    window[1..] ++ [new]; otherwise nothing is known about it (valid := false)."""
    ref, old, new = args
    c = ex.deref(st, ref)
    ln, valid, ws = c.f[0], c.f[1], c.f[2:]
    W = ex.window_cap
    ok = simp(z3.And(valid.t, ln.t >= 1, ws[0].t == old.t))
    # shift: position k takes k+1, the last live position (len-1) takes `new`
    nws = []
    for k in range(W):
        nxt = ws[k + 1].t if k + 1 < W else I(0)
        nws.append(VInt(simp(z3.If(k == ln.t - 1, new.t, z3.If(k < ln.t - 1, nxt, I(0)))), "u8"))
    ex.store_ref(st, ref, VStruct(c.name, [ln, VBool(ok)] + nws))
    return UNIT


def _frc_digest(ex, st, args, dest_ty, func, where):
    c = deep(ex, st, args[0])
    ln, valid, ws = c.f[0], c.f[1], c.f[2:]
    d = simp(ex.D(ln.t, *[w.t for w in ws]))
    if z3.is_true(valid.t):
        return VInt(d, "u32")
    garbage = ex.fresh_int("undetermined_digest", ty="u32")
    return VInt(z3.If(valid.t, d, garbage), "u32")


# ----------------------------------------------------------------- in-memory reader

def _read_to_end(ex, st, args, dest_ty, func, where):
    rref, vref = args
    r = ex.deref(st, rref)
    if isinstance(r, VRef):
        rref, r = r, ex.deref(st, r)
    if not (isinstance(r, VStruct) and r.name == "SliceReader"):
        raise Unsupported("read_to_end on %r" % (r,))
    data = r.f[0]
    v = ex.deref(st, vref)
    ex.store_ref(st, vref, seq_append(ex, v, data))
    ex.store_ref(st, rref, VStruct("SliceReader", [VSeq(data.arr, simp(data.off + data.len), I(0), "u8")]))
    return VEnum("Result", I(0), {0: [VInt(data.len, "usize")]})


def _async_read_to_end(ex, st, args, dest_ty, func, where):
    return VStruct("ReadToEndFuture", [args[0], args[1]])


def _pin_new(ex, st, args, dest_ty, func, where):
    return VStruct("Pin", [args[0]])


def _poll_read_to_end(ex, st, args, dest_ty, func, where):
    """an in-memory reader is always ready: the poll performs the whole read"""
    fut = deep(ex, st, args[0].f[0])
    r = _read_to_end(ex, st, [fut.f[0], fut.f[1]], dest_ty, func, where)
    return VEnum("Poll", I(0), {0: [r]})


def seq_append(ex, dst, src):
    """dst ++ src for VSeq of bytes; per-index stores up to ex.byte_cap"""
    if z3.is_int_value(simp(dst.len)) and simp(dst.len).as_long() == 0 and z3.is_int_value(simp(dst.off)):
        return VSeq(src.arr, src.off, src.len, dst.elem)
    cap = ex.byte_cap
    arr = dst.arr
    for j in range(cap):
        inside = z3.And(j >= dst.len, j < dst.len + src.len)
        arr = z3.Store(arr, simp(dst.off + j), z3.If(inside, src.at(simp(j - dst.len)), dst.at(I(j))))
    return VSeq(arr, dst.off, simp(dst.len + src.len), dst.elem)


def _vec_u8_push(ex, st, args, dest_ty, func, where):
    ref, v = args
    s = ex.deref(st, ref)
    ex.store_ref(st, ref, VSeq(z3.Store(s.arr, simp(s.off + s.len), v.t), s.off, simp(s.len + 1), s.elem))
    return UNIT


def _vec_u8_extend(ex, st, args, dest_ty, func, where):
    ref, sl = args
    dst = ex.deref(st, ref)
    src = seq_of(ex, st, sl)
    ex.store_ref(st, ref, seq_append(ex, dst, src))
    return UNIT


def _to_vec(ex, st, args, dest_ty, func, where):
    s = seq_of(ex, st, args[0])
    return VSeq(s.arr, s.off, s.len, s.elem)


def _clone_value(ex, st, args, dest_ty, func, where):
    return deep(ex, st, args[0])


# ----------------------------------------------------------------- Vec<record> as VList

def _vlist_new(ex, st, args, dest_ty, func, where):
    m = re.search(r"Vec::<(.+)>::new", func)
    return VList([], I(0), m.group(1) if m else "?")


def _vlist_of(ex, st, v):
    v = deep(ex, st, v)
    if not isinstance(v, VList):
        raise Unsupported("expected a Vec<record> model, got %r" % (v,))
    return v


def _vlist_len(ex, st, args, dest_ty, func, where):
    return VInt(_vlist_of(ex, st, args[0]).len, "usize")


def _vlist_is_empty(ex, st, args, dest_ty, func, where):
    return VBool(simp(_vlist_of(ex, st, args[0]).len == 0))


def vlist_push(lst, v):
    items = [merge(simp(lst.len == i), v, it) for i, it in enumerate(lst.items)]
    items.append(v)
    return VList(items, simp(lst.len + 1), lst.elem)


def _vlist_push(ex, st, args, dest_ty, func, where):
    ref, v = args
    lst = ex.deref(st, ref)
    if not isinstance(lst, VList):
        raise Unsupported("Vec::push on %r" % (lst,))
    ex.store_ref(st, ref, vlist_push(lst, v))
    return UNIT


def _same_ref(ex, st, args, dest_ty, func, where):
    return args[0]


def _deref_to_val(ex, st, args, dest_ty, func, where):
    return VRef("val", val=deep(ex, st, args[0]))


def _last_mut(ex, st, args, dest_ty, func, where):
    ref = args[0]
    if not (isinstance(ref, VRef) and ref.kind == "place"):
        raise Unsupported("last_mut on %r" % (ref,))
    lst = ex.deref(st, ref)
    if not isinstance(lst, VList):
        raise Unsupported("last_mut on %r" % (lst,))
    if not lst.items:
        return none()
    r2 = VRef("place", ref.fid, ref.local, ref.proj + (("index", simp(lst.len - 1)),))
    return opt_sym(simp(lst.len > 0), r2)


def _vlist_index(ex, st, args, dest_ty, func, where):
    lst = _vlist_of(ex, st, args[0])
    i = args[1]
    ex.oblig("panic", where, "index out of bounds (%s)" % func, z3.And(st.guard, z3.Not(z3.And(i.t >= 0, i.t < lst.len))))
    st.guard = simp(z3.And(st.guard, i.t < lst.len))
    if not lst.items:
        st.guard = z3.BoolVal(False)
        return VRef("val", val=VOpaque("no element"))
    return VRef("val", val=list_get(lst, i.t))


def _slice_iter_any(ex, st, args, dest_ty, func, where):
    v = deep(ex, st, args[0])
    if not isinstance(v, (VSeq, VList)):
        raise Unsupported("iter() on %r" % (v,))
    return VStruct("SliceIter", [v, VInt(I(0), "usize")])


def _iter_elem(s, idx):
    if isinstance(s, VSeq):
        return VInt(s.at(idx), s.elem)
    if not s.items:
        return VOpaque("no element")
    return list_get(s, idx)


def _enumerate_next_any(ex, st, args, dest_ty, func, where):
    ref = args[0]
    it = ex.deref(st, ref)
    inner, cnt = it.f
    s, idx = inner.f
    has = simp(idx.t < s.len)
    if isinstance(s, VList) and not s.items:
        has = z3.BoolVal(False)
    item = VStruct("(tuple)", [VInt(cnt.t, "usize"), VRef("val", val=_iter_elem(s, idx.t))])
    new_inner = VStruct("SliceIter", [s, VInt(simp(z3.If(has, idx.t + 1, idx.t)), "usize")])
    ex.store_ref(st, ref, VStruct("Enumerate", [new_inner, VInt(simp(z3.If(has, cnt.t + 1, cnt.t)), "usize")]))
    return opt_sym(has, item)


def _enumerate_any(ex, st, args, dest_ty, func, where):
    it = args[0]
    if isinstance(it, VStruct) and it.name == "PyIter":
        return VStruct("PyIter", [VStruct("(tuple)", [VInt(I(i), "usize"), x]) for i, x in enumerate(it.f)])
    return VStruct("Enumerate", [it, VInt(I(0), "usize")])


# ----------------------------------------------------------------- iterator adaptors

def _chunks(ex, st, args, dest_ty, func, where):
    s = seq_of(ex, st, args[0])
    n = conc(s.len, "slice length for chunks()")
    bs = conc(args[1].t, "chunk size")
    if bs == 0:
        ex.oblig("panic", where, "chunks(0) panics", st.guard)
        st.guard = z3.BoolVal(False)
        return VStruct("PyIter", [])
    items = []
    for k in range(0, n, bs):
        items.append(VRef("val", val=VSeq(s.arr, simp(s.off + k), I(min(bs, n - k)), s.elem)))
    return VStruct("PyIter", items)


def _map(ex, st, args, dest_ty, func, where):
    return VStruct("Map", [args[0], closure_of(args[1])])


def _filter_map(ex, st, args, dest_ty, func, where):
    return VStruct("FilterMap", [args[0], closure_of(args[1])])


def closure_of(v):
    if isinstance(v, VOpaque) and v.what[0] == "const":
        m = re.search(r"\{closure@[^}]*\}", v.what[1])
        if m:
            return VStruct(m.group(0), [])
    return v


def pure_call(ex, st, guard, f):
    """run f on a fork of st restricted to `guard`; effects of the fork are dropped (closures here are pure),
    obligations raised inside keep their guards"""
    s2 = st.fork(simp(z3.And(st.guard, guard)))
    if z3.is_false(s2.guard):
        return None
    return f(s2)


def _collect_vec(ex, st, args, dest_ty, func, where):
    m = args[0]
    if not (isinstance(m, VStruct) and m.name == "Map" and isinstance(m.f[0], VStruct) and m.f[0].name == "PyIter"):
        raise Unsupported("collect on %r" % (m,))
    clos = m.f[1]
    out = []
    for item in m.f[0].f:
        out.append(call_closure(ex, st, clos, [item], where))
    mm = re.search(r"collect::<Vec<(.+)>>", func)
    return VList(out, I(len(out)), mm.group(1) if mm else "?")


def _sum(ex, st, args, dest_ty, func, where):
    fm = args[0]
    if not (isinstance(fm, VStruct) and fm.name == "FilterMap"):
        raise Unsupported("sum on %r" % (fm,))
    it, clos = fm.f
    s, idx = it.f
    if conc(idx.t, "iterator position") != 0 or not isinstance(s, VList):
        raise Unsupported("sum over a partially consumed iterator")
    total = I(0)
    for i, item in enumerate(s.items):
        def f(s2, item=item):
            return call_closure(ex, s2, clos, [VRef("val", val=item)], where)
        r = pure_call(ex, st, i < s.len, f)
        if r is None:
            continue
        val = r.pay[1][0].t if 1 in r.pay else I(0)
        total = total + z3.If(z3.And(i < s.len, r.discr == 1), val, I(0))
    total = simp(total)
    m = re.search(r"sum::<(\w+)>", func)
    ty = m.group(1) if m else "u64"
    ex.oblig("panic", where, "sum overflows " + ty, z3.And(st.guard, z3.Not(ex.in_range(total, ty))))
    return VInt(total, ty)


def _find(ex, st, args, dest_ty, func, where):
    """<Map<slice::Iter<usize>, F> as Iterator>::find(pred): first mapped element satisfying pred"""
    mp, pred = deep(ex, st, args[0]), closure_of(args[1])
    if not (isinstance(mp, VStruct) and mp.name == "Map"):
        raise Unsupported("find on %r" % (mp,))
    it, mclos = mp.f
    s, idx = it.f
    if conc(idx.t, "iterator position") != 0:
        raise Unsupported("find over a partially consumed iterator")
    cap = ex.cand_cap
    ex.oblig("model-bound", where, "candidate list longer than the model capacity %d" % cap, z3.And(st.guard, s.len > cap))
    result = none()
    for i in reversed(range(cap)):
        def f(s2, i=i):
            elem = VRef("val", val=_iter_elem(s, I(i)))
            mapped = call_closure(ex, s2, mclos, [elem], where)
            ok = call_closure(ex, s2, pred, [VRef("val", val=mapped)], where)
            return mapped, ok
        r = pure_call(ex, st, i < s.len, f)
        if r is None:
            continue
        mapped, ok = r
        hit = simp(z3.And(i < s.len, ok.t))
        result = merge(hit, some(mapped), result)
    return result


def _iter_items(ex, st, it, where):
    """(sequence, start index, cap) of a slice iterator value"""
    it = deep(ex, st, it)
    if not (isinstance(it, VStruct) and it.name == "SliceIter"):
        raise Unsupported("iterator adaptor on %r" % (it,))
    s, idx = it.f
    if conc(idx.t, "iterator position") != 0:
        raise Unsupported("adaptor over a partially consumed iterator")
    cap = len(s.items) if isinstance(s, VList) else ex.cand_cap
    if isinstance(s, VSeq):
        ex.oblig("model-bound", where, "sequence longer than the model capacity %d" % cap, z3.And(st.guard, s.len > cap))
    return s, cap


def _any_all(ex, st, args, dest_ty, func, where):
    """slice::Iter::any / all with the closure executed from its MIR on each element"""
    s, cap = _iter_items(ex, st, args[0], where)
    clos = closure_of(args[1])
    is_any = "::any::<" in func
    acc = z3.BoolVal(not is_any)
    for i in reversed(range(cap)):
        def f(s2, i=i):
            return call_closure(ex, s2, clos, [VRef("val", val=_iter_elem(s, I(i)))], where)
        r = pure_call(ex, st, i < s.len, f)
        if r is None:
            continue
        if is_any:
            acc = z3.Or(z3.And(i < s.len, r.t), acc)
        else:
            acc = z3.And(z3.Implies(i < s.len, r.t), acc)
    return VBool(simp(acc))


def _position(ex, st, args, dest_ty, func, where):
    s, cap = _iter_items(ex, st, args[0], where)
    clos = closure_of(args[1])
    result = none()
    for i in reversed(range(cap)):
        def f(s2, i=i):
            return call_closure(ex, s2, clos, [VRef("val", val=_iter_elem(s, I(i)))], where)
        r = pure_call(ex, st, i < s.len, f)
        if r is None:
            continue
        result = merge(simp(z3.And(i < s.len, r.t)), some(VInt(I(i), "usize")), result)
    return result


def _find_plain(ex, st, args, dest_ty, func, where):
    """slice::Iter::find(pred): first element (by reference) satisfying pred"""
    s, cap = _iter_items(ex, st, args[0], where)
    clos = closure_of(args[1])
    result = none()
    for i in reversed(range(cap)):
        def f(s2, i=i):
            el = VRef("val", val=_iter_elem(s, I(i)))
            return el, call_closure(ex, s2, clos, [VRef("val", val=el)], where)
        r = pure_call(ex, st, i < s.len, f)
        if r is None:
            continue
        el, ok = r
        result = merge(simp(z3.And(i < s.len, ok.t)), some(el), result)
    return result


def _bool_then(ex, st, args, dest_ty, func, where):
    b, clos = args[0], closure_of(args[1])
    if z3.is_false(simp(b.t)):
        return none()
    r = pure_call(ex, st, b.t, lambda s2: call_closure(ex, s2, clos, [], where))
    if r is None:
        return none()
    return opt_sym(simp(b.t), r)


def _bool_then_some(ex, st, args, dest_ty, func, where):
    return opt_sym(simp(args[0].t), args[1])


def _opt_unwrap_or(ex, st, args, dest_ty, func, where):
    o, d = args
    if 1 not in o.pay:
        return d
    return merge(simp(o.discr == 1), o.pay[1][0], d)


def _opt_map(ex, st, args, dest_ty, func, where):
    o, clos = args[0], closure_of(args[1])
    if 1 not in o.pay:
        return none()
    r = pure_call(ex, st, o.discr == 1, lambda s2: call_closure(ex, s2, clos, [o.pay[1][0]], where))
    if r is None:
        return none()
    return opt_sym(simp(o.discr == 1), r)


def _seq_first_last(ex, st, args, dest_ty, func, where):
    s = deep(ex, st, args[0])
    last = func.endswith("::last")
    if isinstance(s, VSeq):
        idx = simp(s.len - 1) if last else I(0)
        return opt_sym(simp(s.len > 0), VRef("val", val=VInt(s.at(idx), s.elem)))
    if isinstance(s, VList):
        if not s.items:
            return none()
        idx = simp(s.len - 1) if last else I(0)
        return opt_sym(simp(s.len > 0), VRef("val", val=list_get(s, idx)))
    raise Unsupported("first/last on %r" % (s,))


# ----------------------------------------------------------------- HashMap<K, V> as an association list (math map)

def _hm_new(ex, st, args, dest_ty, func, where):
    return VStruct("HashMap", [VList([], I(0), "entry")])


def _hm_entries(ex, st, v):
    v = deep(ex, st, v)
    if not (isinstance(v, VStruct) and v.name == "HashMap"):
        raise Unsupported("expected a HashMap model, got %r" % (v,))
    return v.f[0]


def _hm_entry(ex, st, args, dest_ty, func, where):
    return VStruct("HashMapEntry", [args[0], args[1]])


def _hm_or_default(ex, st, args, dest_ty, func, where):
    e = args[0]
    ref, key = e.f
    lst = ex.deref(st, ref).f[0]
    present = [simp(z3.And(i < lst.len, it.f[0].t == key.t)) for i, it in enumerate(lst.items)]
    found = simp(z3.Or(*present)) if present else z3.BoolVal(False)
    pos = lst.len
    for i in reversed(range(len(lst.items))):
        pos = z3.If(present[i], I(i), pos)
    pos = simp(pos)
    fresh_entry = VStruct("entry", [VInt(key.t, key.ty), VSeq(z3.K(z3.IntSort(), I(0)), I(0), I(0), "usize")])
    appended = vlist_push(lst, fresh_entry)
    # if found: list unchanged (padded to the same capacity), else appended
    same = VList(list(lst.items) + [fresh_entry], lst.len, lst.elem)
    new_lst = merge(found, same, appended)
    ex.store_ref(st, ref, VStruct("HashMap", [new_lst]))
    return VRef("place", ref.fid, ref.local, ref.proj + (("field", 0, "entries"), ("index", pos), ("field", 1, "value")))


def _hm_contains(ex, st, args, dest_ty, func, where):
    lst = _hm_entries(ex, st, args[0])
    key = deep(ex, st, args[1])
    return VBool(simp(z3.Or(*[z3.And(i < lst.len, it.f[0].t == key.t) for i, it in enumerate(lst.items)])) if lst.items else z3.BoolVal(False))


def _hm_get(ex, st, args, dest_ty, func, where):
    lst = _hm_entries(ex, st, args[0])
    key = deep(ex, st, args[1])
    if not lst.items:
        return none()
    present = [simp(z3.And(i < lst.len, it.f[0].t == key.t)) for i, it in enumerate(lst.items)]
    val = lst.items[-1].f[1]
    for i in reversed(range(len(lst.items) - 1)):
        val = merge(present[i], lst.items[i].f[1], val)
    return opt_sym(simp(z3.Or(*present)), VRef("val", val=val))


def _hm_len(ex, st, args, dest_ty, func, where):
    return VInt(_hm_entries(ex, st, args[0]).len, "usize")


def _opt_branch(ex, st, args, dest_ty, func, where):
    o = args[0]
    pay = {}
    if 1 in o.pay:
        pay[0] = o.pay[1]
    if 0 in o.pay:
        pay[1] = [VEnum("Option", I(0), {0: []})]
    # Some(v) -> Continue(v) [0];  None -> Break(None) [1]
    return VEnum("ControlFlow", simp(z3.If(o.discr == 1, I(0), I(1))), pay)


def _opt_from_residual(ex, st, args, dest_ty, func, where):
    return none()


def _usize_push(ex, st, args, dest_ty, func, where):
    return _vec_u8_push(ex, st, args, dest_ty, func, where)


def _div_ceil(ex, st, args, dest_ty, func, where):
    a, b = args
    ex.oblig("panic", where, "div_ceil by zero", z3.And(st.guard, b.t == 0))
    return VInt(simp((a.t + b.t - 1) / b.t), a.ty)


# ----------------------------------------------------------------- vec![x] idiom (Box<[T; N]>::new_uninit ... into_vec)

def _box_uninit(ex, st, args, dest_ty, func, where):
    bid = "box%d" % next(ex.fresh)
    return VOpaque(("rawbox", bid))


def _box_into_vec(ex, st, args, dest_ty, func, where):
    b = args[0]
    if not (isinstance(b, VOpaque) and b.what[0] == "rawbox"):
        raise Unsupported("box_assume_init_into_vec on %r" % (b,))
    arr = st.frames.get("heap", {}).get(b.what[1])
    if not (isinstance(arr, VStruct) and arr.name == "[array]"):
        raise Unsupported("vec![..] idiom: box content not initialised")
    a = z3.K(z3.IntSort(), I(0))
    for i, x in enumerate(arr.f):
        a = z3.Store(a, i, x.t)
    return VSeq(a, I(0), I(len(arr.f)), arr.f[0].ty if arr.f else "u8")


def install(ex, window_cap, byte_cap, cand_cap):
    ex.window_cap, ex.byte_cap, ex.cand_cap = window_cap, byte_cap, cand_cap
    ex.hash_cap = byte_cap
    uf = z3.Function("D", *([z3.IntSort()] * (window_cap + 2)))
    ex.D_apps = []

    def D(*args):
        t = uf(*args)
        ex.D_apps.append((args, t))
        return t
    ex.D = D
    ex.D2 = z3.Function("D2", z3.ArraySort(z3.IntSort(), z3.IntSort()), z3.IntSort(), z3.IntSort(), z3.IntSort())
    ex.tolerate_rawbox = True
    M = []

    def A(pat, h, label):
        M.append((re.compile(pat), h, label))
    # --- summaries of copia leaves (contracts)
    S = ex.summaries
    S["StrongHash::compute"] = _strong_compute
    S["<StrongHash as PartialEq>::eq"] = _strong_eq
    S["<StrongHash as PartialEq>::ne"] = _strong_eq
    S["RollingChecksum::new"] = _rc_new
    S["RollingChecksum::digest"] = _rc_digest
    S["FastRollingChecksum::new"] = _frc_new
    S["FastRollingChecksum::roll"] = _frc_roll
    S["FastRollingChecksum::digest"] = _frc_digest
    # --- std models (inserted before the generic ones)
    A(r"^<R as (std::io::)?Read>::read_to_end$", _read_to_end, "Read::read_to_end from an in-memory reader (never fails)")
    A(r"^<R as (tokio::io::)?AsyncReadExt>::read_to_end$", _async_read_to_end, "AsyncReadExt::read_to_end (in-memory reader, always ready)")
    A(r" as (std::future::)?IntoFuture>::into_future$", lambda ex_, st, a, d, f, w: a[0], "IntoFuture::into_future (identity)")
    A(r"^Pin::<&mut .*>::new_unchecked$", _pin_new, "Pin::new_unchecked")
    A(r"^<tokio::io::util::read_to_end::ReadToEnd<'_, R> as (std::future::)?Future>::poll$", _poll_read_to_end, "ReadToEnd::poll (completes immediately)")
    A(r"^Vec::<u8>::push$|^Vec::<usize>::push$", _vec_u8_push, "Vec<scalar>::push")
    A(r"^Vec::<u8>::extend_from_slice$", _vec_u8_extend, "Vec<u8>::extend_from_slice")
    A(r"^(std|core|alloc)::slice::<impl \[u8\]>::to_vec$", _to_vec, "<[u8]>::to_vec")
    A(r"^<(Vec<.*>|usize|u64|u32|u8) as Clone>::clone$", _clone_value, "Clone for Vec/ints (value copy)")
    A(r"^Vec::<(DeltaOp|BlockSignature|delta::DeltaOp|signature::BlockSignature)>::new$", _vlist_new, "Vec<record>::new")
    A(r"^Vec::<(DeltaOp|BlockSignature)>::len$", _vlist_len, "Vec<record>::len")
    A(r"^Vec::<(DeltaOp|BlockSignature)>::is_empty$", _vlist_is_empty, "Vec<record>::is_empty")
    A(r"^Vec::<(DeltaOp|BlockSignature)>::push$", _vlist_push, "Vec<record>::push")
    A(r"^<Vec<(DeltaOp|BlockSignature)> as (std::ops::)?DerefMut>::deref_mut$", _same_ref, "<Vec<T> as DerefMut>::deref_mut")
    A(r"^<Vec<(DeltaOp|BlockSignature|usize)> as (std::ops::)?Deref>::deref$", _deref_to_val, "<Vec<T> as Deref>::deref")
    A(r"^core::slice::<impl \[DeltaOp\]>::last_mut$", _last_mut, "<[T]>::last_mut")
    A(r"^<Vec<BlockSignature> as (std::ops::)?Index<usize>>::index$", _vlist_index, "<Vec<record> as Index<usize>>::index (bounds-checked)")
    A(r"^core::slice::<impl \[(DeltaOp|BlockSignature|usize)\]>::iter$", _slice_iter_any, "<[T]>::iter")
    A(r"^<std::slice::Iter<'_, (DeltaOp|BlockSignature)> as Iterator>::enumerate$|^<std::slice::Chunks<'_, u8> as Iterator>::enumerate$", _enumerate_any, "Iterator::enumerate")
    A(r"^<std::iter::Enumerate<std::slice::Iter<'_, (BlockSignature|DeltaOp)>> as Iterator>::next$", _enumerate_next_any, "Enumerate<slice::Iter<record>>::next")
    A(r"^core::slice::<impl \[u8\]>::chunks$|^<\[u8\] as rayon::prelude::ParallelSlice<u8>>::par_chunks$|^<\[u8\] as rayon::slice::ParallelSlice<u8>>::par_chunks$",
      _chunks, "<[u8]>::chunks / rayon par_chunks (concrete length; rayon = same elements in the same order)")
    A(r" as Iterator>::map::<", _map, "Iterator::map (lazy)")
    A(r" as Iterator>::filter_map::<", _filter_map, "Iterator::filter_map (lazy)")
    A(r" as Iterator>::collect::<Vec<BlockSignature>>$", _collect_vec, "Map<Enumerate<Chunks>>::collect::<Vec<_>>")
    A(r"^<std::iter::FilterMap<.*> as Iterator>::sum::<u64>$", _sum, "FilterMap::sum::<u64>")
    A(r"^<std::iter::Map<std::slice::Iter<'_, usize>, .*> as Iterator>::find::<", _find, "Map<slice::Iter<usize>>::find (first match)")
    A(r"^<std::slice::Iter<'_, \w+> as Iterator>::(any|all)::<", _any_all, "slice::Iter::{any,all} (closure from MIR)")
    A(r"^<std::slice::Iter<'_, \w+> as Iterator>::position::<", _position, "slice::Iter::position")
    A(r"^<std::slice::Iter<'_, \w+> as Iterator>::find::<", _find_plain, "slice::Iter::find")
    A(r"<impl bool>::then::<", _bool_then, "bool::then")
    A(r"<impl bool>::then_some::<", _bool_then_some, "bool::then_some")
    A(r"^(std::option::)?Option::<.*>::unwrap_or$", _opt_unwrap_or, "Option::unwrap_or")
    A(r"^(std::option::)?Option::<.*>::map::<", _opt_map, "Option::map")
    A(r"^core::slice::<impl \[\w+\]>::(first|last)$", _seq_first_last, "<[T]>::{first,last}")
    A(r"^HashMap::<.*>::with_capacity_and_hasher$", _hm_new, "HashMap::with_capacity_and_hasher (math map)")
    A(r"^HashMap::<.*>::entry$", _hm_entry, "HashMap::entry")
    A(r"Entry::<'_, .*>::or_default$", _hm_or_default, "Entry::or_default")
    A(r"^HashMap::<.*>::contains_key::<", _hm_contains, "HashMap::contains_key")
    A(r"^HashMap::<.*>::get::<", _hm_get, "HashMap::get")
    A(r"^HashMap::<.*>::len$", _hm_len, "HashMap::len")
    A(r"^<(std::option::)?Option<.*> as (std::ops::)?Try>::branch$", _opt_branch, "<Option as Try>::branch")
    A(r"^<(std::option::)?Option<.*> as (std::ops::)?FromResidual<.*>>::from_residual$", _opt_from_residual, "<Option as FromResidual>::from_residual")
    A(r"<impl usize>::div_ceil$", _div_ceil, "usize::div_ceil")
    A(r"^Box::<\[\w+; \d+\]>::new_uninit$", _box_uninit, "vec![..] idiom: Box::new_uninit (allocator pointer checks skipped)")
    A(r"box_assume_init_into_vec_unsafe::<", _box_into_vec, "vec![..] idiom: box_assume_init_into_vec_unsafe")
    ex.models = M + ex.models
