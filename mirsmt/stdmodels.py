"""Models of std functions (one-line contracts only; see DESIGN §2 admission rule).

Every handler: h(ex, st, args, dest_ty, func, where) -> Value.  `st` is mutated
for effects through references.  Each model used is recorded in ex.used_models
and listed in the evidence of the obligation that used it.
"""
import re
import z3

from .symexec import (VInt, VBool, VStruct, VEnum, VRef, VOpaque, VSeq, VList, UNIT, Unsupported,
                      I, simp, merge, int_info, ty_range, list_get)


def some(v, name="Option"):
    return VEnum(name, I(1), {1: [v]})


def none(name="Option"):
    return VEnum(name, I(0), {0: []})


def opt_sym(cond, v):
    """Option that is Some(v) iff cond"""
    return VEnum("Option", simp(z3.If(cond, I(1), I(0))), {0: [], 1: [v]})


def seq_of(ex, st, v):
    if isinstance(v, VRef):
        v = ex.deref(st, v)
    if isinstance(v, VRef):
        v = ex.deref(st, v)
    if not isinstance(v, VSeq):
        raise Unsupported("expected a sequence, got %r" % (v,))
    return v


def _int_from(ex, st, args, dest_ty, func, where):
    m = re.search(r"<(\w+) as (?:std::convert::)?From<(\w+)>>::from", func)
    v = args[0]
    if isinstance(v, VBool):
        return VInt(simp(z3.If(v.t, I(1), I(0))), m.group(1))
    return VInt(v.t, m.group(1))


def _wrapping(ex, st, args, dest_ty, func, where):
    m = re.search(r"<impl (\w+)>::wrapping_(add|sub|mul)$", func)
    ty, op = m.group(1), m.group(2)
    a, b = args[0].t, args[1].t
    r = {"add": a + b, "sub": a - b, "mul": a * b}[op]
    return VInt(ex.wrap(r, ty), ty)


def _checked(ex, st, args, dest_ty, func, where):
    m = re.search(r"<impl (\w+)>::checked_(add|sub|mul)$", func)
    ty, op = m.group(1), m.group(2)
    a, b = args[0].t, args[1].t
    r = simp({"add": a + b, "sub": a - b, "mul": a * b}[op])
    return opt_sym(ex.in_range(r, ty), VInt(r, ty))


def _saturating(ex, st, args, dest_ty, func, where):
    m = re.search(r"<impl (\w+)>::saturating_(add|sub)$", func)
    ty, op = m.group(1), m.group(2)
    lo, hi = ty_range(ty)
    a, b = args[0].t, args[1].t
    r = a + b if op == "add" else a - b
    return VInt(simp(z3.If(r > hi, I(hi), z3.If(r < lo, I(lo), r))), ty)


def _is_pow2(ex, st, args, dest_ty, func, where):
    x = args[0].t
    _, bits = int_info(args[0].ty)
    return VBool(simp(z3.Or(*[x == (1 << k) for k in range(bits)])))


def _min(ex, st, args, dest_ty, func, where):
    a, b = args
    return VInt(simp(z3.If(a.t <= b.t, a.t, b.t)), a.ty)


def _max(ex, st, args, dest_ty, func, where):
    a, b = args
    return VInt(simp(z3.If(a.t >= b.t, a.t, b.t)), a.ty)


# ---- slices / Vec<scalar>

def _slice_iter(ex, st, args, dest_ty, func, where):
    v = args[0]
    while isinstance(v, VRef):
        v = ex.deref(st, v)
    if not isinstance(v, (VSeq, VList)):
        raise Unsupported("iter() on %r" % (v,))
    return VStruct("SliceIter", [v, VInt(I(0), "usize")])


def _enumerate(ex, st, args, dest_ty, func, where):
    return VStruct("Enumerate", [args[0], VInt(I(0), "usize")])


def _identity(ex, st, args, dest_ty, func, where):
    return args[0]


def _enumerate_next(ex, st, args, dest_ty, func, where):
    ref = args[0]
    it = ex.deref(st, ref)
    inner, cnt = it.f
    s, idx = inner.f
    has = simp(idx.t < s.len)
    elem = VInt(s.at(idx.t), s.elem)
    item = VStruct("(tuple)", [VInt(cnt.t, "usize"), VRef("val", val=elem)])
    new_inner = VStruct("SliceIter", [s, VInt(simp(z3.If(has, idx.t + 1, idx.t)), "usize")])
    new = VStruct("Enumerate", [new_inner, VInt(simp(z3.If(has, cnt.t + 1, cnt.t)), "usize")])
    ex.store_ref(st, ref, new)
    return opt_sym(has, item)


def _slice_iter_next(ex, st, args, dest_ty, func, where):
    ref = args[0]
    it = ex.deref(st, ref)
    if not (isinstance(it, VStruct) and it.name == "SliceIter"):
        # `for x in slice` : into_iter on a &[T] was the identity model, the iterator is still the slice itself
        it = VStruct("SliceIter", [seq_of(ex, st, it), VInt(I(0), "usize")])
    s, idx = it.f
    has = simp(idx.t < s.len)
    elem = VInt(s.at(idx.t), s.elem)
    ex.store_ref(st, ref, VStruct("SliceIter", [s, VInt(simp(z3.If(has, idx.t + 1, idx.t)), "usize")]))
    return opt_sym(has, VRef("val", val=elem))


def _seq_len(ex, st, args, dest_ty, func, where):
    return VInt(seq_of(ex, st, args[0]).len, "usize")


def _seq_is_empty(ex, st, args, dest_ty, func, where):
    return VBool(simp(seq_of(ex, st, args[0]).len == 0))


def _seq_index(ex, st, args, dest_ty, func, where):
    """<Vec<T> as Index<usize | Range | RangeTo | RangeFrom>>::index with its bounds panic"""
    s = seq_of(ex, st, args[0])
    i = args[1]
    if isinstance(i, VOpaque) and isinstance(i.what, tuple) and i.what[0] == "const" and str(i.what[1]).strip() in ("RangeFull", "std::ops::RangeFull", "..") or "RangeFull>>::index" in func:
        return VRef("val", val=VSeq(s.arr, s.off, s.len, s.elem))
    if isinstance(i, VInt):
        ex.oblig("panic", where, "index out of bounds (%s)" % func, z3.And(st.guard, z3.Not(z3.And(i.t >= 0, i.t < s.len))))
        st.guard = simp(z3.And(st.guard, i.t < s.len))
        return VRef("val", val=VInt(s.at(i.t), s.elem))
    if isinstance(i, VStruct) and i.name in ("Range", "RangeTo", "RangeFrom", "RangeFull", "RangeInclusive"):
        if i.name == "Range":
            a, b = i.f[0].t, i.f[1].t
        elif i.name == "RangeTo":
            a, b = I(0), i.f[0].t
        elif i.name == "RangeFrom":
            a, b = i.f[0].t, s.len
        elif i.name == "RangeFull":
            a, b = I(0), s.len
        else:
            raise Unsupported("RangeInclusive index")
        ok = z3.And(a <= b, b <= s.len)
        ex.oblig("panic", where, "slice range out of bounds (%s)" % func, z3.And(st.guard, z3.Not(ok)))
        st.guard = simp(z3.And(st.guard, ok))
        return VRef("val", val=VSeq(s.arr, simp(s.off + a), simp(b - a), s.elem))
    raise Unsupported("index argument %r" % (i,))


def _seq_deref(ex, st, args, dest_ty, func, where):
    s = seq_of(ex, st, args[0])
    return VRef("val", val=s)


def _vec_new(ex, st, args, dest_ty, func, where):
    m = re.search(r"Vec::<(\w+)>::new", func)
    elem = m.group(1) if m else "u8"
    return VSeq(z3.K(z3.IntSort(), I(0)), I(0), I(0), elem)


def _chars(ex, st, args, dest_ty, func, where):
    """str::chars: a &str is modelled as a VSeq of `char` (one element per char; the stated alphabet
    is one-byte chars, so chars == bytes)"""
    return VStruct("Chars", [seq_of(ex, st, args[0])])


def _collect_chars(ex, st, args, dest_ty, func, where):
    s = args[0].f[0]
    return VSeq(s.arr, s.off, s.len, "char")


# ---- Option / Result combinators (closures executed from their own MIR)

def call_closure(ex, st, clos, cargs, where):
    if isinstance(clos, VOpaque) and isinstance(clos.what, tuple) and clos.what[0] == "const":
        mm = re.search(r"\{closure@[^}]*\}", str(clos.what[1]))
        if mm:
            clos = VStruct(mm.group(0), [])     # `const ZeroSized: {closure@..}`: a capture-less closure
        elif re.fullmatch(r"[\w:<>&\[\], ;']+", str(clos.what[1])) and "::" in str(clos.what[1]):
            # a function ITEM passed where a closure is expected (`.map_or(0, OsStr::len)`): call it by name
            return ex.call(st, 0, str(clos.what[1]), list(cargs), None, where)
    if not isinstance(clos, VStruct) or not clos.name.startswith("{closure@"):
        raise Unsupported("not a closure value: %r" % (clos,))
    fn = ex.mir.closures.get(clos.name)
    if fn is None:
        raise Unsupported("closure body not found: " + clos.name)
    first_ty = fn.args[0][1]
    a0 = clos
    if first_ty.startswith("&"):
        a0 = VRef("val", val=clos)
    return ex.exec_fn(fn, [a0] + list(cargs), st)


def _branch_on_option(ex, st, opt, on_some, on_none):
    """evaluate on_some(payload) under discr==1 and on_none() under discr==0; merge"""
    g0 = st.guard
    is_some = simp(opt.discr == 1)
    rs, rn = None, None
    s_some = s_none = None
    if not z3.is_false(is_some):
        s_some = st.fork(simp(z3.And(g0, is_some)))
        rs = on_some(s_some, opt.pay[1][0])
    if not z3.is_true(is_some):
        s_none = st.fork(simp(z3.And(g0, z3.Not(is_some))))
        rn = on_none(s_none)
    from .symexec import merge_states
    ms = merge_states([s for s in (s_some, s_none) if s is not None])
    if ms is None:
        st.guard = z3.BoolVal(False)
        return None
    st.guard, st.frames = ms.guard, ms.frames
    if rs is None:
        return rn
    if rn is None:
        return rs
    return merge(is_some, rs, rn)


def _opt_map_or_else(ex, st, args, dest_ty, func, where):
    opt, dflt, f = args[0], args[1], args[2]
    while isinstance(opt, VRef):
        opt = ex.deref(st, opt)
    return _branch_on_option(ex, st, opt,
                             lambda s, p: _call_fn_value(ex, s, f, [p], where),
                             lambda s: _call_fn_value(ex, s, dflt, [], where))


def _opt_unwrap_or_else(ex, st, args, dest_ty, func, where):
    opt, f = args
    return _branch_on_option(ex, st, opt, lambda s, p: p, lambda s: _call_fn_value(ex, s, f, [], where))


def _opt_map_or(ex, st, args, dest_ty, func, where):
    opt, default, clos = args
    return _branch_on_option(ex, st, opt,
                             lambda s, p: call_closure(ex, s, clos, [p], where),
                             lambda s: default)


def _opt_is_some_and(ex, st, args, dest_ty, func, where):
    opt, clos = args
    return _branch_on_option(ex, st, opt,
                             lambda s, p: call_closure(ex, s, clos, [p], where),
                             lambda s: VBool(z3.BoolVal(False)))


def _opt_copied(ex, st, args, dest_ty, func, where):
    opt = args[0]
    pay = dict(opt.pay)
    if 1 in pay:
        pay[1] = [ex.deref(st, pay[1][0])]
    return VEnum("Option", opt.discr, pay)


def _opt_is_some(ex, st, args, dest_ty, func, where):
    o = args[0]
    if isinstance(o, VRef):
        o = ex.deref(st, o)
    return VBool(simp(o.discr == 1))


def _opt_is_none(ex, st, args, dest_ty, func, where):
    o = args[0]
    if isinstance(o, VRef):
        o = ex.deref(st, o)
    return VBool(simp(o.discr == 0))


def _try_branch(ex, st, args, dest_ty, func, where):
    r = args[0]
    if "Result<" in func:
        # Ok(v) -> Continue(v); Err(e) -> Break(Err(e))
        pay = {}
        if 0 in r.pay:
            pay[0] = r.pay[0]
        if 1 in r.pay:
            pay[1] = [VEnum("Result", I(1), {1: r.pay[1]})]
        return VEnum("ControlFlow", r.discr, pay)
    if "Option<" in func:
        # Some(v) -> Continue(v); None -> Break(None)
        pay = {0: list(r.pay.get(1, [VOpaque("no value")])), 1: [VEnum("Option", I(0), {0: []})]}
        return VEnum("ControlFlow", simp(z3.If(r.discr == 1, I(0), I(1))), pay)
    raise Unsupported("Try::branch on " + func)


def _from_residual(ex, st, args, dest_ty, func, where):
    r = args[0]
    if re.match(r"^<(std::option::)?Option<", func):
        return VEnum("Option", I(0), {0: []})
    return VEnum("Result", I(1), {1: [VOpaque("converted error")]})


def _opaque(ex, st, args, dest_ty, func, where):
    return VOpaque(func)


def _unit(ex, st, args, dest_ty, func, where):
    return UNIT


def _array_eq(ex, st, args, dest_ty, func, where):
    a = args[0]
    b = args[1]
    while isinstance(a, VRef):
        a = ex.deref(st, a)
    while isinstance(b, VRef):
        b = ex.deref(st, b)
    if isinstance(a, VStruct) and isinstance(b, VStruct) and len(a.f) == len(b.f):
        t = simp(z3.And(*[x.t == y.t for x, y in zip(a.f, b.f)]))
        if func.endswith("::ne"):
            t = simp(z3.Not(t))
        return VBool(t)
    if isinstance(a, VInt) and isinstance(b, VInt):
        t = simp(a.t == b.t)
        if func.endswith("::ne"):
            t = simp(z3.Not(t))
        return VBool(t)
    raise Unsupported("array eq on %r / %r" % (a, b))


def _ref_partial_eq(ex, st, args, dest_ty, func, where):
    """<&T as PartialEq>::eq/ne forwards to T's implementation"""
    m = re.match(r"^<&(.+) as PartialEq>::(eq|ne)$", func)
    inner = "<%s as PartialEq>::%s" % (m.group(1), m.group(2))
    return ex.call(st, None, inner, [ex.deref(st, args[0]), ex.deref(st, args[1])], dest_ty, where)


def _partial_ne(ex, st, args, dest_ty, func, where):
    """PartialEq::ne (provided method) = !eq"""
    r = ex.call(st, None, func[:-4] + "::eq", args, dest_ty, where)
    return VBool(simp(z3.Not(r.t)))


def _to_seq(ex, st, v):
    while isinstance(v, VRef):
        v = ex.deref(st, v)
    if isinstance(v, VSeq):
        return v
    if isinstance(v, VStruct) and v.name == "[array]":
        arr = z3.K(z3.IntSort(), I(0))
        for i, x in enumerate(v.f):
            arr = z3.Store(arr, i, x.t)
        return VSeq(arr, I(0), I(len(v.f)), v.f[0].ty if v.f else "u8")
    raise Unsupported("expected a slice/array, got %r" % (v,))


def _slice_eq(ex, st, args, dest_ty, func, where):
    a, b = _to_seq(ex, st, args[0]), _to_seq(ex, st, args[1])
    cap = 64
    for s_ in (a, b):
        if z3.is_int_value(simp(s_.len)):
            cap = min(cap, max(simp(s_.len).as_long(), 0)) if cap == 64 else cap
    cap = max(getattr(ex, "byte_cap", 0), getattr(ex, "str_cap", 0), 32)
    ex.oblig("model-bound", where, "slice comparison beyond the model capacity %d" % cap, z3.And(st.guard, a.len == b.len, a.len > cap))
    t = simp(z3.And(a.len == b.len, *[z3.Implies(k < a.len, a.at(I(k)) == b.at(I(k))) for k in range(cap)]))
    if func.endswith("::ne"):
        t = simp(z3.Not(t))
    return VBool(t)


def _array_range_index(ex, st, args, dest_ty, func, where):
    s = _to_seq(ex, st, args[0])
    return _seq_index(ex, st, [VRef("val", val=s), args[1]], dest_ty, func, where)


def _clos(v):
    if isinstance(v, VOpaque) and isinstance(v.what, tuple) and v.what[0] == "const":
        mm = re.search(r"\{closure@[^}]*\}", str(v.what[1]))
        if mm:
            return VStruct(mm.group(0), [])
    return v


def _call_fn_value(ex, st, f, cargs, where):
    f = _clos(f)
    if isinstance(f, VOpaque) and isinstance(f.what, tuple) and f.what[0] == "const":
        return ex.call(st, None, f.what[1], list(cargs), None, where)
    return call_closure(ex, st, f, cargs, where)


def _opt_and_then_core(ex, st, args, dest_ty, func, where):
    opt, f = args
    return _branch_on_option(ex, st, opt, lambda s, p: _call_fn_value(ex, s, f, [p], where), lambda s: none())


def _opt_or_else(ex, st, args, dest_ty, func, where):
    opt, f = args
    return _branch_on_option(ex, st, opt, lambda s, p: some(p), lambda s: _call_fn_value(ex, s, f, [], where))


def _opt_or(ex, st, args, dest_ty, func, where):
    a, b = args
    if 1 not in a.pay:
        return b
    return merge(simp(a.discr == 1), VEnum("Option", I(1), {1: a.pay[1]}), b)


def _opt_map_core(ex, st, args, dest_ty, func, where):
    opt, f = args
    return _branch_on_option(ex, st, opt, lambda s, p: some(_call_fn_value(ex, s, f, [p], where)), lambda s: none())


def _opt_unwrap_or_core(ex, st, args, dest_ty, func, where):
    o, d = args
    if 1 not in o.pay:
        return d
    return merge(simp(o.discr == 1), o.pay[1][0], d)


def _opt_unwrap_or_else(ex, st, args, dest_ty, func, where):
    opt, f = args
    return _branch_on_option(ex, st, opt, lambda s, p: p, lambda s: _call_fn_value(ex, s, f, [], where))


def _opt_filter(ex, st, args, dest_ty, func, where):
    opt, f = args

    def on_some(s, p):
        r = _call_fn_value(ex, s, f, [VRef("val", val=p)], where)
        return opt_sym(r.t, p)
    return _branch_on_option(ex, st, opt, on_some, lambda s: none())


def _opt_unwrap(ex, st, args, dest_ty, func, where):
    o = args[0]
    ex.oblig("panic", where, "unwrap/expect on None", z3.And(st.guard, o.discr != 1))
    st.guard = simp(z3.And(st.guard, o.discr == 1))
    if 1 not in o.pay:
        st.guard = z3.BoolVal(False)
        return VOpaque("unreachable")
    return o.pay[1][0]


def _opt_scalar_eq(ex, st, args, dest_ty, func, where):
    """<Option<scalar> as PartialEq>::eq / ne"""
    a, b = args[0], args[1]
    while isinstance(a, VRef):
        a = ex.deref(st, a)
    while isinstance(b, VRef):
        b = ex.deref(st, b)
    if not (isinstance(a, VEnum) and isinstance(b, VEnum)):
        raise Unsupported("Option == on %r, %r" % (a, b))
    same = z3.BoolVal(True)
    if 1 in a.pay and 1 in b.pay:
        x, y = a.pay[1][0], b.pay[1][0]
        while isinstance(x, VRef):
            x = ex.deref(st, x)
        while isinstance(y, VRef):
            y = ex.deref(st, y)
        same = x.t == y.t
    t = z3.Or(z3.And(a.discr == 0, b.discr == 0), z3.And(a.discr == 1, b.discr == 1, same))
    return VBool(simp(z3.Not(t) if func.endswith("::ne") else t))


def _range_incl_new(ex, st, args, dest_ty, func, where):
    return VStruct("RangeInclusive", [args[0], args[1], VBool(z3.BoolVal(False))])


def _range_incl_contains(ex, st, args, dest_ty, func, where):
    r = ex.deref(st, args[0]) if isinstance(args[0], VRef) else args[0]
    x = ex.deref(st, args[1]) if isinstance(args[1], VRef) else args[1]
    return VBool(simp(z3.And(r.f[0].t <= x.t, x.t <= r.f[1].t)))


def _result_map_or_else(ex, st, args, dest_ty, func, where):
    """Result::map_or_else(default: FnOnce(E) -> U, f: FnOnce(T) -> U): closures run from their own MIR under the matching guard"""
    from .symexec import merge_states
    r = args[0]
    while isinstance(r, VRef):
        r = ex.deref(st, r)
    if not isinstance(r, VEnum):
        raise Unsupported("map_or_else on %r" % (r,))
    g0 = st.guard
    is_ok = simp(r.discr == 0)
    outs, sts = [], []
    if not z3.is_false(is_ok) and 0 in r.pay:
        s1 = st.fork(simp(z3.And(g0, is_ok)))
        outs.append((is_ok, call_closure(ex, s1, args[2], [r.pay[0][0]], where)))
        sts.append(s1)
    if not z3.is_true(is_ok) and 1 in r.pay:
        s2 = st.fork(simp(z3.And(g0, z3.Not(is_ok))))
        outs.append((simp(z3.Not(is_ok)), call_closure(ex, s2, args[1], [r.pay[1][0]], where)))
        sts.append(s2)
    ms = merge_states(sts)
    if ms is None:
        st.guard = z3.BoolVal(False)
        return None
    st.guard, st.frames = ms.guard, ms.frames
    if len(outs) == 1:
        return outs[0][1]
    return merge(outs[0][0], outs[0][1], outs[1][1])


def _result_is_ok_and(ex, st, args, dest_ty, func, where):
    """Result::is_ok_and(f): Ok(v) -> f(v), Err -> false (closure from its own MIR)"""
    r = args[0]
    while isinstance(r, VRef):
        r = ex.deref(st, r)
    if not isinstance(r, VEnum):
        raise Unsupported("is_ok_and on %r" % (r,))
    is_ok = simp(r.discr == 0)
    if z3.is_false(is_ok) or 0 not in r.pay:
        return VBool(z3.BoolVal(False))
    v = call_closure(ex, st, args[1], [r.pay[0][0]], where)      # a pure predicate: evaluated unconditionally, used under the guard
    return VBool(simp(z3.And(is_ok, v.t)))


def _result_is(ex, st, args, dest_ty, func, where):
    r = args[0]
    while isinstance(r, VRef):
        r = ex.deref(st, r)
    if not isinstance(r, VEnum):
        raise Unsupported("is_ok/is_err on %r" % (r,))
    return VBool(simp(r.discr == (0 if func.endswith("is_ok") else 1)))


def _opt_int_unwrap_or_default(ex, st, args, dest_ty, func, where):
    o = args[0]
    while isinstance(o, VRef):
        o = ex.deref(st, o)
    ty = re.search(r"Option::<(\w+)>", func).group(1)
    v = o.pay[1][0].t if 1 in o.pay else I(0)
    return VInt(simp(z3.If(o.discr == 1, v, 0)), ty)


def install_core(ex):
    A = ex.add_model
    A(r"^(std::option::)?Option::<(u8|u16|u32|u64|usize|i8|i16|i32|i64|isize)>::unwrap_or_default$", _opt_int_unwrap_or_default, "Option<int>::unwrap_or_default")
    A(r"^(std::result::)?Result::<.*>::is_(ok|err)$", _result_is, "Result::is_ok / is_err")
    A(r"^(std::result::)?Result::<.*>::is_ok_and::<", _result_is_ok_and, "Result::is_ok_and (closure from MIR)")
    A(r"^(std::result::)?Result::<.*>::map_or_else::<", _result_map_or_else, "Result::map_or_else (closures from MIR)")
    A(r"^(std::ops::)?RangeInclusive::<\w+>::new$", _range_incl_new, "RangeInclusive::new")
    A(r"^(std::ops::)?RangeInclusive::<\w+>::contains::<\w+>$", _range_incl_contains, "RangeInclusive::contains")
    A(r"^<(std::option::)?Option<(u8|u16|u32|u64|usize|i8|i16|i32|i64|isize|bool|char)> as PartialEq>::(eq|ne)$", _opt_scalar_eq, "<Option<scalar> as PartialEq>::eq")
    A(r"^<(u\d+|usize|i\d+|isize) as (std::convert::)?From<(u\d+|bool)>>::from$", _int_from, "<uN as From<uM>>::from")
    A(r"<impl \w+>::wrapping_(add|sub|mul)$", _wrapping, "uN::wrapping_{add,sub,mul}")
    A(r"<impl \w+>::checked_(add|sub|mul)$", _checked, "uN::checked_{add,sub,mul}")
    A(r"<impl \w+>::saturating_(add|sub)$", _saturating, "uN::saturating_{add,sub}")
    A(r"<impl \w+>::is_power_of_two$", _is_pow2, "uN::is_power_of_two")
    A(r"^<\w+ as Ord>::min$|^std::cmp::min|^<\w+ as std::cmp::Ord>::min$", _min, "Ord::min")
    A(r"^<\w+ as Ord>::max$|^std::cmp::max|^<\w+ as std::cmp::Ord>::max$", _max, "Ord::max")
    A(r"^core::slice::<impl \[[\w:]+\]>::iter$", _slice_iter, "<[T]>::iter")
    A(r"^core::slice::<impl \[\w+\]>::len$", _seq_len, "<[T]>::len")
    A(r"^core::slice::<impl \[\w+\]>::is_empty$", _seq_is_empty, "<[T]>::is_empty")
    A(r"^<std::slice::Iter<'_, \w+> as Iterator>::enumerate$", _enumerate, "Iterator::enumerate")
    A(r" as IntoIterator>::into_iter$", _identity, "IntoIterator::into_iter (identity on iterators)")
    A(r"^<std::iter::Enumerate<std::slice::Iter<'_, \w+>> as Iterator>::next$", _enumerate_next, "Enumerate<slice::Iter>::next")
    A(r"^<std::slice::Iter<'_, \w+> as Iterator>::next$", _slice_iter_next, "slice::Iter::next")
    A(r"^Vec::<\w+>::len$", _seq_len, "Vec::len")
    A(r"^Vec::<\w+>::is_empty$", _seq_is_empty, "Vec::is_empty")
    A(r"^Vec::<\w+>::new$", _vec_new, "Vec::new")
    A(r"^<Vec<\w+> as (std::ops::)?Index<.*>>::index$", _seq_index, "<Vec<T> as Index<usize|Range*>>::index (bounds-checked)")
    A(r"^<\[\w+\] as (std::ops::)?Index<.*>>::index$", _seq_index, "<[T] as Index<..>>::index (bounds-checked)")
    A(r"^<Vec<\w+> as (std::ops::)?Deref>::deref$", _seq_deref, "<Vec<T> as Deref>::deref")
    A(r"^core::str::<impl str>::chars$", _chars, "str::chars (string = sequence of one-byte chars)")
    A(r"^<(std::str::)?Chars<'_> as Iterator>::collect::<Vec<char>>$", _collect_chars, "Chars::collect::<Vec<char>>")
    A(r"^(std::option::)?Option::<.*>::map_or::<", _opt_map_or, "Option::map_or")
    A(r"^(std::option::)?Option::<.*>::map_or_else::<", _opt_map_or_else, "Option::map_or_else")
    A(r"^(std::option::)?Option::<.*>::unwrap_or_else::<", _opt_unwrap_or_else, "Option::unwrap_or_else")
    A(r"^(std::option::)?Option::<.*>::and_then::<", _opt_and_then_core, "Option::and_then")
    A(r"^(std::option::)?Option::<.*>::or_else::<", _opt_or_else, "Option::or_else")
    A(r"^(std::option::)?Option::<.*>::or$", _opt_or, "Option::or")
    A(r"^(std::option::)?Option::<.*>::map::<", _opt_map_core, "Option::map")
    A(r"^(std::option::)?Option::<.*>::unwrap_or$", _opt_unwrap_or_core, "Option::unwrap_or")
    A(r"^(std::option::)?Option::<.*>::unwrap_or_else::<", _opt_unwrap_or_else, "Option::unwrap_or_else")
    A(r"^(std::option::)?Option::<.*>::filter::<", _opt_filter, "Option::filter")
    A(r"^(std::option::)?Option::<.*>::(unwrap|expect)$", _opt_unwrap, "Option::unwrap/expect (panic obligation)")
    A(r"^(std::option::)?Option::<.*>::is_some_and::<", _opt_is_some_and, "Option::is_some_and")
    A(r"^(std::option::)?Option::<&.*>::copied$", _opt_copied, "Option::<&T>::copied")
    A(r"^(std::option::)?Option::<.*>::is_some$", _opt_is_some, "Option::is_some")
    A(r"^(std::option::)?Option::<.*>::is_none$", _opt_is_none, "Option::is_none")
    A(r"^<(std::result::)?Result<.*> as (std::ops::)?Try>::branch$", _try_branch, "<Result as Try>::branch")
    A(r"^<(std::option::)?Option<.*> as (std::ops::)?Try>::branch$", _try_branch, "<Option as Try>::branch")
    A(r" as (std::ops::)?FromResidual<.*>>::from_residual$", _from_residual, "FromResidual::from_residual (error value opaque)")
    A(r"^(std::fmt::|core::fmt::)?Arguments::<'_>::(from_str|new_const|new_v1|new)", _opaque, "fmt::Arguments constructors (opaque)")
    A(r"^core::array::equality::<impl PartialEq.*>::(eq|ne)$|^<\[u8; \d+\] as PartialEq>::(eq|ne)$", _array_eq, "[T; N] == [T; N]")
    A(r"^<&?\[u8\] as PartialEq(<&?\[u8\]>)?>::(eq|ne)$", _slice_eq, "[u8] == [u8]")
    A(r"^<\[u8; \d+\] as (std::ops::)?Index<(std::ops::)?Range\w*<usize>>>::index$", _array_range_index, "<[u8; N] as Index<Range*>>::index (bounds-checked)")
    A(r"^<&.+ as PartialEq>::(eq|ne)$", _ref_partial_eq, "<&T as PartialEq> (forwards to T)")
    A(r"^<[\w:]+ as PartialEq>::ne$", _partial_ne, "PartialEq::ne = !eq (provided method)")


# ----------------------------------------------------------------- BTreeMap<PathBuf, V> over a finite ordered universe
# A map is VStruct("BTreeMap", [VList(entries)]) with entry j = VStruct("entry", [VBool present, value]);
# key j is the j-th path of the universe in Path order.  PathBuf values are VInt(id, "usize").

def mk_map(entries):
    return VStruct("BTreeMap", [VList(entries, I(len(entries)), "entry")])


def _map_of(ex, st, v):
    while isinstance(v, VRef):
        v = ex.deref(st, v)
    if not (isinstance(v, VStruct) and v.name == "BTreeMap"):
        raise Unsupported("expected a BTreeMap model, got %r" % (v,))
    return v.f[0].items


def _key_id(ex, st, v):
    while isinstance(v, VRef):
        v = ex.deref(st, v)
    if not isinstance(v, VInt):
        raise Unsupported("expected a path id, got %r" % (v,))
    return v.t


def _next_present(entries, idx):
    U = len(entries)
    nid = I(U)
    for j in reversed(range(U)):
        nid = z3.If(z3.And(idx <= j, entries[j].f[0].t), I(j), nid)
    return simp(nid)


def _select_val(entries, kid):
    out = entries[-1].f[1]
    for j in range(len(entries) - 2, -1, -1):
        out = merge(simp(kid == j), entries[j].f[1], out)
    return out


def _present_at(entries, kid):
    return simp(z3.Or(*[z3.And(kid == j, e.f[0].t) for j, e in enumerate(entries)]))


def _map_iter(ex, st, args, dest_ty, func, where):
    m = args[0]
    while isinstance(m, VRef):
        m = ex.deref(st, m)
    return VStruct("MapKeys" if func.endswith("::keys") else "MapIter", [m, VInt(I(0), "usize")])


def _map_iter_next(ex, st, args, dest_ty, func, where):
    ref = args[0]
    it = ex.deref(st, ref)
    entries = it.f[0].f[0].items
    U = len(entries)
    nid = _next_present(entries, it.f[1].t)
    has = simp(nid < U)
    key = VRef("val", val=VInt(nid, "usize"))
    val = VRef("val", val=_select_val(entries, nid))
    ex.store_ref(st, ref, VStruct(it.name, [it.f[0], VInt(simp(z3.If(has, nid + 1, I(U))), "usize")]))
    if "Keys<" in func or it.name == "MapKeys":
        return opt_sym(has, key)
    return opt_sym(has, VStruct("(tuple)", [key, val]))


def _map_get(ex, st, args, dest_ty, func, where):
    entries = _map_of(ex, st, args[0])
    kid = _key_id(ex, st, args[1])
    return opt_sym(_present_at(entries, kid), VRef("val", val=_select_val(entries, kid)))


def _map_contains(ex, st, args, dest_ty, func, where):
    entries = _map_of(ex, st, args[0])
    kid = _key_id(ex, st, args[1])
    return VBool(_present_at(entries, kid))


def _map_len(ex, st, args, dest_ty, func, where):
    entries = _map_of(ex, st, args[0])
    n = simp(sum([z3.If(e.f[0].t, 1, 0) for e in entries] + [I(0)]))
    if func.endswith("is_empty"):
        return VBool(simp(n == 0))
    return VInt(n, "usize")


def _path_cmp(ex, st, args, dest_ty, func, where):
    """comparisons of PathBuf values (ids in Path order): eq/ne/lt/le/gt/ge/cmp"""
    a, b = _key_id(ex, st, args[0]), _key_id(ex, st, args[1])
    op = func.rsplit("::", 1)[1]
    if op == "cmp":
        return VEnum("Ordering", simp(z3.If(a < b, I(-1), z3.If(a == b, I(0), I(1)))), {-1: [], 0: [], 1: []})
    t = {"eq": a == b, "ne": a != b, "lt": a < b, "le": a <= b, "gt": a > b, "ge": a >= b}[op]
    return VBool(simp(t))


def _path_deref(ex, st, args, dest_ty, func, where):
    v = args[0]
    while isinstance(v, VRef):
        v = ex.deref(st, v)
    return VRef("val", val=v)


def _path_clone(ex, st, args, dest_ty, func, where):
    v = args[0]
    while isinstance(v, VRef):
        v = ex.deref(st, v)
    return v


def _vec_default(ex, st, args, dest_ty, func, where):
    return VSeq(z3.K(z3.IntSort(), I(0)), I(0), I(0), "usize")


def _usize_default(ex, st, args, dest_ty, func, where):
    return VInt(I(0), "usize")


def _vec_push_scalar(ex, st, args, dest_ty, func, where):
    ref, v = args
    s = ex.deref(st, ref)
    if not isinstance(s, VSeq) or not isinstance(v, VInt):
        raise Unsupported("Vec::push on %r with %r" % (s, v))
    ex.store_ref(st, ref, VSeq(z3.Store(s.arr, simp(s.off + s.len), v.t), s.off, simp(s.len + 1), s.elem))
    return UNIT


def _deref_mut_same(ex, st, args, dest_ty, func, where):
    return args[0]


def _sort_ids(ex, st, args, dest_ty, func, where):
    """<[T]>::sort on a sequence of ids: the result is the sorted permutation of the input
    (fresh array + axioms; capacity = ex.sort_cap, with an obligation that the length fits)."""
    ref = args[0]
    s = ex.deref(st, ref)
    if not isinstance(s, VSeq):
        raise Unsupported("sort on %r" % (s,))
    cap, U = ex.sort_cap, ex.universe
    ex.oblig("model-bound", where, "sort: sequence longer than the model capacity %d" % cap, z3.And(st.guard, s.len > cap))
    out = z3.Array("sorted!%d" % next(ex.fresh), z3.IntSort(), z3.IntSort())
    ax = []
    for i in range(cap):
        ax.append(z3.Implies(i < s.len, z3.And(z3.Select(out, i) >= 0, z3.Select(out, i) < U)))
        if i + 1 < cap:
            ax.append(z3.Implies(i + 1 < s.len, z3.Select(out, i) <= z3.Select(out, i + 1)))
    for u in range(U):
        cin = sum([z3.If(z3.And(i < s.len, s.at(I(i)) == u), 1, 0) for i in range(cap)])
        cout = sum([z3.If(z3.And(i < s.len, z3.Select(out, i) == u), 1, 0) for i in range(cap)])
        ax.append(cin == cout)
    ex.assumes.append(z3.Implies(st.guard, z3.And(*ax)))
    ex.store_ref(st, ref, VSeq(out, I(0), s.len, s.elem))
    return UNIT


SORTKEY = z3.Function("sort_key_of_path", z3.IntSort(), z3.IntSort())


def _sort_by_key_ids(ex, st, args, dest_ty, func, where):
    """<[T]>::sort_by_key / sort_by_cached_key on a sequence of ids with a key closure that is NOT executed: the key is an
    UNINTERPRETED function of the element (any key function, in particular one that gives different elements the same key);
    the result is the STABLE sort by that key: out[i] = in[pos[i]], pos a permutation, (key, pos) lexicographically ascending."""
    ref = args[0]
    s = ex.deref(st, ref)
    if not isinstance(s, VSeq):
        raise Unsupported("sort_by_key on %r" % (s,))
    cap = ex.sort_cap
    ex.oblig("model-bound", where, "sort: sequence longer than the model capacity %d" % cap, z3.And(st.guard, s.len > cap))
    n = next(ex.fresh)
    out = z3.Array("sortedk!%d" % n, z3.IntSort(), z3.IntSort())
    pos = z3.Array("sortpos!%d" % n, z3.IntSort(), z3.IntSort())
    ax = []
    for i in range(cap):
        pi = z3.Select(pos, i)
        ax.append(z3.Implies(i < s.len, z3.And(pi >= 0, pi < s.len, z3.Select(out, i) == s.at(pi))))
        for j in range(i + 1, cap):
            ax.append(z3.Implies(j < s.len, pi != z3.Select(pos, j)))
        if i + 1 < cap:
            k0, k1 = SORTKEY(z3.Select(out, i)), SORTKEY(z3.Select(out, i + 1))
            ax.append(z3.Implies(i + 1 < s.len, z3.Or(k0 < k1, z3.And(k0 == k1, pi < z3.Select(pos, i + 1)))))
    ex.assumes.append(z3.Implies(st.guard, z3.And(*ax)))
    ex.store_ref(st, ref, VSeq(out, I(0), s.len, s.elem))
    return UNIT


CMPKEY = z3.Function("order_of_the_comparator", z3.IntSort(), z3.IntSort())


def _sort_by_cmp_ids(ex, st, args, dest_ty, func, where):
    """<[T]>::sort_by / sort_unstable_by on a sequence of ids with a comparator closure that is NOT executed: the comparator is SOME
    total order on the elements (an uninterpreted injective rank) - it need not be the order the maps iterate in"""
    ref = args[0]
    s = ex.deref(st, ref)
    if not isinstance(s, VSeq):
        raise Unsupported("sort_by on %r" % (s,))
    cap, U = ex.sort_cap, ex.universe
    ex.oblig("model-bound", where, "sort: sequence longer than the model capacity %d" % cap, z3.And(st.guard, s.len > cap))
    out = z3.Array("sortedc!%d" % next(ex.fresh), z3.IntSort(), z3.IntSort())
    ax = [CMPKEY(u) != CMPKEY(v) for u in range(U) for v in range(u + 1, U)]
    for i in range(cap):
        ax.append(z3.Implies(i < s.len, z3.And(z3.Select(out, i) >= 0, z3.Select(out, i) < U)))
        if i + 1 < cap:
            ax.append(z3.Implies(i + 1 < s.len, CMPKEY(z3.Select(out, i)) <= CMPKEY(z3.Select(out, i + 1))))
    for u in range(U):
        cin = sum([z3.If(z3.And(i < s.len, s.at(I(i)) == u), 1, 0) for i in range(cap)])
        cout = sum([z3.If(z3.And(i < s.len, z3.Select(out, i) == u), 1, 0) for i in range(cap)])
        ax.append(cin == cout)
    ex.assumes.append(z3.Implies(st.guard, z3.And(*ax)))
    ex.store_ref(st, ref, VSeq(out, I(0), s.len, s.elem))
    return UNIT


def _chain(ex, st, args, dest_ty, func, where):
    return VStruct("Chain", [args[0], args[1]])


def _collect_chain_keys(ex, st, args, dest_ty, func, where):
    """Chain<Keys, Keys>::collect::<Vec<&PathBuf>>: keys of the first map in order, then of the second"""
    ch = args[0]
    arr = z3.K(z3.IntSort(), I(0))
    n = I(0)
    for it in ch.f:
        entries = it.f[0].f[0].items
        if simp(it.f[1].t).as_long() != 0:
            raise Unsupported("collect over a partially consumed key iterator")
        for j, e in enumerate(entries):
            arr = z3.If(e.f[0].t, z3.Store(arr, n, I(j)), arr)
            n = simp(z3.If(e.f[0].t, n + 1, n))
    return VSeq(arr, I(0), n, "usize")


def _dedup(ex, st, args, dest_ty, func, where):
    """Vec::dedup: removes consecutive repeated elements (exact, element by element up to the capacity)"""
    ref = args[0]
    s = ex.deref(st, ref)
    cap = ex.sort_cap
    ex.oblig("model-bound", where, "dedup: sequence longer than the model capacity %d" % cap, z3.And(st.guard, s.len > cap))
    out = z3.K(z3.IntSort(), I(0))
    n = I(0)
    for i in range(cap):
        keep = z3.And(i < s.len, (z3.BoolVal(True) if i == 0 else s.at(I(i)) != s.at(I(i - 1))))
        out = z3.If(keep, z3.Store(out, n, s.at(I(i))), out)
        n = simp(z3.If(keep, n + 1, n))
    ex.store_ref(st, ref, VSeq(out, I(0), n, s.elem))
    return UNIT


def _vec_into_iter(ex, st, args, dest_ty, func, where):
    return VStruct("SliceIter", [args[0], VInt(I(0), "usize")])


def _vec_into_iter_next(ex, st, args, dest_ty, func, where):
    ref = args[0]
    it = ex.deref(st, ref)
    s, idx = it.f
    has = simp(idx.t < s.len)
    ex.store_ref(st, ref, VStruct("SliceIter", [s, VInt(simp(z3.If(has, idx.t + 1, idx.t)), "usize")]))
    return opt_sym(has, VRef("val", val=VInt(s.at(idx.t), "usize")))


def install_collections(ex, universe, sort_cap):
    ex.universe, ex.sort_cap = universe, sort_cap
    # these must precede the generic into_iter identity model
    ex.models.insert(0, (re.compile(r"^<&BTreeMap<.*> as IntoIterator>::into_iter$"), _map_iter, "<&BTreeMap as IntoIterator>::into_iter (ordered universe)"))
    _new = []

    def A(pat, h, label=None):
        _new.append((re.compile(pat), h, label or pat))
    A(r"^BTreeMap::<.*>::(iter|keys)$", _map_iter, "BTreeMap::{iter,keys}")
    A(r"^<std::collections::btree_map::(Iter|Keys)<'_, .*> as Iterator>::next$", _map_iter_next, "btree_map::{Iter,Keys}::next (ascending key order)")
    A(r"^BTreeMap::<.*>::get::<", _map_get, "BTreeMap::get")
    A(r"^BTreeMap::<.*>::contains_key::<", _map_contains, "BTreeMap::contains_key")
    A(r"^BTreeMap::<.*>::(len|is_empty)$", _map_len, "BTreeMap::len / is_empty")
    A(r"^<PathBuf as (std::ops::)?Deref>::deref$", _path_deref, "<PathBuf as Deref>::deref (paths are ids)")
    A(r"^<PathBuf as Clone>::clone$", _path_clone, "<PathBuf as Clone>::clone")
    A(r"^<&*PathBuf as Partial(Eq|Ord)(<&*PathBuf>)?>::(eq|ne|lt|le|gt|ge)$|^<&*PathBuf as Ord>::cmp$", _path_cmp, "PathBuf comparisons (Path order = id order)")
    A(r"^<Vec<PathBuf> as Default>::default$|^<Vec<\(PathBuf, .*\)> as Default>::default$|^Vec::<\(?PathBuf.*>::new$", _vec_default, "Vec<PathBuf>::default/new")
    A(r"^<usize as Default>::default$", _usize_default, "usize::default")
    A(r"^Vec::<PathBuf>::push$", _vec_push_scalar, "Vec<PathBuf>::push")
    ex.models.insert(0, (re.compile(r"^<Vec<&PathBuf> as IntoIterator>::into_iter$"), _vec_into_iter, "<Vec<&PathBuf> as IntoIterator>::into_iter"))
    A(r"^<std::collections::btree_map::Keys<'_, .*> as Iterator>::chain::<", _chain, "Iterator::chain")
    A(r"^<std::iter::Chain<.*Keys.*> as Iterator>::collect::<Vec<&PathBuf>>$", _collect_chain_keys, "Chain<Keys,Keys>::collect::<Vec<&PathBuf>>")
    A(r"^<Vec<&PathBuf> as (std::ops::)?DerefMut>::deref_mut$", _deref_mut_same, "<Vec<T> as DerefMut>::deref_mut")
    A(r"^(std|core)::slice::<impl \[&PathBuf\]>::sort(_unstable)?$", _sort_ids, "<[&PathBuf]>::sort_unstable (sorted permutation axioms)")
    A(r"^Vec::<&PathBuf>::dedup$", _dedup, "Vec::dedup (consecutive duplicates removed)")
    A(r"^(std|core)::slice::<impl \[&PathBuf\]>::sort(_unstable)?_by::<", _sort_by_cmp_ids, "<[&PathBuf]>::sort_by / sort_unstable_by (SOME total order: uninterpreted injective rank)")
    A(r"^(std|core)::slice::<impl \[&PathBuf\]>::sort_by_(cached_)?key::<", _sort_by_key_ids, "<[&PathBuf]>::sort_by_key / sort_by_cached_key (stable sort by an UNINTERPRETED key)")
    A(r"^<std::vec::IntoIter<&PathBuf> as Iterator>::next$", _vec_into_iter_next, "vec::IntoIter::next")
    A(r"^<Vec<PathBuf> as (std::ops::)?DerefMut>::deref_mut$", _deref_mut_same, "<Vec<T> as DerefMut>::deref_mut")
    A(r"^std::slice::<impl \[PathBuf\]>::sort$|^core::slice::<impl \[PathBuf\]>::sort$", _sort_ids, "<[PathBuf]>::sort (sorted permutation axioms)")
    ex.models = _new + ex.models


# ----------------------------------------------------------------- std::time / std::fs metadata (arithmetic only)
# SystemTime = VStruct("SystemTime", [secs since the epoch (may be negative), nanos]); the file system itself is
# NOT modelled: set_modified only records what it was asked to do (ex.effects), Metadata is an input value.

def _st_of(ex, st, v):
    while isinstance(v, VRef):
        v = ex.deref(st, v)
    if isinstance(v, VOpaque) and isinstance(v.what, tuple) and "UNIX_EPOCH" in str(v.what[1]):
        return VStruct("SystemTime", [VInt(I(0), "i64"), VInt(I(0), "u32")])
    if isinstance(v, VStruct) and v.name == "SystemTime":
        return v
    raise Unsupported("expected a SystemTime, got %r" % (v,))


def _unsigned_abs(ex, st, args, dest_ty, func, where):
    x = args[0].t
    return VInt(simp(z3.If(x < 0, -x, x)), "u64")


def _try_from_int(ex, st, args, dest_ty, func, where):
    m = re.search(r"<(\w+) as TryFrom<(\w+)>>::try_from", func)
    ty = m.group(1)
    x = args[0].t
    return VEnum("Result", simp(z3.If(ex.in_range(x, ty), I(0), I(1))), {0: [VInt(x, ty)], 1: [VOpaque("TryFromIntError")]})


def _res_unwrap_or(ex, st, args, dest_ty, func, where):
    r, d = args
    if 0 not in r.pay:
        return d
    return merge(simp(r.discr == 0), r.pay[0][0], d)


def _res_ok(ex, st, args, dest_ty, func, where):
    r = args[0]
    return VEnum("Option", simp(z3.If(r.discr == 0, I(1), I(0))), {0: [], 1: list(r.pay.get(0, [VOpaque("none")]))})


def _dur_from_secs(ex, st, args, dest_ty, func, where):
    return VStruct("Duration", [VInt(args[0].t, "u64"), VInt(I(0), "u32")])


def _dur_as_secs(ex, st, args, dest_ty, func, where):
    d = args[0]
    while isinstance(d, VRef):
        d = ex.deref(st, d)
    return VInt(d.f[0].t, "u64")


def _dur_as_units(ex, st, args, dest_ty, func, where):
    d = args[0]
    while isinstance(d, VRef):
        d = ex.deref(st, d)
    unit = re.search(r"as_(nanos|micros|millis)$", func).group(1)
    total_ns = d.f[0].t * 1000000000 + d.f[1].t
    div = {"nanos": 1, "micros": 1000, "millis": 1000000}[unit]
    return VInt(simp(total_ns / div), "u128")


def _dur_subsec(ex, st, args, dest_ty, func, where):
    d = args[0]
    while isinstance(d, VRef):
        d = ex.deref(st, d)
    unit = re.search(r"subsec_(nanos|micros|millis)$", func).group(1)
    div = {"nanos": 1, "micros": 1000, "millis": 1000000}[unit]
    return VInt(simp(d.f[1].t / div), "u32")


def _systime_add(ex, st, args, dest_ty, func, where):
    t = _st_of(ex, st, args[0])
    d = args[1]
    secs = simp(t.f[0].t + d.f[0].t + (t.f[1].t + d.f[1].t) / 1000000000)
    nanos = simp((t.f[1].t + d.f[1].t) % 1000000000)
    ex.oblig("panic", where, "overflow when adding duration to instant", z3.And(st.guard, secs > (1 << 63) - 1))
    st.guard = simp(z3.And(st.guard, secs <= (1 << 63) - 1))
    return VStruct("SystemTime", [VInt(secs, "i64"), VInt(nanos, "u32")])


def _duration_since(ex, st, args, dest_ty, func, where):
    t, e = _st_of(ex, st, args[0]), _st_of(ex, st, args[1])
    tn = t.f[0].t * 1000000000 + t.f[1].t
    en = e.f[0].t * 1000000000 + e.f[1].t
    ok = simp(tn >= en)
    diff = tn - en
    d = VStruct("Duration", [VInt(simp(diff / 1000000000), "u64"), VInt(simp(diff % 1000000000), "u32")])
    return VEnum("Result", simp(z3.If(ok, I(0), I(1))), {0: [d], 1: [VOpaque("SystemTimeError")]})


def _opt_and_then(ex, st, args, dest_ty, func, where):
    from .deltamodels import closure_of
    opt, clos = args[0], closure_of(args[1])
    r = _branch_on_option(ex, st, opt, lambda s, p: call_closure(ex, s, clos, [p], where), lambda s: none())
    return r


def _open_options(ex, st, args, dest_ty, func, where):
    return VStruct("OpenOptions", [VBool(z3.BoolVal(False))])


def _oo_write(ex, st, args, dest_ty, func, where):
    ref = args[0]
    ex.store_ref(st, ref, VStruct("OpenOptions", [args[1]]))
    return ref


def _oo_open(ex, st, args, dest_ty, func, where):
    ok = ex.fresh_bool("open_ok")
    ex.inputs = getattr(ex, "inputs", {})
    ex.inputs.setdefault("open_ok", []).append(ok)
    return VEnum("Result", simp(z3.If(ok, I(0), I(1))), {0: [VStruct("File", [args[1]])], 1: [VOpaque("io::Error")]})


def _set_modified(ex, st, args, dest_ty, func, where):
    t = _st_of(ex, st, args[1])
    ok = ex.fresh_bool("set_modified_ok")
    ex.effects = getattr(ex, "effects", [])
    ex.effects.append({"guard": st.guard, "call": "File::set_modified", "time": t, "ok": ok})
    return VEnum("Result", simp(z3.If(ok, I(0), I(1))), {0: [UNIT], 1: [VOpaque("io::Error")]})


def _meta_modified(ex, st, args, dest_ty, func, where):
    m = args[0]
    while isinstance(m, VRef):
        m = ex.deref(st, m)
    return VEnum("Result", simp(z3.If(m.f[0].t, I(0), I(1))), {0: [m.f[1]], 1: [VOpaque("io::Error")]})


def install_time_fs(ex):
    from .deltamodels import closure_of  # noqa: F401
    M = []

    def A(pat, h, label):
        M.append((re.compile(pat), h, label))
    A(r"<impl i64>::unsigned_abs$", _unsigned_abs, "i64::unsigned_abs")
    A(r"^<\w+ as TryFrom<\w+>>::try_from$", _try_from_int, "<int as TryFrom<int>>::try_from")
    A(r"^(std::result::)?Result::<.*>::unwrap_or$", _res_unwrap_or, "Result::unwrap_or")
    A(r"^(std::result::)?Result::<.*>::ok$", _res_ok, "Result::ok")
    A(r"^(std::time::)?Duration::from_secs$", _dur_from_secs, "Duration::from_secs")
    A(r"^(std::time::)?Duration::as_secs$", _dur_as_secs, "Duration::as_secs")
    A(r"^(std::time::)?Duration::as_(nanos|micros|millis)$", _dur_as_units, "Duration::as_{nanos,micros,millis}")
    A(r"^(std::time::)?Duration::subsec_(nanos|micros|millis)$", _dur_subsec, "Duration::subsec_*")
    A(r"^<(std::time::)?SystemTime as (std::ops::)?Add<(std::time::)?Duration>>::add$", _systime_add, "SystemTime + Duration (panics on overflow)")
    A(r"^(std::time::)?SystemTime::duration_since$", _duration_since, "SystemTime::duration_since")
    A(r"^(std::option::)?Option::<.*>::and_then::<", _opt_and_then, "Option::and_then")
    A(r"^std::fs::File::options$", _open_options, "File::options")
    A(r"^std::fs::OpenOptions::write$", _oo_write, "OpenOptions::write")
    A(r"^std::fs::OpenOptions::open::<", _oo_open, "OpenOptions::open (outcome is an arbitrary input; the FS is not modelled)")
    A(r"^std::fs::File::set_modified$", _set_modified, "File::set_modified (recorded as an effect; outcome arbitrary)")
    A(r"^std::fs::Metadata::modified$", _meta_modified, "Metadata::modified (input value)")
    ex.models = M + ex.models


# ----------------------------------------------------------------- str / Path helpers for is_excluded
# Strings and relative paths are VSeq of chars.  Path::components is modelled ONLY for relative paths made of
# '/'-separated names that are neither "." nor ".." (what a directory walk produces) — stated as an assumption.

COMPONENT = {"Prefix": 0, "RootDir": 1, "CurDir": 2, "ParentDir": 3, "Normal": 4}


def _str_of(ex, st, v):
    while isinstance(v, VRef):
        v = ex.deref(st, v)
    if isinstance(v, VStruct) and v.name in ("Cow", "String"):
        v = v.f[0]
    if isinstance(v, VOpaque) and isinstance(v.what, tuple) and v.what[0] == "str":
        t = str(v.what[1])
        if len(t) >= 2 and t[0] == t[-1] == '"':
            t = t[1:-1].encode().decode("unicode_escape")
        arr = z3.K(z3.IntSort(), I(0))
        for i, ch in enumerate(t):
            arr = z3.Store(arr, i, ord(ch))
        return VSeq(arr, I(0), I(len(t)), "char")
    if not isinstance(v, VSeq):
        raise Unsupported("expected a string, got %r" % (v,))
    return v


def _string_deref(ex, st, args, dest_ty, func, where):
    return VRef("val", val=_str_of(ex, st, args[0]))


def _trim_end_matches(ex, st, args, dest_ty, func, where):
    s = _str_of(ex, st, args[0])
    c = args[1].t
    cap = ex.str_cap
    ex.oblig("model-bound", where, "string longer than the model capacity %d" % cap, z3.And(st.guard, s.len > cap))
    # new length = 1 + index of the last char != c (0 if none)
    n = I(0)
    for i in range(cap):
        n = z3.If(z3.And(i < s.len, s.at(I(i)) != c), I(i + 1), n)
    return VRef("val", val=VSeq(s.arr, s.off, simp(n), s.elem))


def _trim_start_matches_str(ex, st, args, dest_ty, func, where):
    """str::trim_start_matches(&str pattern): strips the pattern repeatedly from the front (concrete, non-empty pattern)"""
    s = _str_of(ex, st, args[0])
    p = _str_of(ex, st, args[1])
    pl = simp(p.len)
    if not z3.is_int_value(pl) or pl.as_long() == 0:
        raise Unsupported("trim_start_matches with a symbolic or empty pattern")
    m = pl.as_long()
    pcs = [simp(p.at(I(j))) for j in range(m)]
    cap = ex.str_cap
    ex.oblig("model-bound", where, "string longer than the model capacity %d" % cap, z3.And(st.guard, s.len > cap))
    # k = number of leading repetitions of the pattern
    start = I(0)
    going = z3.BoolVal(True)
    for r in range(cap // m + 1):
        here = z3.And(going, (r + 1) * m <= s.len, *[s.at(I(r * m + j)) == pcs[j] for j in range(m)])
        start = z3.If(here, I((r + 1) * m), start)
        going = here
    start = simp(start)
    return VRef("val", val=VSeq(s.arr, simp(s.off + start), simp(s.len - start), s.elem))


def _str_as_bytes(ex, st, args, dest_ty, func, where):
    """str::as_bytes on a string of symbolic chars: its UTF-8 encoding (1-3 bytes per char; code points < 0x10000)"""
    s = _str_of(ex, st, args[0])
    if s.elem == "u8":
        return VRef("val", val=s)
    cap = ex.str_cap
    ex.oblig("model-bound", where, "string longer than the model capacity %d" % cap, z3.And(st.guard, s.len > cap))
    B = z3.K(z3.IntSort(), I(0))
    off = I(0)
    allsmall = True
    for i in range(cap):
        c = s.at(I(i))
        live = i < s.len
        c_s = simp(c)
        if z3.is_int_value(c_s) and c_s.as_long() < 0x80:
            w = I(1)
        else:
            w = z3.If(c < 0x80, 1, z3.If(c < 0x800, 2, 3))
        b0 = z3.If(c < 0x80, c, z3.If(c < 0x800, 0xC0 + c / 64, 0xE0 + c / 4096))
        b1 = z3.If(c < 0x800, 0x80 + c % 64, 0x80 + (c / 64) % 64)
        b2 = 0x80 + c % 64
        B = z3.Store(B, off, z3.If(live, b0, z3.Select(B, off)))
        B = z3.Store(B, off + 1, z3.If(z3.And(live, w >= 2), b1, z3.Select(B, off + 1)))
        B = z3.Store(B, off + 2, z3.If(z3.And(live, w >= 3), b2, z3.Select(B, off + 2)))
        off = simp(off + z3.If(live, w, 0))
    return VRef("val", val=VSeq(B, I(0), off, "u8"))


def _str_replace_str(ex, st, args, dest_ty, func, where):
    """str::replace(from: &str, to: &str) with CONCRETE non-empty `from` and concrete `to` on a bounded symbolic string:
    left-to-right, non-overlapping (exactly std's semantics)"""
    s = _str_of(ex, st, args[0])
    fr, to = _str_of(ex, st, args[1]), _str_of(ex, st, args[2])
    m, k = simp(fr.len), simp(to.len)
    if not (z3.is_int_value(m) and z3.is_int_value(k)) or m.as_long() == 0:
        raise Unsupported("str::replace with a symbolic or empty pattern")
    m, k = m.as_long(), k.as_long()
    fcs = [simp(fr.at(I(j))) for j in range(m)]
    tcs = [simp(to.at(I(j))) for j in range(k)]
    cap = ex.str_cap
    ex.oblig("model-bound", where, "string longer than the model capacity %d" % cap, z3.And(st.guard, s.len > cap))
    out = z3.K(z3.IntSort(), I(0))
    off = I(0)
    skip = I(0)          # characters of the current match still to be skipped
    for i in range(cap):
        live = i < s.len
        hit = z3.And(live, skip == 0, i + m <= s.len, *[s.at(I(i + j)) == fcs[j] for j in range(m)])
        plain = z3.And(live, skip == 0, z3.Not(hit))
        for j in range(k):
            out = z3.Store(out, off + j, z3.If(hit, tcs[j], z3.Select(out, off + j)))
        out = z3.Store(out, off, z3.If(plain, s.at(I(i)), z3.Select(out, off)))
        off = simp(off + z3.If(hit, k, z3.If(plain, 1, 0)))
        skip = simp(z3.If(hit, m - 1, z3.If(skip > 0, skip - 1, 0)))
    return VStruct("String", [VSeq(out, I(0), off, "char")])


def _str_is_empty(ex, st, args, dest_ty, func, where):
    return VBool(simp(_str_of(ex, st, args[0]).len == 0))


def _str_contains_char(ex, st, args, dest_ty, func, where):
    s = _str_of(ex, st, args[0])
    c = args[1].t
    cap = ex.str_cap
    ex.oblig("model-bound", where, "string longer than the model capacity %d" % cap, z3.And(st.guard, s.len > cap))
    return VBool(simp(z3.Or(*[z3.And(i < s.len, s.at(I(i)) == c) for i in range(cap)])))


def _to_string_lossy(ex, st, args, dest_ty, func, where):
    return VStruct("Cow", [_str_of(ex, st, args[0])])


def _components(ex, st, args, dest_ty, func, where):
    return VStruct("Components", [_str_of(ex, st, args[0]), VInt(I(0), "usize")])


def _components_next(ex, st, args, dest_ty, func, where):
    ref = args[0]
    it = ex.deref(st, ref)
    s, pos = it.f[0], it.f[1].t
    cap = ex.str_cap
    SL = ord("/")
    # start = first index >= pos that is < len and not '/'
    start = s.len
    for j in reversed(range(cap)):
        start = z3.If(z3.And(j >= pos, j < s.len, s.at(I(j)) != SL), I(j), start)
    start = simp(start)
    has = simp(start < s.len)
    end = s.len
    for j in reversed(range(cap)):
        end = z3.If(z3.And(j > start, j < s.len, s.at(I(j)) == SL), I(j), end)
    end = simp(end)
    comp = VSeq(s.arr, simp(s.off + start), simp(end - start), s.elem)
    ex.store_ref(st, ref, VStruct("Components", [s, VInt(simp(z3.If(has, end, s.len)), "usize")]))
    item = VEnum("Component", I(COMPONENT["Normal"]), {COMPONENT["Normal"]: [VRef("val", val=comp)]})
    return opt_sym(has, item)


def _strings_into_iter(ex, st, args, dest_ty, func, where):
    v = args[0]
    while isinstance(v, VRef):
        v = ex.deref(st, v)
    if not isinstance(v, VList):
        raise Unsupported("expected a list of strings, got %r" % (v,))
    return VStruct("SliceIter", [v, VInt(I(0), "usize")])


def _strings_next(ex, st, args, dest_ty, func, where):
    ref = args[0]
    it = ex.deref(st, ref)
    s, idx = it.f
    has = simp(idx.t < s.len) if s.items else z3.BoolVal(False)
    ex.store_ref(st, ref, VStruct("SliceIter", [s, VInt(simp(z3.If(has, idx.t + 1, idx.t)), "usize")]))
    elem = list_get(s, idx.t) if s.items else VOpaque("no element")
    return opt_sym(has, VRef("val", val=elem))


def _char_set(ex, st, v):
    while isinstance(v, VRef):
        v = ex.deref(st, v)
    if isinstance(v, VInt):
        return [v.t]
    if isinstance(v, VStruct) and v.name == "[array]":
        return [x.t for x in v.f]
    raise Unsupported("char pattern %r" % (v,))


def _str_find(ex, st, args, dest_ty, func, where):
    """str::find(char | [char; N]): byte index of the first matching char (one-byte chars)"""
    s = _str_of(ex, st, args[0])
    cs = _char_set(ex, st, args[1])
    cap = ex.str_cap
    ex.oblig("model-bound", where, "string longer than the model capacity %d" % cap, z3.And(st.guard, s.len > cap))
    pos = I(-1)
    for i in reversed(range(cap)):
        hit = z3.And(i < s.len, z3.Or(*[s.at(I(i)) == c for c in cs]))
        pos = z3.If(hit, I(i), pos)
    pos = simp(pos)
    return opt_sym(simp(pos >= 0), VInt(pos, "usize"))


def _str_index_range(ex, st, args, dest_ty, func, where):
    s = _str_of(ex, st, args[0])
    return _seq_index(ex, st, [VRef("val", val=s), args[1]], dest_ty, func, where)


def _str_len(ex, st, args, dest_ty, func, where):
    return VInt(_str_of(ex, st, args[0]).len, "usize")


def _str_starts_ends(ex, st, args, dest_ty, func, where):
    s = _str_of(ex, st, args[0])
    cap = ex.str_cap
    ends = "ends_with" in func
    p = args[1]
    while isinstance(p, VRef):
        p = ex.deref(st, p)
    if isinstance(p, VInt):
        idx = simp(s.len - 1) if ends else I(0)
        return VBool(simp(z3.And(s.len > 0, s.at(idx) == p.t)))
    q = _str_of(ex, st, p)
    base = simp(s.len - q.len) if ends else I(0)
    return VBool(simp(z3.And(q.len <= s.len, *[z3.Implies(k < q.len, s.at(simp(base + k)) == q.at(I(k))) for k in range(cap)])))


def _path_starts_with(ex, st, args, dest_ty, func, where):
    """Path::starts_with on relative paths of plain names: COMPONENT-wise prefix (not a string prefix):
    base (trailing '/' ignored) must be a string prefix of rel that ends at a component boundary"""
    rel = _str_of(ex, st, args[0])
    base = _str_of(ex, st, args[1])
    cap = ex.str_cap
    SL = ord("/")
    bl = I(0)
    for i in range(cap):
        bl = z3.If(z3.And(i < base.len, base.at(I(i)) != SL), I(i + 1), bl)
    bl = simp(bl)
    pre = z3.And(bl <= rel.len, *[z3.Implies(k < bl, rel.at(I(k)) == base.at(I(k))) for k in range(cap)])
    boundary = z3.Or(rel.len == bl, rel.at(bl) == SL)
    absolute = z3.And(base.len > 0, base.at(I(0)) == SL)
    return VBool(simp(z3.And(z3.Not(absolute), z3.Or(bl == 0, z3.And(pre, boundary)))))


def install_strings(ex, str_cap):
    ex.str_cap = str_cap
    ex.enums.setdefault("Component", dict(COMPONENT))
    M = []

    def A(pat, h, label):
        M.append((re.compile(pat), h, label))
    A(r"^<&\[(std::string::)?String\] as IntoIterator>::into_iter$", _strings_into_iter, "<&[String] as IntoIterator>::into_iter")
    A(r"^<std::slice::Iter<'_, (std::string::)?String> as Iterator>::next$", _strings_next, "slice::Iter<String>::next")
    A(r"^<(std::string::)?String as (std::ops::)?Deref>::deref$|^(std::string::)?String::as_str$|^<(std::string::)?String as AsRef<str>>::as_ref$", _string_deref, "<String as Deref>::deref / as_str")
    A(r"^core::str::<impl str>::trim_end_matches::<char>$", _trim_end_matches, "str::trim_end_matches(char)")
    A(r"^core::str::<impl str>::trim_start_matches::<&str>$", _trim_start_matches_str, "str::trim_start_matches(&str)")
    A(r"^(std|alloc)::str::<impl str>::replace::<&str>$|^str::<impl str>::replace::<&str>$", _str_replace_str, "str::replace(&str, &str) (left-to-right, non-overlapping)")
    A(r"^core::str::<impl str>::as_bytes$|^str::<impl str>::as_bytes$", _str_as_bytes, "str::as_bytes (UTF-8 encoding of the chars)")
    A(r"^core::str::<impl str>::is_empty$", _str_is_empty, "str::is_empty")
    A(r"^core::str::<impl str>::contains::<char>$", _str_contains_char, "str::contains(char)")
    A(r"^(std::path::)?Path::to_string_lossy$|^std::ffi::OsStr::to_string_lossy$", _to_string_lossy, "Path/OsStr::to_string_lossy (valid UTF-8: identity)")
    A(r"^<(std::borrow::)?Cow<'_, str> as (std::ops::)?Deref>::deref$", _string_deref, "<Cow<str> as Deref>::deref")
    A(r"^core::str::<impl str>::find::<(char|\[char; \d+\])>$", _str_find, "str::find(char / [char; N])")
    A(r"^<str as (std::ops::)?Index<(std::ops::)?Range\w*<usize>>>::index$|^core::str::traits::<impl (std::ops::)?Index<.*> for str>::index$", _str_index_range, "str[range] (one-byte chars)")
    A(r"^core::str::<impl str>::len$", _str_len, "str::len")
    A(r"^core::str::<impl str>::(starts_with|ends_with)::<", _str_starts_ends, "str::starts_with / ends_with")
    A(r"^(std::path::)?Path::starts_with::<", _path_starts_with, "Path::starts_with (component-wise prefix, relative plain paths)")
    A(r"^(std::path::)?Path::components$", _components, "Path::components (relative path of plain names: '/'-separated non-empty pieces)")
    A(r"^<(std::path::)?Components<'_> as Iterator>::next$", _components_next, "Components::next (Normal components only, under the stated assumption)")
    ex.models = M + ex.models
