"""E2 driver: run Kani harnesses over the real code, parse per-harness verdicts, covers and concrete playback."""
import os
import re
import resource
import shutil
import subprocess
import sys

from .env import REPO, VERIF, BUILD, _cargo_env, now, Inconclusive

KANI_DIR = os.path.join(VERIF, "kani")


def _limit(mem_gb):
    def f():
        lim = int(mem_gb * (1 << 30))
        resource.setrlimit(resource.RLIMIT_AS, (lim, lim))
    return f


def prepare(crate):
    """crate: 'lib' | 'bin'. Copies Cargo.lock from /repo, regenerates copied modules for 'bin'."""
    cdir = os.path.join(KANI_DIR, crate)
    shutil.copyfile(os.path.join(REPO, "Cargo.lock"), os.path.join(cdir, "Cargo.lock"))
    if crate == "bin":
        sys.path.insert(0, KANI_DIR)
        import gen_bin
        gen_bin.gen()
    return cdir


class HarnessResult:
    def __init__(self, name):
        self.name = name
        self.status = "error"        # success | failed | error
        self.time_s = None
        self.failed = []             # [(description, location)]
        self.covers = []             # [(description, status)]
        self.playback = None         # [[bytes], ...]
        self.stubs = []
        self.raw_tail = ""
        self.checks = 0

    def as_dict(self):
        return {"harness": self.name, "status": self.status, "time_s": self.time_s, "checks": self.checks,
                "failed": self.failed[:6], "covers": self.covers, "stubs": self.stubs}


_CHECK = re.compile(r"^Check (\d+): (.*)$")


def parse_output(text, harnesses):
    res = {}
    sections = re.split(r"^Checking harness (.+?)\.\.\.$", text, flags=re.M)
    # sections[0] = preamble, then name, body, name, body...
    for i in range(1, len(sections), 2):
        name, body = sections[i].strip(), sections[i + 1]
        short = name.split("::")[-1]
        r = HarnessResult(short)
        r.stubs = re.findall(r"- Stub: (.+)", body)
        if "VERIFICATION:- SUCCESSFUL" in body:
            r.status = "success"
        elif "VERIFICATION:- FAILED" in body:
            r.status = "failed"
        m = re.search(r"Verification Time: ([0-9.]+)s", body)
        if m:
            r.time_s = float(m.group(1))
        lines = body.split("\n")
        j = 0
        while j < len(lines):
            m = _CHECK.match(lines[j])
            if m:
                cname = m.group(2)
                status = desc = loc = ""
                k = j + 1
                while k < len(lines) and lines[k].startswith("\t"):
                    l = lines[k].strip()
                    if l.startswith("- Status:"):
                        status = l.split(":", 1)[1].strip()
                    elif l.startswith("- Description:"):
                        desc = l.split(":", 1)[1].strip().strip('"')
                    elif l.startswith("- Location:"):
                        loc = l.split(":", 1)[1].strip()
                    k += 1
                r.checks += 1
                if ".cover." in cname:
                    r.covers.append((desc, status))
                elif status in ("FAILURE", "UNDETERMINED", "ERROR"):
                    r.failed.append((desc, loc, status))
                j = k
                continue
            j += 1
        if any(s in ("UNDETERMINED", "ERROR") for _, _, s in r.failed) or "CBMC failed" in body or "Status: ERROR" in body:
            # out of memory / back-end crash: never a verdict
            r.status = "error"
        # one playback test per satisfied cover AND per failed check: keep the ones that belong to failures
        blocks = re.split(r"Concrete playback unit test for `.*?`:", body)[1:]
        chosen = None
        for blk in blocks:
            blk = blk.split("```")[1] if "```" in blk else blk
            is_cover = re.search(r"Check for `cover`", blk) is not None
            vals = []
            for vm in re.finditer(r"^\s*vec!\[([0-9, ]*)\],?\s*$", blk, flags=re.M):
                inner = vm.group(1).strip()
                vals.append([int(x) for x in inner.split(",") if x.strip()] if inner else [])
            if not is_cover and chosen is None:
                chosen = vals
            r.playbacks = getattr(r, "playbacks", []) + [(is_cover, vals)]
        if chosen is not None:
            r.playback = chosen
        r.raw_tail = body[-1500:]
        res[short] = r
    for h in harnesses:
        short = h.split("::")[-1]
        if short not in res:
            r = HarnessResult(short)
            r.raw_tail = text[-2500:]
            res[short] = r
    return res


def run(crate, harnesses, timeout_s=900, mem_gb=24, extra=(), unwind=None, jobs=1):
    """Run the named harnesses of kani/<crate>. Returns {harness: HarnessResult}, wall seconds."""
    cdir = prepare(crate)
    tdir = os.path.join(BUILD, "kani-" + crate)
    cmd = ["cargo", "kani", "--target-dir", tdir, "-Z", "stubbing", "-Z", "concrete-playback", "--concrete-playback=print"]
    for h in harnesses:
        cmd += ["--harness", h]
    cmd.append("--exact")
    if jobs > 1:
        cmd += ["-j", str(jobs), "--output-format", "terse"]
    cmd += list(extra)
    env = _cargo_env()
    t0 = now()
    # own session: on timeout only THIS run's process tree is killed (concurrent checks keep their solvers)
    proc = subprocess.Popen(cmd, cwd=cdir, env=env, stdout=subprocess.PIPE, stderr=subprocess.STDOUT, text=True,
                            preexec_fn=_limit(mem_gb), start_new_session=True)
    try:
        out, _ = proc.communicate(timeout=timeout_s)
    except subprocess.TimeoutExpired:
        import signal
        try:
            os.killpg(proc.pid, signal.SIGKILL)
        except ProcessLookupError:
            pass
        out, _ = proc.communicate()
        out = (out or "") + "\n[verif] TIMEOUT after %ds\n" % timeout_s
    dt = now() - t0
    if "error: could not compile" in out or "error[E" in out:
        raise Inconclusive("Kani harness crate `%s` does not compile:\n%s" % (crate, out[-2500:]))
    return parse_output(out, harnesses), dt, out


class Cursor:
    """sequential reader over concrete-playback values"""

    def __init__(self, vals):
        self.vals, self.i = vals, 0

    def take(self):
        if self.i >= len(self.vals):
            return [0]
        v = self.vals[self.i]
        self.i += 1
        return v

    def u(self):
        return int.from_bytes(bytes(self.take()), "little")

    def i64(self):
        return int.from_bytes(bytes(self.take()), "little", signed=True)

    def boolean(self):
        return self.u() & 1 == 1

    def bytes_(self, n):
        return [self.u() & 0xFF for _ in range(n)]
