"""Parser for rustc `-Zunpretty=mir` text (nightly), producing a small IR.

Only the textual shapes that occur in copia's dumps are handled; anything else
raises MirParseError, which the checks turn into INCONCLUSIVE (never a verdict).
"""
import re


class MirParseError(Exception):
    pass


# ----------------------------------------------------------------- scanning helpers

_CHAR_LIT = re.compile(r"'(\\u\{[0-9a-fA-F]+\}|\\x[0-9a-fA-F]{2}|\\.|[^\\'])'")
OPEN = "([{"
CLOSE = ")]}"


def _skip_string(s, i):
    """s[i] == '"': return index after the closing quote."""
    j = i + 1
    while j < len(s):
        c = s[j]
        if c == "\\":
            j += 2
            continue
        if c == '"':
            return j + 1
        j += 1
    raise MirParseError("unterminated string in: " + s[:80])


def split_top(s, sep=","):
    """Split at top-level `sep` (outside (), [], {}, strings and char literals)."""
    out, depth, i, start = [], 0, 0, 0
    n = len(s)
    while i < n:
        c = s[i]
        if c == '"':
            i = _skip_string(s, i)
            continue
        if c == "'":
            m = _CHAR_LIT.match(s, i)
            if m:
                i = m.end()
                continue
        if c in OPEN:
            depth += 1
        elif c in CLOSE:
            depth -= 1
        elif c == sep and depth == 0:
            out.append(s[start:i].strip())
            start = i + 1
        i += 1
    last = s[start:].strip()
    if last:
        out.append(last)
    return out


def rejoin_angle(parts):
    """operands that are bare function items (`Type::<A, B>::f`) contain commas inside <>: glue the pieces back"""
    out, cur = [], None
    for p in parts:
        cur = p if cur is None else cur + ", " + p
        t = cur.replace("->", "")
        if t.count("<") <= t.count(">"):
            out.append(cur)
            cur = None
    if cur is not None:
        out.append(cur)
    return out


def split_top_angle(s, sep=","):
    """Split a *type list* at top-level commas, also tracking <> (with `->`)."""
    out, depth, i, start = [], 0, 0, 0
    n = len(s)
    while i < n:
        c = s[i]
        if c == "-" and i + 1 < n and s[i + 1] == ">":
            i += 2
            continue
        if c in OPEN or c == "<":
            depth += 1
        elif c in CLOSE or c == ">":
            depth -= 1
        elif c == sep and depth == 0:
            out.append(s[start:i].strip())
            start = i + 1
        i += 1
    last = s[start:].strip()
    if last:
        out.append(last)
    return out


def match_close(s, i):
    """s[i] is an opening bracket: index of the matching closing bracket."""
    depth = 0
    n = len(s)
    while i < n:
        c = s[i]
        if c == '"':
            i = _skip_string(s, i)
            continue
        if c == "'":
            m = _CHAR_LIT.match(s, i)
            if m:
                i = m.end()
                continue
        if c in OPEN:
            depth += 1
        elif c in CLOSE:
            depth -= 1
            if depth == 0:
                return i
        i += 1
    raise MirParseError("unbalanced: " + s[:100])


# ----------------------------------------------------------------- IR

class Place:
    __slots__ = ("local", "proj")

    def __init__(self, local, proj=()):
        self.local = local
        self.proj = tuple(proj)   # ('deref',) ('field', n, ty) ('downcast', name) ('index', local) ('cindex', n)

    def __repr__(self):
        return "Place(%s%s)" % (self.local, "".join("/" + ":".join(str(x) for x in p[:2]) for p in self.proj))


class Operand:
    __slots__ = ("kind", "place", "const")

    def __init__(self, kind, place=None, const=None):
        self.kind = kind      # 'copy' | 'move' | 'const'
        self.place = place
        self.const = const    # raw text after 'const '

    def __repr__(self):
        return "%s %s" % (self.kind, self.place if self.place is not None else self.const)


class Rvalue:
    __slots__ = ("kind", "a")

    def __init__(self, kind, *a):
        self.kind = kind
        self.a = a

    def __repr__(self):
        return "Rvalue(%s %r)" % (self.kind, self.a)


class Stmt:
    __slots__ = ("kind", "place", "rv", "text")

    def __init__(self, kind, place=None, rv=None, text=""):
        self.kind, self.place, self.rv, self.text = kind, place, rv, text


class Term:
    __slots__ = ("kind", "a", "text")

    def __init__(self, kind, text, **a):
        self.kind, self.a, self.text = kind, a, text


class Block:
    __slots__ = ("name", "stmts", "term")

    def __init__(self, name):
        self.name, self.stmts, self.term = name, [], None


class Fn:
    def __init__(self, name, args, ret, header):
        self.name = name
        self.args = args          # [(local, type)]
        self.ret = ret
        self.header = header
        self.locals = {}          # local -> type
        self.debug = {}           # source variable name -> local (first binding)
        self.blocks = {}
        self.order = []
        self.ctfe = False
        self.line = 0

    def succs(self, bb):
        t = self.blocks[bb].term
        k = t.kind
        if k == "goto":
            return [t.a["target"]]
        if k == "switch":
            out = [b for _, b in t.a["targets"]]
            if t.a["otherwise"]:
                out.append(t.a["otherwise"])
            return out
        if k in ("assert", "drop"):
            return [t.a["target"]]
        if k == "call":
            return [t.a["target"]] if t.a["target"] else []
        return []


class Mir:
    def __init__(self):
        self.fns = {}       # name -> [Fn] (runtime MIR first)
        self.consts = {}    # full name -> (type, text or Fn body)
        self.closures = {}  # closure location string -> Fn


# ----------------------------------------------------------------- places / operands

_BINOPS = {"Add", "Sub", "Mul", "Div", "Rem", "BitXor", "BitAnd", "BitOr", "Shl", "Shr",
           "Eq", "Lt", "Le", "Ne", "Ge", "Gt", "Cmp", "Offset",
           "AddWithOverflow", "SubWithOverflow", "MulWithOverflow",
           "AddUnchecked", "SubUnchecked", "MulUnchecked", "ShlUnchecked", "ShrUnchecked"}
_UNOPS = {"Not", "Neg", "PtrMetadata"}


def parse_place(s):
    s = s.strip()
    m = re.fullmatch(r"_(\d+)", s)
    if m:
        return Place(s)
    # trailing index projection  P[_n]  /  P[n of m]
    if s.endswith("]") and not s.startswith("["):
        depth = 0
        for i in range(len(s) - 1, -1, -1):
            c = s[i]
            if c in CLOSE:
                depth += 1
            elif c in OPEN:
                depth -= 1
                if depth == 0:
                    break
        inner = s[i + 1:-1]
        base = parse_place(s[:i])
        mm = re.fullmatch(r"_(\d+)", inner)
        if mm:
            return Place(base.local, base.proj + (("index", inner),))
        mm = re.fullmatch(r"(\d+) of (\d+)", inner)
        if mm:
            return Place(base.local, base.proj + (("cindex", int(mm.group(1))),))
        raise MirParseError("index projection: " + s)
    if s.startswith("(") and match_close(s, 0) == len(s) - 1:
        inner = s[1:-1].strip()
        if inner.startswith("*"):
            base = parse_place(inner[1:])
            return Place(base.local, base.proj + (("deref",),))
        # (P as Variant)
        # find top-level " as "
        depth = 0
        i = 0
        n = len(inner)
        while i < n:
            c = inner[i]
            if c in OPEN:
                depth += 1
            elif c in CLOSE:
                depth -= 1
            elif depth == 0 and inner.startswith(" as ", i):
                base = parse_place(inner[:i])
                return Place(base.local, base.proj + (("downcast", inner[i + 4:].strip()),))
            elif depth == 0 and c == ".":
                # (P.N: TYPE)
                mm = re.match(r"\.(\d+): ", inner[i:])
                if mm:
                    base = parse_place(inner[:i])
                    ty = inner[i + mm.end():].strip()
                    return Place(base.local, base.proj + (("field", int(mm.group(1)), ty),))
            i += 1
    raise MirParseError("place: " + s)


def parse_operand(s):
    s = s.strip()
    if s.startswith("copy "):
        return Operand("copy", parse_place(s[5:]))
    if s.startswith("move "):
        return Operand("move", parse_place(s[5:]))
    if s.startswith("const "):
        return Operand("const", const=s[6:].strip())
    if s.startswith("no_retag "):
        return parse_operand(s[len("no_retag "):])
    # bare function item / other constant printed without `const`
    return Operand("const", const=s)


def _is_operand(s):
    return s.startswith(("copy ", "move ", "const ", "no_retag "))


def parse_rvalue(s):
    s = s.strip()
    if s.startswith("&raw "):
        rest = s[5:]
        rest = re.sub(r"^(const|mut) ", "", rest)
        return Rvalue("ref", parse_place(rest), True)
    if s.startswith("&"):
        rest = s[1:]
        mut = False
        if rest.startswith("mut "):
            mut, rest = True, rest[4:]
        rest = re.sub(r"^(fake shallow |fake |two_phase )", "", rest)
        if rest.startswith("("):
            pass
        return Rvalue("ref", parse_place(rest), mut)
    m = re.match(r"([A-Za-z]+)\(", s)
    if m and match_close(s, m.end() - 1) == len(s) - 1:
        op = m.group(1)
        inner = s[m.end():-1]
        if op in _BINOPS:
            a, b = split_top(inner)
            return Rvalue("binop", op, parse_operand(a), parse_operand(b))
        if op in _UNOPS:
            return Rvalue("unop", op, parse_operand(inner))
        if op == "discriminant":
            return Rvalue("discriminant", parse_place(inner))
        if op == "Len":
            return Rvalue("len", parse_place(inner))
    if _is_operand(s):
        # cast?  "<operand> as <ty> (Kind)"
        mm = re.fullmatch(r"(.*) as (.*) \((\w+(?:\([^)]*\))?)\)", s)
        if mm and _is_operand(mm.group(1)):
            try:
                return Rvalue("cast", parse_operand(mm.group(1)), mm.group(2).strip(), mm.group(3))
            except MirParseError:
                pass
        return Rvalue("use", parse_operand(s))
    if s.startswith("[") and s.endswith("]"):
        inner = s[1:-1]
        parts = split_top(inner, ";")
        if len(parts) == 2:
            return Rvalue("repeat", parse_operand(parts[0]), parts[1])
        return Rvalue("array", [parse_operand(x) for x in split_top(inner)])
    if s.startswith("(") and s.endswith(")") and match_close(s, 0) == len(s) - 1:
        inner = s[1:-1].strip()
        if inner == "":
            return Rvalue("tuple", [])
        return Rvalue("tuple", [parse_operand(x) for x in split_top(inner)])
    if s.startswith("{closure@") or s.startswith("{coroutine@"):
        j = match_close(s, 0)
        loc = s[:j + 1]
        rest = s[j + 1:].strip()
        ops = []
        if rest.startswith("("):
            ops = [parse_operand(x) for x in split_top(rest[1:-1])]
        elif rest.startswith("{"):
            for part in split_top(rest[1:-1]):
                _, _, op = part.partition(":")
                ops.append(parse_operand(op))
        return Rvalue("closure", loc, ops)
    # ADT aggregate: Path { f: op, .. } | Path(op, ..) | Path
    if s.endswith("}"):
        # find the opening brace of the trailing group
        depth = 0
        for i in range(len(s) - 1, -1, -1):
            c = s[i]
            if c in CLOSE:
                depth += 1
            elif c in OPEN:
                depth -= 1
                if depth == 0:
                    break
        path = s[:i].strip()
        fields = []
        names = []
        for part in split_top(s[i + 1:-1]):
            nm, _, op = part.partition(":")
            names.append(nm.strip())
            fields.append(parse_operand(op))
        return Rvalue("adt", path, fields, names)
    if s.endswith(")"):
        depth = 0
        for i in range(len(s) - 1, -1, -1):
            c = s[i]
            if c in CLOSE:
                depth += 1
            elif c in OPEN:
                depth -= 1
                if depth == 0:
                    break
        path = s[:i].strip()
        fields = [parse_operand(x) for x in split_top(s[i + 1:-1])]
        return Rvalue("adt", path, fields, None)
    if re.match(r"[A-Za-z_<]", s):
        return Rvalue("adt", s, [], None)
    raise MirParseError("rvalue: " + s)


# ----------------------------------------------------------------- statements / terminators

def _find_assign(s):
    """index of the top-level ' = ' separating place and rvalue, or -1."""
    depth = 0
    i = 0
    n = len(s)
    while i < n:
        c = s[i]
        if c == '"':
            return -1
        if c in OPEN:
            depth += 1
        elif c in CLOSE:
            depth -= 1
        elif depth == 0 and s.startswith(" = ", i):
            return i
        i += 1
    return -1


def _split_arrow(s):
    """Split 'X -> Y' at the last top-level ' -> ' (outside brackets/strings)."""
    depth = 0
    i = 0
    n = len(s)
    last = -1
    while i < n:
        c = s[i]
        if c == '"':
            i = _skip_string(s, i)
            continue
        if c == "'":
            m = _CHAR_LIT.match(s, i)
            if m:
                i = m.end()
                continue
        if c in OPEN:
            depth += 1
        elif c in CLOSE:
            depth -= 1
        elif depth == 0 and s.startswith(" -> ", i):
            last = i
        i += 1
    if last < 0:
        return s, None
    return s[:last], s[last + 4:]


def _targets(arrow):
    """'[return: bb1, unwind unreachable]' | 'unwind unreachable' | 'bb3' -> target bb or None."""
    if arrow is None:
        return None
    arrow = arrow.strip()
    if arrow.startswith("["):
        for part in split_top(arrow[1:-1]):
            k, _, v = part.partition(":")
            if k.strip() in ("return", "success"):
                return v.strip()
        return None
    m = re.fullmatch(r"bb\d+", arrow)
    if m:
        return arrow
    return None


def parse_call(text):
    """'FUNC(ARGS)' -> (func_text, [operands])"""
    text = text.strip()
    if not text.endswith(")"):
        raise MirParseError("call: " + text)
    # scan forward to find the '(' whose matching ')' is the last char, at depth 0
    i = 0
    n = len(text)
    depth = 0
    while i < n:
        c = text[i]
        if c == '"':
            i = _skip_string(text, i)
            continue
        if c == "'":
            m = _CHAR_LIT.match(text, i)
            if m:
                i = m.end()
                continue
        if c in OPEN:
            if depth == 0 and c == "(":
                j = match_close(text, i)
                if j == n - 1:
                    func = text[:i].strip()
                    args = [parse_operand(x) for x in rejoin_angle(split_top(text[i + 1:j]))]
                    return func, args
                i = j + 1
                continue
            depth += 1
        elif c in CLOSE:
            depth -= 1
        i += 1
    raise MirParseError("call: " + text)


def parse_line(line, blk):
    s = line.strip()
    if not s.endswith(";"):
        raise MirParseError("line without ';': " + s)
    s = s[:-1]
    if s in ("return", "unreachable", "nop", "resume", "abort", "terminate(abi)", "terminate(cleanup)"):
        if s == "nop":
            blk.stmts.append(Stmt("nop", text=s))
        else:
            blk.term = Term(s if s in ("return", "unreachable") else "abort", s)
        return
    if s.startswith(("StorageLive(", "StorageDead(", "ConstEvalCounter", "FakeRead(", "PlaceMention(",
                     "AscribeUserType(", "Retag(", "Coverage", "BackwardIncompatibleDropHint(", "Deinit(")):
        blk.stmts.append(Stmt("nop", text=s))
        return
    if s.startswith("goto -> "):
        blk.term = Term("goto", s, target=s[8:].strip())
        return
    if s.startswith("switchInt("):
        j = match_close(s, len("switchInt"))
        op = parse_operand(s[len("switchInt("):j])
        arrow = s[j + 1:].strip()
        assert arrow.startswith("-> [")
        targets, otherwise = [], None
        for part in split_top(arrow[4:-1]):
            k, _, v = part.partition(":")
            k, v = k.strip(), v.strip()
            if k == "otherwise":
                otherwise = v
            else:
                targets.append((int(k), v))
        blk.term = Term("switch", s, op=op, targets=targets, otherwise=otherwise)
        return
    if s.startswith("assert("):
        j = match_close(s, len("assert"))
        inner = split_top(s[len("assert("):j])
        cond = inner[0]
        neg = False
        if cond.startswith("!"):
            neg, cond = True, cond[1:]
        msg = inner[1] if len(inner) > 1 else ""
        target = _targets(s[j + 1:].strip()[3:])
        blk.term = Term("assert", s, cond=parse_operand(cond), neg=neg, msg=msg, target=target)
        return
    if s.startswith("drop("):
        j = match_close(s, len("drop"))
        target = _targets(s[j + 1:].strip()[3:])
        blk.term = Term("drop", s, place=parse_place(s[5:j]), target=target)
        return
    if s.startswith("discriminant(") and " = " in s:
        j = match_close(s, len("discriminant"))
        blk.stmts.append(Stmt("setdiscr", parse_place(s[len("discriminant("):j]),
                              int(s[j + 1:].split("=")[1].strip()), s))
        return
    k = _find_assign(s)
    if k < 0:
        # diverging call without destination?  e.g. "panic_fmt(..) -> unwind unreachable"
        body, arrow = _split_arrow(s)
        if arrow is not None:
            func, args = parse_call(body)
            blk.term = Term("call", s, dest=None, func=func, args=args, target=_targets(arrow))
            return
        raise MirParseError("statement: " + s)
    lhs, rhs = s[:k], s[k + 3:]
    body, arrow = _split_arrow(rhs)
    if arrow is not None and (arrow.startswith("[") or arrow.startswith("unwind") or re.fullmatch(r"bb\d+", arrow)):
        func, args = parse_call(body)
        blk.term = Term("call", s, dest=parse_place(lhs), func=func, args=args, target=_targets(arrow))
        return
    blk.stmts.append(Stmt("assign", parse_place(lhs), parse_rvalue(rhs), s))


# ----------------------------------------------------------------- top level

_FN_HDR = re.compile(r"^fn (.*) \{$")
_LET = re.compile(r"^\s*let (?:mut )?(_\d+): (.*);$")
_DEBUG = re.compile(r"^\s*debug (\w+) => (_\d+);$")
_BB = re.compile(r"^\s*(bb\d+)(?: \(cleanup\))?: \{$")
_CONST1 = re.compile(r"^(?:const|static(?: mut)?) (.*): ([^:]*(?:::[^:]+)*) = const (.*);$")
_CONSTB = re.compile(r"^(?:const|static(?: mut)?) (.*): ([^:]*(?:::[^:]+)*) = \{$")


def _parse_header(h):
    """'NAME(ARGS) -> RET' -> name, [(local, ty)], ret"""
    # the argument list starts at the first '(' directly followed by '_1:' or ')'
    m = re.search(r"\((?=_1: |\) -> |\)$)", h)
    if not m:
        raise MirParseError("fn header: " + h)
    name = h[:m.start()]
    j = match_close(h, m.start())
    argtxt = h[m.start() + 1:j]
    rest = h[j + 1:].strip()
    ret = rest[3:].strip() if rest.startswith("->") else "()"
    args = []
    for a in split_top_angle(argtxt):
        loc, _, ty = a.partition(": ")
        args.append((loc.strip(), ty.strip()))
    return name, args, ret


def parse_mir(text, keep=None):
    """Parse a whole dump.  `keep(name) -> bool` limits which fn bodies are parsed in full
    (the rest are indexed by name only) — dumps are tens of thousands of lines."""
    mir = Mir()
    lines = text.split("\n")
    i = 0
    n = len(lines)
    ctfe = False
    while i < n:
        line = lines[i]
        if line.startswith("// MIR FOR CTFE"):
            ctfe = True
            i += 1
            continue
        m = _CONST1.match(line)
        if m:
            mir.consts[m.group(1)] = (m.group(2), m.group(3))
            i += 1
            continue
        mc = _CONSTB.match(line)
        mf = _FN_HDR.match(line) if not mc else None
        if mc or mf:
            if mc:
                fn = Fn(mc.group(1), [], mc.group(2), line)
            else:
                name, args, ret = _parse_header(mf.group(1))
                fn = Fn(name, args, ret, line)
            fn.ctfe = ctfe
            fn.line = i + 1
            ctfe = False
            # collect body lines up to the closing "}" at column 0
            j = i + 1
            while j < n and lines[j] != "}":
                j += 1
            body = lines[i + 1:j]
            want = keep is None or keep(fn.name) or mc is not None
            fn.parsed = False
            fn.error = None
            if want:
                try:
                    _parse_body(fn, body)
                except (MirParseError, AssertionError, ValueError, IndexError) as e:
                    fn.error = "%s: %s" % (type(e).__name__, e)
                    if mc is not None:
                        fn.parsed = False
            if mc:
                mir.consts[fn.name] = (fn.ret, fn)
            else:
                mir.fns.setdefault(fn.name, []).append(fn)
                if fn.args:
                    t0 = fn.args[0][1]
                    mm = re.search(r"\{closure@[^}]*\}", t0)
                    if mm and "{closure#" in fn.name:
                        mir.closures.setdefault(mm.group(0), fn)
            i = j + 1
            continue
        i += 1
    return mir


def _parse_body(fn, body):
    for a, t in fn.args:
        fn.locals[a] = t
    blk = None
    for line in body:
        m = _LET.match(line)
        if m and blk is None:
            fn.locals[m.group(1)] = m.group(2)
            continue
        if blk is None:
            md = _DEBUG.match(line)
            if md:
                fn.debug.setdefault(md.group(1), md.group(2))
                continue
        m = _BB.match(line)
        if m:
            blk = Block(m.group(1))
            fn.blocks[blk.name] = blk
            fn.order.append(blk.name)
            continue
        s = line.strip()
        if blk is not None:
            if s == "}":
                blk = None
                continue
            if s == "" or s.startswith("//"):
                continue
            parse_line(line, blk)
        # scope / debug lines outside blocks are ignored
    fn.locals.setdefault("_0", fn.ret)
    fn.parsed = True
