"""Shared plumbing for the E1 checks: MIR dumps from /repo's current tree, source-derived
enum/impl tables, solver front end (z3 in-process decides; z3 4.8.12 and cvc5 binaries re-decide
the exported SMT-LIB2 text), timing."""
import glob
import hashlib
import json
import os
import re
import shutil
import subprocess
import sys
import time

import z3

from . import mirparse
from .symexec import strip_generics

REPO = os.environ.get("VERIF_REPO", "/repo")
VERIF = os.path.dirname(os.path.dirname(os.path.abspath(__file__)))
BUILD = os.path.join(VERIF, ".build")


def now():
    with open("/proc/uptime") as f:
        return float(f.read().split()[0])


class Inconclusive(Exception):
    pass


# ----------------------------------------------------------------- MIR dumps

def _src_key(extra=""):
    h = hashlib.sha256()
    files = sorted(glob.glob(os.path.join(REPO, "src", "**", "*.rs"), recursive=True))
    files += [os.path.join(REPO, "Cargo.toml"), os.path.join(REPO, "Cargo.lock")]
    for f in files:
        h.update(f.encode())
        with open(f, "rb") as fh:
            h.update(fh.read())
    h.update(extra.encode())
    return h.hexdigest()[:24]


def _cargo_env():
    env = dict(os.environ)
    env["CARGO_NET_OFFLINE"] = "true"
    env.pop("RUSTFLAGS", None)
    env.pop("RUSTUP_TOOLCHAIN", None)
    return env


def dump_mir(which):
    """which: 'lib' | 'bin'.  Returns the MIR text for /repo's *current* sources.
    The dump is cached under .build keyed by a hash of every source file, Cargo.toml and Cargo.lock."""
    os.makedirs(BUILD, exist_ok=True)
    key = _src_key(which)
    out = os.path.join(BUILD, "%s-%s.mir" % (which, key))
    if os.path.exists(out) and os.path.getsize(out) > 1000:
        return open(out).read(), out, 0.0
    for old in glob.glob(os.path.join(BUILD, "%s-*.mir" % which)):
        os.remove(old)
    tdir = os.path.join(BUILD, "mir-" + which)
    # force rustc to run again for the copia crate without touching /repo
    for fp in glob.glob(os.path.join(tdir, "debug", ".fingerprint", "copia-*")):
        shutil.rmtree(fp, ignore_errors=True)
    if which == "lib":
        cmd = ["cargo", "+nightly", "rustc", "--offline", "--lib", "--no-default-features", "--features", "async",
               "--target-dir", tdir, "--", "-Zunpretty=mir", "-C", "overflow-checks=on", "-C", "debug-assertions=on"]
    else:
        cmd = ["cargo", "+nightly", "rustc", "--offline", "--bin", "copia", "--features", "cli",
               "--target-dir", tdir, "--", "-Zunpretty=mir", "-C", "overflow-checks=on", "-C", "debug-assertions=on"]
    t0 = now()
    p = subprocess.run(cmd, cwd=REPO, env=_cargo_env(), stdout=subprocess.PIPE, stderr=subprocess.PIPE, text=True)
    if p.returncode != 0 or len(p.stdout) < 1000:
        raise Inconclusive("MIR dump failed (%s): %s" % (which, p.stderr[-2000:]))
    with open(out, "w") as f:
        f.write(p.stdout)
    return p.stdout, out, now() - t0


_ENUM_RE = re.compile(r"\benum\s+(\w+)\s*(?:<[^>{]*>)?\s*\{")


def source_enums():
    """{EnumName: {Variant: discriminant}} parsed from /repo/src (regenerated every run)."""
    out, clash = {}, set()
    for f in sorted(glob.glob(os.path.join(REPO, "src", "**", "*.rs"), recursive=True)):
        if f.endswith("generated_contracts.rs"):
            continue
        txt = open(f).read()
        txt = re.sub(r"//[^\n]*", "", txt)
        for m in _ENUM_RE.finditer(txt):
            name = m.group(1)
            i = m.end()
            depth, j = 1, i
            while j < len(txt) and depth:
                if txt[j] in "{([":
                    depth += 1
                elif txt[j] in "})]":
                    depth -= 1
                j += 1
            body = txt[i:j - 1]
            body = re.sub(r"#\[[^\]]*\]", "", body)
            variants, nxt = {}, 0
            for part in mirparse.split_top(body):
                mm = re.match(r"\s*(\w+)", part)
                if not mm:
                    continue
                d = re.search(r"=\s*(0x[0-9a-fA-F]+|\d+)\s*$", part)
                if d:
                    nxt = int(d.group(1), 0)
                variants[mm.group(1)] = nxt
                nxt += 1
            if name in out and out[name] != variants:
                clash.add(name)
            out[name] = variants
    for c in clash:
        out.pop(c, None)
    return out


_IMPL_AT = re.compile(r"<impl at ([^:>]+):(\d+):(\d+): (\d+):(\d+)>")
_IMPL_LINE = re.compile(r"^\s*(?:unsafe\s+)?impl(?:\s*<[^>]*>)?\s+(?:([\w:]+)(?:<[^>]*>)?\s+for\s+)?([\w:]+)")


def impl_index(mir):
    """Map call-site names (`Type::method`, `<Type as Trait>::method`) to definition names."""
    idx = {}
    cache = {}
    for name in mir.fns:
        m = _IMPL_AT.search(name)
        if not m:
            continue
        path, line = m.group(1), int(m.group(2))
        if path not in cache:
            try:
                cache[path] = open(os.path.join(REPO, path)).read().split("\n")
            except OSError:
                cache[path] = []
        lines = cache[path]
        if line - 1 >= len(lines):
            continue
        mm = _IMPL_LINE.match(lines[line - 1])
        if not mm:
            # #[derive(Trait, ..)] at (line, col): the trait is the identifier at `col`, the type is the next item
            src = lines[line - 1]
            col = int(m.group(3)) - 1
            dm = re.match(r"\w+", src[col:]) if "derive" in src else None
            tname = None
            for l2 in lines[line:line + 12]:
                t2 = re.match(r"\s*(?:pub(?:\([^)]*\))?\s+)?(?:struct|enum|union)\s+(\w+)", l2)
                if t2:
                    tname = t2.group(1)
                    break
            if not dm or not tname:
                continue
            method = name[m.end():]
            if method.startswith("::") and "::" not in method[2:]:
                idx["<%s as %s>::%s" % (tname, dm.group(0), method[2:])] = name
            continue
        trait, ty = mm.group(1), mm.group(2).split("::")[-1]
        if not trait:
            idx["#impl:" + m.group(0)] = ty
        method = name[m.end():]
        if not method.startswith("::"):
            continue
        method = method[2:]
        if "::" in method:      # closures / nested items
            continue
        if trait:
            key = "<%s as %s>::%s" % (ty, trait.split("::")[-1], method)
        else:
            key = "%s::%s" % (ty, method)
        idx[key] = name
    return idx


def load(which, keep):
    text, path, dt = dump_mir(which)
    mir = mirparse.parse_mir(text, keep)
    return mir, path, dt


# ----------------------------------------------------------------- solvers

class SolverStats:
    def __init__(self):
        self.queries = 0
        self.time = {"z3py": 0.0, "z3-4.8.12": 0.0, "cvc5": 0.0}
        self.cross = {"confirmed": 0, "unconfirmed": 0, "disagree": 0}
        self.log = []


STATS = SolverStats()


def decide(assumes, formula, timeout_s=60, want_model=True):
    """Is `assumes /\\ formula` satisfiable?  -> ('sat', model) | ('unsat', None) | ('unknown', reason)"""
    s = z3.Solver()
    s.set("timeout", int(timeout_s * 1000))
    for a in assumes:
        s.add(a)
    s.add(formula)
    t0 = now()
    r = s.check()
    dt = now() - t0
    STATS.queries += 1
    STATS.time["z3py"] += dt
    if r == z3.sat:
        return "sat", s.model(), s
    if r == z3.unsat:
        return "unsat", None, s
    return "unknown", s.reason_unknown(), s


def _run_ext(cmd, text, timeout_s):
    try:
        p = subprocess.run(cmd, input=text, stdout=subprocess.PIPE, stderr=subprocess.PIPE, text=True,
                           timeout=timeout_s + 5)
    except subprocess.TimeoutExpired:
        return "timeout"
    out = p.stdout.strip().split("\n")
    if any("(error" in l for l in out) or "(error" in p.stderr:
        return "error: " + (p.stdout + p.stderr)[:200]
    for l in out:
        if l in ("sat", "unsat", "unknown"):
            return l
    return "noanswer"


def cross_check(solver, expect, timeout_s=30, which=("cvc5", "z3-4.8.12"), first_only=True):
    """Re-decide the query of `solver` (a z3.Solver already holding the assertions) with external binaries
    on the exported SMT-LIB2 text.  Returns dict name->answer; raises Inconclusive on sat/unsat disagreement."""
    text = solver.to_smt2()
    res = {}
    for w in which:
        t0 = now()
        if w == "z3-4.8.12":
            r = _run_ext(["/usr/bin/z3", "-in", "-T:%d" % int(timeout_s)], text, timeout_s)
        else:
            r = _run_ext(["cvc5", "--lang", "smt2", "--tlimit=%d" % int(timeout_s * 1000)],
                         "(set-logic ALL)\n" + text, timeout_s)
        STATS.time[w] += now() - t0
        res[w] = r
        if r in ("sat", "unsat") and r != expect:
            STATS.cross["disagree"] += 1
            raise Inconclusive("solver disagreement: z3py says %s, %s says %s" % (expect, w, r))
        if first_only and r == expect:
            break
    if any(r == expect for r in res.values()):
        STATS.cross["confirmed"] += 1
    else:
        STATS.cross["unconfirmed"] += 1
    return res


def model_int(model, term):
    v = model.eval(term, model_completion=True)
    return v.as_long()


def model_bool(model, term):
    return z3.is_true(model.eval(term, model_completion=True))
