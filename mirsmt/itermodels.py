"""A small lazy-iterator algebra for the encoder.

An iterator value is VStruct("It", [VOpaque(payload)]) where payload is a python list of (cond, value) pairs:
the potential elements in order, element i existing iff cond_i (a z3 Bool).  Base iterators (slices, Vec<record>,
chunks, Path::components, BTreeMap keys) are converted on demand; adaptors (map, filter, take_while, filter_map,
enumerate, chain, take, skip) transform the list with the closure executed from its own MIR under the element's
condition; consumers (any, all, find, position, count, sum, collect, next, last) fold it.
Everything is bounded by the capacities the obligation installed (ex.cand_cap / ex.str_cap / list lengths) with a
model-bound obligation where a symbolic length could exceed them.
"""
import re
import z3

from .symexec import (VInt, VBool, VStruct, VEnum, VRef, VOpaque, VSeq, VList, UNIT, Unsupported, I, simp, merge, list_get)
from .stdmodels import opt_sym, some, none, call_closure
from . import stdmodels


class _Elems:
    """opaque payload holder (so that generic value merging does not look inside)"""
    __slots__ = ("items", "pos")

    def __init__(self, items, pos=None):
        self.items = items        # [(cond, value)]
        self.pos = pos if pos is not None else I(0)   # number of *slots* already consumed by next()

    def merge_with(self, g, other):
        if not isinstance(other, _Elems) or len(other.items) != len(self.items):
            raise Unsupported("merge of different iterator values")
        items = []
        for (c1, v1), (c2, v2) in zip(self.items, other.items):
            c = c1 if (c1 is c2 or c1.eq(c2)) else z3.If(g, c1, c2)
            items.append((c, merge(g, v1, v2)))
        pos = self.pos if (self.pos is other.pos or self.pos.eq(other.pos)) else z3.If(g, self.pos, other.pos)
        return _Elems(items, pos)


def mk_it(items, pos=None):
    return VStruct("It", [VOpaque(_Elems(items, pos))])


def is_it(v):
    return isinstance(v, VStruct) and v.name == "It"


def deep(ex, st, v):
    while isinstance(v, VRef):
        v = ex.deref(st, v)
    return v


def closure_of(v):
    if isinstance(v, VOpaque) and isinstance(v.what, tuple) and v.what[0] == "const":
        m = re.search(r"\{closure@[^}]*\}", str(v.what[1]))
        if m:
            return VStruct(m.group(0), [])
    return v


def apply_fn(ex, st, f, args, where):
    f = closure_of(f)
    if isinstance(f, VOpaque) and isinstance(f.what, tuple) and f.what[0] == "const":
        return ex.call(st, None, f.what[1], list(args), None, where)      # function item (e.g. DeltaOp::output_len)
    return call_closure(ex, st, f, list(args), where)


def pure(ex, st, guard, fn):
    s2 = st.fork(simp(z3.And(st.guard, guard)))
    if z3.is_false(s2.guard):
        return None
    return fn(s2)


def cap_of(ex, s, where, st):
    if isinstance(s, VList):
        return len(s.items)
    cap = max(getattr(ex, "cand_cap", 0), getattr(ex, "str_cap", 0), getattr(ex, "sort_cap", 0), 1)
    if z3.is_int_value(simp(s.len)):
        return simp(s.len).as_long()
    ex.oblig("model-bound", where, "sequence longer than the model capacity %d" % cap, z3.And(st.guard, s.len > cap))
    return cap


def elements(ex, st, it, where):
    """-> list of (cond, value) for any supported iterator value (consumed prefix removed)"""
    it = deep(ex, st, it)
    if is_it(it):
        e = it.f[0].what
        if z3.is_int_value(simp(e.pos)):
            return e.items[simp(e.pos).as_long():]
        return [(simp(z3.And(c, i >= e.pos)), v) for i, (c, v) in enumerate(e.items)]
    if isinstance(it, VStruct) and it.name == "SliceIter":
        s, idx = it.f
        cap = cap_of(ex, s, where, st)
        out = []
        for i in range(cap):
            c = simp(z3.And(i >= idx.t, i < s.len))
            if z3.is_false(c):
                continue
            if isinstance(s, VSeq):
                v = VRef("val", val=VInt(s.at(I(i)), s.elem))
            else:
                v = VRef("val", val=s.items[i])
            out.append((c, v))
        return out
    if isinstance(it, VStruct) and it.name == "PyIter":
        return [(z3.BoolVal(True), v) for v in it.f]
    if isinstance(it, VStruct) and it.name == "Enumerate":
        inner = elements(ex, st, it.f[0], where)
        return _enumerate(inner, it.f[1].t)
    if isinstance(it, VStruct) and it.name == "Components":
        from .stdmodels import COMPONENT
        s, pos = it.f[0], it.f[1].t
        cap = ex.str_cap
        SL = ord("/")
        out = []
        for _ in range((cap + 1) // 2 + 1):
            start = s.len
            for j in reversed(range(cap)):
                start = z3.If(z3.And(j >= pos, j < s.len, s.at(I(j)) != SL), I(j), start)
            start = simp(start)
            has = simp(start < s.len)
            end = s.len
            for j in reversed(range(cap)):
                end = z3.If(z3.And(j > start, j < s.len, s.at(I(j)) == SL), I(j), end)
            end = simp(end)
            comp = VSeq(s.arr, simp(s.off + start), simp(end - start), s.elem)
            out.append((has, VEnum("Component", I(COMPONENT["Normal"]), {COMPONENT["Normal"]: [VRef("val", val=comp)]})))
            pos = simp(z3.If(has, end, s.len))
        return out
    if isinstance(it, VStruct) and it.name == "MapKeys":
        entries = it.f[0].f[0].items
        idx = it.f[1].t
        return [(simp(z3.And(j >= idx, e.f[0].t)), VRef("val", val=VInt(I(j), "usize"))) for j, e in enumerate(entries)]
    if isinstance(it, VStruct) and it.name == "MapIter":
        entries = it.f[0].f[0].items
        idx = it.f[1].t
        return [(simp(z3.And(j >= idx, e.f[0].t)), VStruct("(tuple)", [VRef("val", val=VInt(I(j), "usize")), VRef("val", val=e.f[1])]))
                for j, e in enumerate(entries)]
    if isinstance(it, VStruct) and it.name == "Map" and len(it.f) == 2:       # lazy map of deltamodels
        out = []
        for c, v in elements(ex, st, it.f[0], where):
            r = pure(ex, st, c, lambda s2, v=v: apply_fn(ex, s2, it.f[1], [v], where))
            if r is not None:
                out.append((c, r))
        return out
    if isinstance(it, VStruct) and it.name == "FilterMap" and len(it.f) == 2:
        out = []
        for c, v in elements(ex, st, it.f[0], where):
            r = pure(ex, st, c, lambda s2, v=v: apply_fn(ex, s2, it.f[1], [v], where))
            if r is not None and 1 in r.pay:
                out.append((simp(z3.And(c, r.discr == 1)), r.pay[1][0]))
        return out
    if isinstance(it, VStruct) and it.name == "Chain":
        return elements(ex, st, it.f[0], where) + elements(ex, st, it.f[1], where)
    raise Unsupported("iterator adaptor over %r" % (it,))


def _enumerate(items, start=None):
    out = []
    n = start if start is not None else I(0)
    for c, v in items:
        out.append((c, VStruct("(tuple)", [VInt(simp(n), "usize"), v])))
        n = simp(z3.If(c, n + 1, n))
    return out


# ---- adaptors

def _map(ex, st, args, dest_ty, func, where):
    f = args[1]
    out = []
    for c, v in elements(ex, st, args[0], where):
        r = pure(ex, st, c, lambda s2, v=v: apply_fn(ex, s2, f, [v], where))
        if r is not None:
            out.append((c, r))
    return mk_it(out)


def _filter(ex, st, args, dest_ty, func, where):
    p = args[1]
    out = []
    for c, v in elements(ex, st, args[0], where):
        r = pure(ex, st, c, lambda s2, v=v: apply_fn(ex, s2, p, [VRef("val", val=v)], where))
        if r is not None:
            out.append((simp(z3.And(c, r.t)), v))
    return mk_it(out)


def _take_while(ex, st, args, dest_ty, func, where):
    p = args[1]
    out = []
    alive = z3.BoolVal(True)
    for c, v in elements(ex, st, args[0], where):
        r = pure(ex, st, z3.And(c, alive), lambda s2, v=v: apply_fn(ex, s2, p, [VRef("val", val=v)], where))
        ok = r.t if r is not None else z3.BoolVal(False)
        out.append((simp(z3.And(c, alive, ok)), v))
        alive = simp(z3.And(alive, z3.Or(z3.Not(c), ok)))
    return mk_it(out)


def _skip_while(ex, st, args, dest_ty, func, where):
    p = args[1]
    out = []
    skipping = z3.BoolVal(True)
    for c, v in elements(ex, st, args[0], where):
        r = pure(ex, st, z3.And(c, skipping), lambda s2, v=v: apply_fn(ex, s2, p, [VRef("val", val=v)], where))
        ok = r.t if r is not None else z3.BoolVal(False)
        still = simp(z3.And(skipping, z3.Or(z3.Not(c), ok)))
        out.append((simp(z3.And(c, z3.Not(z3.And(skipping, ok)))), v))
        skipping = still
    return mk_it(out)


def _filter_map(ex, st, args, dest_ty, func, where):
    f = args[1]
    out = []
    for c, v in elements(ex, st, args[0], where):
        r = pure(ex, st, c, lambda s2, v=v: apply_fn(ex, s2, f, [v], where))
        if r is None or 1 not in r.pay:
            continue
        out.append((simp(z3.And(c, r.discr == 1)), r.pay[1][0]))
    return mk_it(out)


def _enumerate_ad(ex, st, args, dest_ty, func, where):
    return mk_it(_enumerate(elements(ex, st, args[0], where)))


def _chain(ex, st, args, dest_ty, func, where):
    return mk_it(elements(ex, st, args[0], where) + elements(ex, st, args[1], where))


def _take(ex, st, args, dest_ty, func, where):
    n = args[1].t
    out = []
    k = I(0)
    for c, v in elements(ex, st, args[0], where):
        out.append((simp(z3.And(c, k < n)), v))
        k = simp(z3.If(c, k + 1, k))
    return mk_it(out)


def _skip(ex, st, args, dest_ty, func, where):
    n = args[1].t
    out = []
    k = I(0)
    for c, v in elements(ex, st, args[0], where):
        out.append((simp(z3.And(c, k >= n)), v))
        k = simp(z3.If(c, k + 1, k))
    return mk_it(out)


def _rev(ex, st, args, dest_ty, func, where):
    return mk_it(list(reversed(elements(ex, st, args[0], where))))


def _copied(ex, st, args, dest_ty, func, where):
    return mk_it([(c, deep(ex, st, v)) for c, v in elements(ex, st, args[0], where)])


def _flat_map(ex, st, args, dest_ty, func, where):
    f = args[1]
    out = []
    for c, v in elements(ex, st, args[0], where):
        r = pure(ex, st, c, lambda s2, v=v: apply_fn(ex, s2, f, [v], where))
        if r is None:
            continue
        for c2, v2 in elements(ex, st, r, where):
            out.append((simp(z3.And(c, c2)), v2))
    return mk_it(out)


def _chunk_by(ex, st, args, dest_ty, func, where):
    """<[T]>::chunk_by(pred): maximal runs of consecutive elements for which pred(prev, next) holds.
    Element j of the result exists iff position j starts a run; its value is the run as a list view."""
    s = deep(ex, st, args[0])
    pred = args[1]
    if not isinstance(s, VList):
        raise Unsupported("chunk_by on %r" % (s,))
    n = len(s.items)
    # boundary[j] (j >= 1): pred(items[j-1], items[j]) is false
    same = [None] * n
    for j in range(1, n):
        r = pure(ex, st, j < s.len, lambda s2, j=j: apply_fn(ex, s2, pred, [VRef("val", val=s.items[j - 1]), VRef("val", val=s.items[j])], where))
        same[j] = r.t if r is not None else z3.BoolVal(False)
    out = []
    for j in range(n):
        starts = z3.And(j < s.len, z3.BoolVal(True) if j == 0 else z3.Not(same[j]))
        # run length: 1 + number of consecutive `same` after j
        ln = I(1)
        alive = z3.BoolVal(True)
        for k in range(j + 1, n):
            alive = z3.And(alive, k < s.len, same[k])
            ln = ln + z3.If(alive, 1, 0)
        out.append((simp(starts), VRef("val", val=VList(s.items[j:], simp(ln), s.elem))))
    return mk_it(out)


# ---- consumers

def _any_all(ex, st, args, dest_ty, func, where):
    p = args[1]
    is_any = "::any::<" in func
    acc = z3.BoolVal(not is_any)
    for c, v in reversed(elements(ex, st, args[0], where)):
        r = pure(ex, st, c, lambda s2, v=v: apply_fn(ex, s2, p, [v], where))
        if r is None:
            continue
        acc = z3.Or(z3.And(c, r.t), acc) if is_any else z3.And(z3.Implies(c, r.t), acc)
    return VBool(simp(acc))


def _find(ex, st, args, dest_ty, func, where):
    p = args[1]
    result = none()
    for c, v in reversed(elements(ex, st, args[0], where)):
        r = pure(ex, st, c, lambda s2, v=v: apply_fn(ex, s2, p, [VRef("val", val=v)], where))
        if r is None:
            continue
        result = merge(simp(z3.And(c, r.t)), some(v), result)
    return result


def _find_map(ex, st, args, dest_ty, func, where):
    f = args[1]
    result = none()
    for c, v in reversed(elements(ex, st, args[0], where)):
        r = pure(ex, st, c, lambda s2, v=v: apply_fn(ex, s2, f, [v], where))
        if r is None or 1 not in r.pay:
            continue
        result = merge(simp(z3.And(c, r.discr == 1)), some(r.pay[1][0]), result)
    return result


def _position(ex, st, args, dest_ty, func, where):
    p = args[1]
    els = elements(ex, st, args[0], where)
    ranks, k = [], I(0)
    for c, v in els:
        ranks.append(k)
        k = simp(z3.If(c, k + 1, k))
    result = none()
    for (c, v), rk in reversed(list(zip(els, ranks))):
        r = pure(ex, st, c, lambda s2, v=v: apply_fn(ex, s2, p, [v], where))
        if r is None:
            continue
        result = merge(simp(z3.And(c, r.t)), some(VInt(rk, "usize")), result)
    return result


def _count(ex, st, args, dest_ty, func, where):
    return VInt(simp(sum([z3.If(c, 1, 0) for c, _ in elements(ex, st, args[0], where)] + [I(0)])), "usize")


def _sum(ex, st, args, dest_ty, func, where):
    m = re.search(r"sum::<(\w+)>", func)
    ty = m.group(1) if m else "u64"
    total = I(0)
    for c, v in elements(ex, st, args[0], where):
        v = deep(ex, st, v)
        total = total + z3.If(c, v.t, 0)
    total = simp(total)
    ex.oblig("panic", where, "sum overflows " + ty, z3.And(st.guard, z3.Not(ex.in_range(total, ty))))
    return VInt(total, ty)


def _last(ex, st, args, dest_ty, func, where):
    result = none()
    for c, v in elements(ex, st, args[0], where):
        result = merge(c, some(v), result)
    return result


def _next(ex, st, args, dest_ty, func, where):
    ref = args[0]
    it = ex.deref(st, ref)
    if not is_it(it):
        raise Unsupported("next on %r" % (it,))
    e = it.f[0].what
    items = e.items
    # first slot >= pos whose condition holds
    n = len(items)
    slot = I(n)
    for i in reversed(range(n)):
        slot = z3.If(z3.And(i >= e.pos, items[i][0]), I(i), slot)
    slot = simp(slot)
    has = simp(slot < n)
    if not items:
        return none()
    val = items[-1][1]
    for i in reversed(range(n - 1)):
        val = merge(simp(slot == i), items[i][1], val)
    ex.store_ref(st, ref, mk_it(items, simp(z3.If(has, slot + 1, I(n)))))
    return opt_sym(has, val)


def _peekable(ex, st, args, dest_ty, func, where):
    return mk_it(elements(ex, st, args[0], where))


def _first_live(e):
    """(slot index term, has, value) of the first element at or after e.pos whose condition holds"""
    items = e.items
    n = len(items)
    slot = I(n)
    for i in reversed(range(n)):
        slot = z3.If(z3.And(i >= e.pos, items[i][0]), I(i), slot)
    slot = simp(slot)
    has = simp(slot < n)
    val = items[-1][1] if items else None
    for i in reversed(range(n - 1)):
        val = merge(simp(slot == i), items[i][1], val)
    return slot, has, val


def _peek(ex, st, args, dest_ty, func, where):
    it = ex.deref(st, args[0])
    if not is_it(it):
        raise Unsupported("peek on %r" % (it,))
    e = it.f[0].what
    if not e.items:
        return none()
    slot, has, val = _first_live(e)
    return opt_sym(has, VRef("val", val=val))


def _next_if(ex, st, args, dest_ty, func, where):
    ref, pred = args
    it = ex.deref(st, ref)
    if not is_it(it):
        raise Unsupported("next_if on %r" % (it,))
    e = it.f[0].what
    if not e.items:
        return none()
    slot, has, val = _first_live(e)
    r = pure(ex, st, has, lambda s2: apply_fn(ex, s2, pred, [VRef("val", val=val)], where))
    ok = simp(z3.And(has, r.t)) if r is not None else z3.BoolVal(False)
    ex.store_ref(st, ref, mk_it(e.items, simp(z3.If(ok, slot + 1, e.pos))))
    return opt_sym(ok, val)


def _collect(ex, st, args, dest_ty, func, where):
    from .deltamodels import vlist_push
    els = elements(ex, st, args[0], where)
    m = re.search(r"collect::<Vec<(.+)>>", func)
    elem = m.group(1) if m else "?"
    scalar = all(isinstance(deep(ex, st, v), VInt) for _, v in els) and els
    if scalar:
        arr = z3.K(z3.IntSort(), I(0))
        n = I(0)
        ety = "usize"
        for c, v in els:
            v = deep(ex, st, v)
            ety = v.ty
            arr = z3.If(c, z3.Store(arr, n, v.t), arr)
            n = simp(z3.If(c, n + 1, n))
        return VSeq(arr, I(0), n, ety)
    lst = VList([], I(0), elem)
    for c, v in els:
        pushed = vlist_push(lst, v)
        same = VList(list(lst.items) + [v], lst.len, lst.elem)
        lst = merge(c, pushed, same) if not z3.is_true(simp(c)) else pushed
    return lst


def _vec_extend(ex, st, args, dest_ty, func, where):
    """<Vec<T> as Extend<T>>::extend(iter): pushes the iterator's elements in order"""
    from .deltamodels import vlist_push
    ref = args[0]
    dst = ex.deref(st, ref)
    els = elements(ex, st, args[1], where)
    if isinstance(dst, VSeq):
        arr, n = dst.arr, dst.len
        for c, v in els:
            v = deep(ex, st, v)
            if not isinstance(v, VInt):
                raise Unsupported("Vec::extend of %r into a scalar vector" % (v,))
            arr = z3.If(c, z3.Store(arr, simp(dst.off + n), v.t), arr)
            n = simp(z3.If(c, n + 1, n))
        ex.store_ref(st, ref, VSeq(arr, dst.off, n, dst.elem))
        return UNIT
    if isinstance(dst, VList):
        lst = dst
        for c, v in els:
            pushed = vlist_push(lst, v)
            same = VList(list(lst.items) + [v], lst.len, lst.elem)
            lst = merge(c, pushed, same) if not z3.is_true(simp(c)) else pushed
        ex.store_ref(st, ref, lst)
        return UNIT
    raise Unsupported("Vec::extend on %r" % (dst,))


def _into_iter_it(ex, st, args, dest_ty, func, where):
    return args[0]


def _fn_call(ex, st, args, dest_ty, func, where):
    """<{closure} as Fn/FnMut/FnOnce<(A,B,..)>>::call*(closure, (a, b, ..))"""
    clos = deep(ex, st, args[0])
    tup = args[1]
    cargs = list(tup.f) if isinstance(tup, VStruct) and tup.name == "(tuple)" else ([] if tup is UNIT or not isinstance(tup, VStruct) else [tup])
    return call_closure(ex, st, clos, cargs, where)


ITER_SRC = r"(?:std::slice::Iter<'_, [^>]*>|std::iter::\w+<.*>|\w+<.*>|std::path::Components<'_>|Components<'_>|std::collections::btree_map::\w+<.*>|std::slice::Chunks<'_, \w+>)"


def _slice_fold(ex, st, args, dest_ty, func, where):
    """slice::Iter::fold(init, closure) over a slice of CONCRETE length: the closure runs from its own MIR once per element"""
    it = args[0]
    while isinstance(it, VRef):
        it = ex.deref(st, it)
    if isinstance(it, VStruct) and it.name == "SliceIter":
        s, start = it.f[0], simp(it.f[1].t)
    else:
        s, start = stdmodels.seq_of(ex, st, it), I(0)
    n = simp(s.len)
    if not (isinstance(s, VSeq) and z3.is_int_value(n) and z3.is_int_value(start)):
        raise Unsupported("fold over a slice of symbolic length")
    acc = args[1]
    for i in range(start.as_long(), n.as_long()):
        acc = call_closure(ex, st, args[2], [acc, VRef("val", val=VInt(s.at(I(i)), s.elem))], where)
        if acc is None:
            return None
    return acc


def _str_bytes(ex, st, args, dest_ty, func, where):
    """str::bytes on a character sequence of ONE-BYTE characters (the obligation assumes ASCII text)"""
    s_ = stdmodels._str_of(ex, st, args[0])
    return VStruct("SliceIter", [VSeq(s_.arr, s_.off, s_.len, "u8"), VInt(I(0), "usize")])


def _zip(ex, st, args, dest_ty, func, where):
    return VStruct("Zip", [args[0], args[1]])


def _zip_fold(ex, st, args, dest_ty, func, where):
    """Zip<A, B>::fold over two slice iterators of symbolic length: min(len) steps, the closure (pure) runs from its MIR"""
    z = args[0]
    while isinstance(z, VRef):
        z = ex.deref(st, z)
    a, b = z.f
    if not all(isinstance(x, VStruct) and x.name == "SliceIter" and isinstance(x.f[0], VSeq) for x in (a, b)):
        raise Unsupported("zip-fold over %r, %r" % (a, b))
    sa, sb = a.f[0], b.f[0]
    cap = max(getattr(ex, "str_cap", 0), getattr(ex, "byte_cap", 0), 1)
    ex.oblig("model-bound", where, "zip: sequences longer than the model capacity %d" % cap, z3.And(st.guard, sa.len > cap, sb.len > cap))
    acc = args[1]
    for i in range(cap):
        live = simp(z3.And(a.f[1].t + i < sa.len, b.f[1].t + i < sb.len))
        if z3.is_false(live):
            break
        item = VStruct("(tuple)", [VInt(sa.at(simp(a.f[1].t + i)), sa.elem), VInt(sb.at(simp(b.f[1].t + i)), sb.elem)])
        nxt = call_closure(ex, st, args[2], [acc, item], where)
        acc = nxt if z3.is_true(live) else merge(live, nxt, acc)
    return acc


def _array_into_iter(ex, st, args, dest_ty, func, where):
    a = args[0]
    while isinstance(a, VRef):
        a = ex.deref(st, a)
    if not (isinstance(a, VStruct) and a.name == "[array]"):
        raise Unsupported("array into_iter on %r" % (a,))
    return VStruct("ArrayIter", [a, VInt(I(0), "usize")])


def _array_iter_next(ex, st, args, dest_ty, func, where):
    """array::IntoIter::next over a concrete-length array of values: the index may be symbolic after a loop merge"""
    from .symexec import merge
    ref = args[0]
    it = ex.deref(st, ref)
    if isinstance(it, VStruct) and it.name == "[array]":
        it = VStruct("ArrayIter", [it, VInt(I(0), "usize")])      # into_iter was the identity model: the iterator is still the array
    arr, idx = it.f[0], it.f[1].t
    n = len(arr.f)
    has = simp(idx < n)
    item = None
    for j in range(n - 1, -1, -1):
        item = arr.f[j] if item is None else merge(simp(idx == j), arr.f[j], item)
    ex.store_ref(st, ref, VStruct("ArrayIter", [arr, VInt(simp(z3.If(has, idx + 1, idx)), "usize")]))
    if item is None:
        return VEnum("Option", I(0), {0: []})
    return opt_sym(has, item)


def install(ex):
    M = []
    M.append((re.compile(r"^<\[.*; \d+\] as IntoIterator>::into_iter$"), _array_into_iter, "<[T; N] as IntoIterator>::into_iter"))
    M.append((re.compile(r"^<std::slice::Iter<'_, \w+> as Iterator>::fold::<"), _slice_fold, "slice::Iter::fold (closure from MIR, concrete length)"))
    M.append((re.compile(r"^core::str::<impl str>::bytes$"), _str_bytes, "str::bytes (one-byte characters)"))
    M.append((re.compile(r"^<(std::str::)?Bytes<'_> as Iterator>::zip::<"), _zip, "Iterator::zip"))
    M.append((re.compile(r"^<(std::iter::)?Zip<(std::str::)?Bytes<'_>, (std::str::)?Bytes<'_>> as Iterator>::fold::<"), _zip_fold, "Zip::fold (min(len) steps, closure from MIR)"))
    M.append((re.compile(r"^<(std|core)::array::IntoIter<.*, \d+> as Iterator>::next$"), _array_iter_next, "array::IntoIter::next"))

    def A(pat, h, label):
        M.append((re.compile(pat), h, label))
    pre = r"^<" + ITER_SRC + r" as Iterator>::"
    A(r"^core::slice::<impl \[[\w:]+\]>::chunk_by::<", _chunk_by, "<[T]>::chunk_by")
    A(r"^<std::slice::ChunkBy<.*> as Iterator>::enumerate$", _enumerate_ad, "ChunkBy::enumerate")
    A(pre + r"map::<", _map, "Iterator::map (closure from MIR)")
    A(pre + r"filter::<", _filter, "Iterator::filter")
    A(pre + r"take_while::<", _take_while, "Iterator::take_while")
    A(pre + r"skip_while::<", _skip_while, "Iterator::skip_while")
    A(pre + r"filter_map::<", _filter_map, "Iterator::filter_map")
    A(pre + r"flat_map::<", _flat_map, "Iterator::flat_map")
    A(pre + r"enumerate$", _enumerate_ad, "Iterator::enumerate")
    A(pre + r"chain::<", _chain, "Iterator::chain")
    A(pre + r"take$", _take, "Iterator::take")
    A(pre + r"skip$", _skip, "Iterator::skip")
    A(pre + r"rev$", _rev, "Iterator::rev")
    A(pre + r"(copied|cloned)::<|" + pre + r"(copied|cloned)$", _copied, "Iterator::copied/cloned")
    A(r"^<Vec<.*> as Extend<.*>>::extend::<", _vec_extend, "<Vec<T> as Extend<T>>::extend(iterator)")
    A(pre + r"peekable$", _peekable, "Iterator::peekable")
    A(r"^(std::iter::)?Peekable::<.*>::peek$", _peek, "Peekable::peek")
    A(r"^(std::iter::)?Peekable::<.*>::next_if::<", _next_if, "Peekable::next_if")
    A(r"^<(std::iter::)?Peekable<.*> as Iterator>::next$", _next, "Peekable::next")
    A(pre + r"(any|all)::<", _any_all, "Iterator::{any,all}")
    A(pre + r"find::<", _find, "Iterator::find")
    A(pre + r"find_map::<", _find_map, "Iterator::find_map")
    A(pre + r"position::<", _position, "Iterator::position")
    A(pre + r"count$", _count, "Iterator::count")
    A(pre + r"sum::<\w+>$", _sum, "Iterator::sum")
    A(pre + r"last$", _last, "Iterator::last")
    A(pre + r"collect::<Vec<.+>>$", _collect, "Iterator::collect::<Vec<_>>")
    A(r"^<(std::iter::\w+|TakeWhile|Map|Filter|FilterMap|Enumerate|Chain|Take|Skip|Rev|Copied|Cloned|SkipWhile|FlatMap)<.*> as Iterator>::next$", _next, "adaptor::next")
    A(r"^<(std::iter::\w+|TakeWhile|Map|Filter|FilterMap|Enumerate|Chain|Take|Skip|Rev|Copied|Cloned|SkipWhile|FlatMap)<.*> as IntoIterator>::into_iter$", _into_iter_it, "adaptor::into_iter")
    A(r"^<\{closure@[^}]*\} as (std::ops::)?Fn(Mut|Once)?<.*>>::call(_mut|_once)?$", _fn_call, "Fn*::call on a closure value")
    # rayon's indexed parallel iterators: documented to produce the same items in the same order as the sequential ones
    rp = r"^<.* as rayon::iter::(Indexed)?ParallelIterator>::"
    A(rp + r"enumerate$", _enumerate_ad, "rayon enumerate (= sequential)")
    A(rp + r"map::<", _map, "rayon map (= sequential)")
    A(rp + r"(flat_map_iter|flat_map)::<", _flat_map, "rayon flat_map_iter (= sequential)")
    A(rp + r"filter::<", _filter, "rayon filter (= sequential)")
    A(rp + r"collect::<Vec<.+>>$", _collect, "rayon collect::<Vec<_>> (order preserved)")
    # generic adaptors go AFTER the specific models already installed (so e.g. the Vec<record> models keep priority)
    ex.models = ex.models + M
