
// ===================================================================== /verif harness tail (C18)
#[cfg(kani)]
mod verif_c18 {
    use super::*;

    fn any_fp() -> Fingerprint {
        Fingerprint { blake3: kani::any(), ftype: if kani::any() { FileType::File } else { FileType::Symlink } }
    }

    fn any_opt() -> Option<Fingerprint> {
        if kani::any() { Some(any_fp()) } else { None }
    }

    /// equality of (BLAKE3, entry type) pairs, written independently of Fingerprint::same
    fn eq(x: &Fingerprint, y: &Fingerprint) -> bool {
        let mut i = 0;
        let mut same = true;
        while i < 32 {
            if x.blake3[i] != y.blake3[i] {
                same = false;
            }
            i += 1;
        }
        let tx = matches!(x.ftype, FileType::File);
        let ty = matches!(y.ftype, FileType::File);
        same && tx == ty
    }

    /// the documented table (property C18), as a function of presence and equality only
    fn table(a: Option<Fingerprint>, b: Option<Fingerprint>, z: Option<Fingerprint>) -> Action {
        match (a, b) {
            (None, None) => Action::Noop,
            (Some(x), Some(y)) => {
                if eq(&x, &y) {
                    match z {
                        Some(w) if eq(&x, &w) => Action::Noop,
                        _ => Action::ConvergeIdentical, // base differs or is missing: record only
                    }
                } else {
                    let a_is_base = match z { Some(w) => eq(&x, &w), None => false };
                    let b_is_base = match z { Some(w) => eq(&y, &w), None => false };
                    if b_is_base {
                        Action::PropagateAtoB // exactly A differs from the base
                    } else if a_is_base {
                        Action::PropagateBtoA // exactly B differs from the base
                    } else {
                        Action::Conflict(ConflictKind::BothChanged)
                    }
                }
            }
            (Some(x), None) => match z {
                None => Action::PropagateAtoB, // no base: create on the other side
                Some(w) => if eq(&x, &w) { Action::DeleteA } else { Action::Conflict(ConflictKind::DeleteVsModify) },
            },
            (None, Some(y)) => match z {
                None => Action::PropagateBtoA,
                Some(w) => if eq(&y, &w) { Action::DeleteB } else { Action::Conflict(ConflictKind::DeleteVsModify) },
            },
        }
    }

    fn code(a: Action) -> u8 {
        match a {
            Action::Noop => 0,
            Action::PropagateAtoB => 1,
            Action::PropagateBtoA => 2,
            Action::ConvergeIdentical => 3,
            Action::DeleteA => 4,
            Action::DeleteB => 5,
            Action::Conflict(ConflictKind::BothChanged) => 6,
            Action::Conflict(ConflictKind::DeleteVsModify) => 7,
        }
    }

    fn mirror(c: u8) -> u8 {
        match c { 1 => 2, 2 => 1, 4 => 5, 5 => 4, x => x }
    }

    #[kani::proof]
    #[kani::unwind(34)]
    fn c18_equals_documented_table() {
        let (a, b, z) = (any_opt(), any_opt(), any_opt());
        let got = code(reconcile_path(a, b, z));
        let want = code(table(a, b, z));
        assert!(got == want, "reconcile_path differs from the documented table");
        kani::cover!(got == 4, "a delete is reachable");
        kani::cover!(got == 6, "a both-changed conflict is reachable");
        kani::cover!(got == 7, "a delete-vs-modify conflict is reachable");
        kani::cover!(got == 3, "converge-identical is reachable");
    }

    #[kani::proof]
    #[kani::unwind(34)]
    fn c18_mirror_symmetric() {
        let (a, b, z) = (any_opt(), any_opt(), any_opt());
        assert!(code(reconcile_path(a, b, z)) == mirror(code(reconcile_path(b, a, z))), "not mirror-symmetric");
    }

    #[kani::proof]
    #[kani::unwind(34)]
    fn c18_no_delete_without_base() {
        let (a, b) = (any_opt(), any_opt());
        let c = code(reconcile_path(a, b, None));
        assert!(c != 4 && c != 5, "delete without a base");
        // and a delete only when the survivor equals the base
        let z = any_fp();
        let s = any_fp();
        if code(reconcile_path(Some(s), None, Some(z))) == 4 { assert!(eq(&s, &z)); }
        if code(reconcile_path(None, Some(s), Some(z))) == 5 { assert!(eq(&s, &z)); }
    }

    #[kani::proof]
    #[kani::unwind(34)]
    fn c18_depends_only_on_equalities() {
        let (a, b, z) = (any_opt(), any_opt(), any_opt());
        let (a2, b2, z2) = (any_opt(), any_opt(), any_opt());
        kani::assume(a.is_some() == a2.is_some() && b.is_some() == b2.is_some() && z.is_some() == z2.is_some());
        if let (Some(x), Some(y), Some(x2), Some(y2)) = (a, b, a2, b2) { kani::assume(eq(&x, &y) == eq(&x2, &y2)); }
        if let (Some(x), Some(w), Some(x2), Some(w2)) = (a, z, a2, z2) { kani::assume(eq(&x, &w) == eq(&x2, &w2)); }
        if let (Some(y), Some(w), Some(y2), Some(w2)) = (b, z, b2, z2) { kani::assume(eq(&y, &w) == eq(&y2, &w2)); }
        assert!(code(reconcile_path(a, b, z)) == code(reconcile_path(a2, b2, z2)), "decision depends on more than equalities");
    }
}
