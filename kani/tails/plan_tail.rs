
// ===================================================================== /verif harness tail (C19/C14)
#[cfg(kani)]
mod verif_c19 {
    use super::*;

    #[kani::proof]
    fn c19_needs_transfer_exact() {
        let s = FileMeta { size: kani::any(), mtime: kani::any() };
        let d = FileMeta { size: kani::any(), mtime: kani::any() };
        let present: bool = kani::any();
        let got = needs_transfer(s, if present { Some(d) } else { None });
        let want = !present || s.size != d.size || s.mtime != d.mtime;
        assert!(got == want, "needs_transfer differs from its definition");
        kani::cover!(!got, "a skip is reachable");
    }
}
