//! C05 — AsyncCopiaSync::patch (driven by a hand-rolled no-op-waker block_on; verify_checksum is always on).
use std::future::Future;
use std::io::Cursor;
use std::pin::pin;
use std::task::{Context, Poll, RawWaker, RawWakerVTable, Waker};

use copia::async_sync::AsyncCopiaSync;
use copia::{Delta, DeltaOp, StrongHash};

use crate::patch::{any_delta, hash_is, interpret, BL};
use crate::util::no_format;

fn noop_raw() -> RawWaker {
    fn clone(_: *const ()) -> RawWaker {
        noop_raw()
    }
    fn noop(_: *const ()) {}
    static VT: RawWakerVTable = RawWakerVTable::new(clone, noop, noop, noop);
    RawWaker::new(std::ptr::null(), &VT)
}

pub fn block_on<F: Future>(f: F) -> Option<F::Output> {
    let waker = unsafe { Waker::from_raw(noop_raw()) };
    let mut cx = Context::from_waker(&waker);
    let mut f = pin!(f);
    let mut polls = 0;
    while polls < 4 {
        if let Poll::Ready(v) = f.as_mut().poll(&mut cx) {
            return Some(v);
        }
        polls += 1;
    }
    None
}

pub fn check_async(shape: &[u8]) {
    let basis: [u8; BL] = kani::any();
    let d = any_delta(shape);
    let mut out: Vec<u8> = Vec::new();
    let eng = AsyncCopiaSync::new();
    let r = block_on(eng.patch(Cursor::new(&basis[..]), &d, &mut out));
    let Some(r) = r else {
        assert!(false, "in-memory future did not complete");
        return;
    };
    match r {
        Ok(()) => {
            let mut exp = [0u8; 16];
            let Some(n) = interpret(&basis, &d, &mut exp) else {
                assert!(false, "success although a copy reads outside the basis");
                return;
            };
            assert!(out.len() == n, "output length differs from what the ops describe");
            let mut i = 0;
            while i < n {
                assert!(out[i] == exp[i], "output bytes differ from what the ops describe");
                i += 1;
            }
            assert!(hash_is(&out, &d.checksum), "success although the output does not hash to delta.checksum");
            kani::cover!(true, "async patch can succeed");
        }
        Err(e) => {
            kani::cover!(true, "async patch can fail");
            core::mem::forget(e);
        }
    }
    core::mem::forget(out);
    core::mem::forget(d);
}

macro_rules! apatch_harness {
    ($name:ident, $shape:expr, $unwind:expr) => {
        #[kani::proof]
        #[kani::unwind($unwind)]
        #[kani::stub(std::fmt::format, no_format)]
        fn $name() {
            check_async($shape);
        }
    };
}

apatch_harness!(c05_async_c, b"C", 34);
apatch_harness!(c05_async_cl, b"C1", 34);
apatch_harness!(c05_async_lc, b"1C", 34);
