//! Kani proof harnesses over the real copia library (path dependency on /repo; DESIGN §2 E2).
#![allow(dead_code, unused_imports)]

#[cfg(kani)]
mod header;
#[cfg(kani)]
mod patch;
#[cfg(kani)]
mod util;
#[cfg(kani)]
mod patch_async;
