//! C20 — FrameHeader / MessageType codec over ALL 2^96 header buffers.
use crate::util::no_format;
use copia::{FrameHeader, MessageType, PROTOCOL_MAGIC, PROTOCOL_VERSION};

const MAX_PAYLOAD: u32 = 16 * 1024 * 1024; // from the property text (16 MiB)

fn valid_type(t: u8) -> bool {
    (1..=7).contains(&t)
}

#[kani::proof]
#[kani::stub(std::fmt::format, no_format)]
fn c20_decode_accepts_exactly_valid_headers() {
    let buf: [u8; 12] = kani::any();
    let le = u32::from_le_bytes([buf[4], buf[5], buf[6], buf[7]]);
    let expect_ok = buf[0] == b'C' && buf[1] == b'O' && buf[2] == b'P' && buf[3] == b'A'
        && buf[9] == 1 && valid_type(buf[8]) && le <= MAX_PAYLOAD;
    match FrameHeader::decode(&buf) {
        Ok(h) => {
            assert!(expect_ok, "decode accepted a malformed header");
            assert!(h.length == le, "length is the little-endian payload length");
            assert!(h.msg_type as u8 == buf[8]);
            assert!(h.version == 1);
            let e = h.encode();
            let mut i = 0;
            while i < 12 {
                assert!(e[i] == buf[i], "encode(decode(buf)) == buf");
                i += 1;
            }
            kani::cover!(true, "some header decodes");
        }
        Err(_) => {
            assert!(!expect_ok, "decode rejected a valid header");
            kani::cover!(buf[0] == b'C' && buf[9] == 1 && le > MAX_PAYLOAD, "oversize length rejected");
            kani::cover!(buf[8] == 0 || buf[8] > 7, "unknown type rejected");
        }
    }
    core::mem::forget(buf);
}

#[kani::proof]
#[kani::stub(std::fmt::format, no_format)]
fn c20_encode_then_decode_is_identity() {
    let t: u8 = kani::any();
    kani::assume(valid_type(t));
    let Ok(mt) = MessageType::from_u8(t) else {
        assert!(false, "from_u8 rejects a valid type");
        return;
    };
    assert!(mt as u8 == t);
    let len: u32 = kani::any();
    kani::assume(len <= MAX_PAYLOAD);
    let mut h = FrameHeader::new(mt, len);
    h.flags = kani::any();
    let e = h.encode();
    assert!(e[0] == b'C' && e[1] == b'O' && e[2] == b'P' && e[3] == b'A', "starts with COPA");
    assert!(e[9] == 1, "carries version 1");
    assert!(u32::from_le_bytes([e[4], e[5], e[6], e[7]]) == len, "little-endian payload length");
    assert!(h.validate().is_ok());
    let Ok(d) = FrameHeader::decode(&e) else {
        assert!(false, "decode(encode(h)) failed");
        return;
    };
    assert!(d.length == h.length && d.msg_type as u8 == h.msg_type as u8 && d.version == h.version && d.flags == h.flags);
    assert!(d.magic[0] == h.magic[0] && d.magic[1] == h.magic[1] && d.magic[2] == h.magic[2] && d.magic[3] == h.magic[3]);
    kani::cover!(len == MAX_PAYLOAD, "maximum payload length round-trips");
}

#[kani::proof]
#[kani::stub(std::fmt::format, no_format)]
fn c20_from_u8_total() {
    let t: u8 = kani::any();
    match MessageType::from_u8(t) {
        Ok(m) => assert!(valid_type(t) && m as u8 == t),
        Err(_) => assert!(!valid_type(t)),
    }
}

#[kani::proof]
#[kani::stub(std::fmt::format, no_format)]
fn c20_validate_matches_constraints() {
    let t: u8 = kani::any();
    kani::assume(valid_type(t));
    let Ok(mt) = MessageType::from_u8(t) else { return };
    let h = FrameHeader { magic: kani::any(), length: kani::any(), msg_type: mt, version: kani::any(), flags: kani::any() };
    let ok = h.magic[0] == PROTOCOL_MAGIC[0] && h.magic[1] == PROTOCOL_MAGIC[1] && h.magic[2] == PROTOCOL_MAGIC[2]
        && h.magic[3] == PROTOCOL_MAGIC[3] && h.version == PROTOCOL_VERSION && h.length <= MAX_PAYLOAD;
    assert!(h.validate().is_ok() == ok);
    assert!(PROTOCOL_MAGIC[0] == b'C' && PROTOCOL_MAGIC[1] == b'O' && PROTOCOL_MAGIC[2] == b'P' && PROTOCOL_MAGIC[3] == b'A');
    assert!(PROTOCOL_VERSION == 1);
}
