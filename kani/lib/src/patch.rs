//! C05 — patch never reports success on wrong bytes.  Real code: CopiaSync::patch, Delta::validate
//! (+ AsyncCopiaSync::patch in patch_async.rs).  Basis: 3 symbolic bytes; delta: every header field
//! symbolic, op list of a concrete shape with symbolic offsets / lengths (<= 4) / literal bytes.
use std::io::Cursor;

use copia::{CopiaSync, Delta, DeltaOp, StrongHash, Sync, SyncBuilder};

use crate::util::no_format;

pub const BL: usize = 3;

pub fn any_delta(shape: &[u8]) -> Delta {
    let mut d = Delta::new(kani::any(), kani::any(), kani::any());
    d.checksum = StrongHash::from_bytes(kani::any());
    for &k in shape {
        match k {
            b'C' => {
                let len: u32 = kani::any();
                kani::assume(len <= 4);
                d.ops.push(DeltaOp::Copy { offset: kani::any(), len });
            }
            b'1' => d.ops.push(DeltaOp::Literal(vec![kani::any()])),
            b'2' => d.ops.push(DeltaOp::Literal(vec![kani::any(), kani::any()])),
            _ => d.ops.push(DeltaOp::Literal(Vec::new())),
        }
    }
    d
}

/// what the ops describe, or None if a copy leaves the basis
pub fn interpret(basis: &[u8; BL], d: &Delta, out: &mut [u8; 16]) -> Option<usize> {
    let mut n = 0usize;
    for op in &d.ops {
        match op {
            DeltaOp::Copy { offset, len } => {
                let (o, l) = (*offset, *len as u64);
                if l == 0 {
                    continue; // a zero-length copy reads nothing, wherever it points
                }
                if o > BL as u64 || o + l > BL as u64 {
                    return None;
                }
                let mut i = 0u64;
                while i < l {
                    out[n] = basis[(o + i) as usize];
                    n += 1;
                    i += 1;
                }
            }
            DeltaOp::Literal(b) => {
                let mut i = 0;
                while i < b.len() {
                    out[n] = b[i];
                    n += 1;
                    i += 1;
                }
            }
        }
    }
    Some(n)
}

pub fn hash_is(out: &[u8], want: &StrongHash) -> bool {
    let h = StrongHash::compute(out);
    let (a, b) = (h.as_bytes(), want.as_bytes());
    let mut i = 0;
    let mut same = true;
    while i < 32 {
        if a[i] != b[i] {
            same = false;
        }
        i += 1;
    }
    same
}

pub fn check_sync(shape: &[u8], verify: bool) {
    let basis: [u8; BL] = kani::any();
    let d = any_delta(shape);
    let mut out: Vec<u8> = Vec::new();
    let eng = SyncBuilder::new().verify_checksum(verify).build();
    let r = eng.patch(Cursor::new(&basis[..]), &d, &mut out);
    match r {
        Ok(()) => {
            let mut exp = [0u8; 16];
            let n = interpret(&basis, &d, &mut exp);
            let Some(n) = n else {
                assert!(false, "success although a copy reads outside the basis");
                return;
            };
            assert!(out.len() == n, "output length differs from what the ops describe");
            let mut i = 0;
            while i < n {
                assert!(out[i] == exp[i], "output bytes differ from what the ops describe");
                i += 1;
            }
            if verify {
                assert!(hash_is(&out, &d.checksum), "success although the output does not hash to delta.checksum");
            }
            kani::cover!(true, "patch can succeed");
        }
        Err(e) => {
            kani::cover!(true, "patch can fail");
            core::mem::forget(e);
        }
    }
    core::mem::forget(out);
    core::mem::forget(d);
}

macro_rules! patch_harness {
    ($name:ident, $shape:expr, $verify:expr, $unwind:expr) => {
        #[kani::proof]
        #[kani::unwind($unwind)]
        #[kani::stub(std::fmt::format, no_format)]
        fn $name() {
            check_sync($shape, $verify);
        }
    };
}

patch_harness!(c05_sync_empty, b"", true, 34);
patch_harness!(c05_sync_c, b"C", true, 34);
patch_harness!(c05_sync_l, b"2", true, 34);
patch_harness!(c05_sync_cl, b"C1", true, 34);
patch_harness!(c05_sync_lc, b"1C", true, 34);
patch_harness!(c05_sync_cc, b"CC", true, 34);
patch_harness!(c05_sync_clc, b"C1C", true, 34);
patch_harness!(c05_sync_cl_noverify, b"C1", false, 34);
