/// stub for std::fmt::format (messages are never the subject of a property)
pub fn no_format(_args: std::fmt::Arguments<'_>) -> String {
    String::new()
}
