#!/usr/local/bin/python3-vt
"""(Re)generate kani/bin/src/gen_*.rs from /repo's current sources: byte-identical copy + harness tail."""
import os
import sys

HERE = os.path.dirname(os.path.abspath(__file__))
REPO = os.environ.get("VERIF_REPO", "/repo")


def gen():
    for mod in ("reconcile", "plan"):
        src = open(os.path.join(REPO, "src", "bin", "copia", mod + ".rs")).read()
        tail = open(os.path.join(HERE, "tails", mod + "_tail.rs")).read()
        out = os.path.join(HERE, "bin", "src", "gen_%s.rs" % mod)
        new = src + tail
        if not os.path.exists(out) or open(out).read() != new:
            open(out, "w").write(new)


if __name__ == "__main__":
    gen()
