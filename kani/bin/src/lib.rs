//! Generated at check time: gen_reconcile.rs / gen_plan.rs are byte-identical copies of
//! /repo/src/bin/copia/{reconcile,plan}.rs with a harness module appended after the last line.
#![allow(dead_code, unused_imports, clippy::all)]
pub mod gen_plan;
pub mod gen_reconcile;
