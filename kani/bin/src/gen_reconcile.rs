//! Pure 3-way bidirectional reconcile (Unison-shaped), vetted by the distributed
//! design quorum (docs/specifications/distributed-sync.md). blake3 is the SOLE
//! oracle for equal/changed/conflict/propagate/delete — size+mtime are only a
//! fast-path elsewhere (meta) deciding whether to re-hash, and never appear here.
//! No I/O, so the whole case table is exhaustively unit-tested + Kani-proved.

use serde::{Deserialize, Serialize};
use std::collections::BTreeMap;
use std::path::PathBuf;

/// A content-addressed fingerprint. `blake3` is authoritative; `ftype` guards a
/// file<->symlink flip from being mistaken for a content change of the same kind.
#[derive(Clone, Copy, Debug, PartialEq, Eq, Serialize, Deserialize)]
pub struct Fingerprint {
    pub blake3: [u8; 32],
    pub ftype: FileType,
}

#[derive(Clone, Copy, Debug, PartialEq, Eq, Serialize, Deserialize)]
pub enum FileType {
    File,
    Symlink,
}

impl Fingerprint {
    /// Two fingerprints are equal iff the content digest AND the entry type match.
    fn same(a: &Self, b: &Self) -> bool {
        a.blake3 == b.blake3 && a.ftype == b.ftype
    }
}

/// Path -> fingerprint for one replica (or the archive base).
pub type FpMap = BTreeMap<PathBuf, Fingerprint>;

/// The reconciled action for a single path. Deletes require positive archive
/// evidence; ambiguity always degrades to a conflict-copy, never data loss.
#[derive(Clone, Copy, Debug, PartialEq, Eq)]
pub enum Action {
    /// Both sides equal the base — nothing to do.
    Noop,
    /// Changed on A only — send A's content to B (also covers create A->B).
    PropagateAtoB,
    /// Changed on B only — send B's content to A (also covers create B->A).
    PropagateBtoA,
    /// Both changed to the SAME content — converge silently, just record the base.
    ConvergeIdentical,
    /// B deleted, A unchanged since base — propagate the delete to A.
    DeleteA,
    /// A deleted, B unchanged since base — propagate the delete to B.
    DeleteB,
    /// Irreconcilable divergence — keep BOTH via conflict-copy, pick no winner.
    Conflict(ConflictKind),
}

#[derive(Clone, Copy, Debug, PartialEq, Eq)]
pub enum ConflictKind {
    /// Both sides changed to different content since the base.
    BothChanged,
    /// One side deleted while the other modified — keep the modification.
    DeleteVsModify,
}

/// Reconcile a single path from the two live fingerprints and the archive base.
/// `base` is the last-synced common fingerprint, or `None` when there is no
/// trustworthy base (first sync, or safe-mode from a lost/mismatched archive) —
/// in which case a one-sided absence is a CREATE, never a delete.
#[must_use]
pub fn reconcile_path(
    a: Option<Fingerprint>,
    b: Option<Fingerprint>,
    base: Option<Fingerprint>,
) -> Action {
    match (a, b) {
        (None, None) => Action::Noop,
        (Some(av), Some(bv)) => {
            if Fingerprint::same(&av, &bv) {
                // Identical now: a true noop if it also equals the base, else both
                // sides independently reached the same new content — record it.
                if base.is_some_and(|z| Fingerprint::same(&av, &z)) {
                    Action::Noop
                } else {
                    Action::ConvergeIdentical
                }
            } else {
                // MSRV 1.75: map_or(true, ..), not is_none_or (stable 1.82).
                let a_changed = base.map_or(true, |z| !Fingerprint::same(&av, &z));
                let b_changed = base.map_or(true, |z| !Fingerprint::same(&bv, &z));
                match (a_changed, b_changed) {
                    (true, false) => Action::PropagateAtoB,
                    (false, true) => Action::PropagateBtoA,
                    // Both differ from base but also from each other (a==b is
                    // handled above) => conflict. Never a silent pick.
                    _ => Action::Conflict(ConflictKind::BothChanged),
                }
            }
        }
        // B absent: either B deleted (base present) or A created (base absent).
        (Some(av), None) => match base {
            None => Action::PropagateAtoB, // create A->B, never a delete
            Some(z) if Fingerprint::same(&av, &z) => Action::DeleteA, // A unchanged, B deleted
            Some(_) => Action::Conflict(ConflictKind::DeleteVsModify), // A modified, B deleted
        },
        // A absent: symmetric.
        (None, Some(bv)) => match base {
            None => Action::PropagateBtoA,
            Some(z) if Fingerprint::same(&bv, &z) => Action::DeleteB,
            Some(_) => Action::Conflict(ConflictKind::DeleteVsModify),
        },
    }
}

/// Reconcile whole trees over the union of paths. `trust_base=false` (safe mode)
/// forces every base lookup to `None`, so NO deletes are ever produced and all
/// divergence degrades to create/conflict.
#[must_use]
pub fn reconcile(a: &FpMap, b: &FpMap, base: &FpMap, trust_base: bool) -> Vec<(PathBuf, Action)> {
    let mut paths: Vec<&PathBuf> = a.keys().chain(b.keys()).collect();
    paths.sort_unstable();
    paths.dedup();
    let mut out = Vec::new();
    for p in paths {
        let z = if trust_base {
            base.get(p).copied()
        } else {
            None
        };
        let act = reconcile_path(a.get(p).copied(), b.get(p).copied(), z);
        if act != Action::Noop {
            out.push((p.clone(), act));
        }
    }
    out
}

#[cfg(kani)]
mod kani_proofs {
    use super::*;

    fn any_fp() -> Fingerprint {
        Fingerprint {
            blake3: kani::any(),
            ftype: if kani::any() {
                FileType::File
            } else {
                FileType::Symlink
            },
        }
    }

    /// reconcile-kani-001: with NO trustworthy base, reconcile NEVER emits a
    /// delete — a one-sided absence is always a create, so a lost/corrupt archive
    /// can never turn a legitimate create into destructive data loss.
    #[kani::proof]
    fn no_base_never_deletes() {
        let a = if kani::any() { Some(any_fp()) } else { None };
        let b = if kani::any() { Some(any_fp()) } else { None };
        let act = reconcile_path(a, b, None);
        assert!(!matches!(act, Action::DeleteA | Action::DeleteB));
    }

    /// reconcile-kani-002: a delete is emitted ONLY when the surviving side's
    /// content still equals the base (positive evidence) — a modified survivor
    /// against a deleted peer is a conflict, never a delete.
    #[kani::proof]
    fn delete_requires_positive_evidence() {
        let base = any_fp();
        let surv = any_fp();
        // A survives, B absent.
        let act = reconcile_path(Some(surv), None, Some(base));
        if matches!(act, Action::DeleteA) {
            assert!(Fingerprint::same(&surv, &base));
        }
    }
}

#[cfg(test)]
#[allow(clippy::unwrap_used, clippy::expect_used)]
mod tests {
    use super::*;

    fn fp(byte: u8) -> Fingerprint {
        Fingerprint {
            blake3: [byte; 32],
            ftype: FileType::File,
        }
    }

    #[test]
    fn both_equal_base_is_noop() {
        assert_eq!(
            reconcile_path(Some(fp(1)), Some(fp(1)), Some(fp(1))),
            Action::Noop
        );
    }

    #[test]
    fn one_sided_change_propagates() {
        assert_eq!(
            reconcile_path(Some(fp(2)), Some(fp(1)), Some(fp(1))),
            Action::PropagateAtoB
        );
        assert_eq!(
            reconcile_path(Some(fp(1)), Some(fp(2)), Some(fp(1))),
            Action::PropagateBtoA
        );
    }

    #[test]
    fn identical_divergence_converges_not_conflicts() {
        // both changed to the SAME new content -> record, never conflict
        assert_eq!(
            reconcile_path(Some(fp(3)), Some(fp(3)), Some(fp(1))),
            Action::ConvergeIdentical
        );
        // both still equal base -> true noop
        assert_eq!(
            reconcile_path(Some(fp(1)), Some(fp(1)), Some(fp(1))),
            Action::Noop
        );
    }

    #[test]
    fn divergent_change_is_conflict() {
        assert_eq!(
            reconcile_path(Some(fp(2)), Some(fp(3)), Some(fp(1))),
            Action::Conflict(ConflictKind::BothChanged)
        );
    }

    #[test]
    fn delete_needs_positive_evidence() {
        // B deleted, A unchanged since base -> propagate delete to A
        assert_eq!(
            reconcile_path(Some(fp(1)), None, Some(fp(1))),
            Action::DeleteA
        );
        // B deleted, A MODIFIED since base -> conflict, keep A
        assert_eq!(
            reconcile_path(Some(fp(2)), None, Some(fp(1))),
            Action::Conflict(ConflictKind::DeleteVsModify)
        );
    }

    #[test]
    fn no_base_absence_is_create_never_delete() {
        assert_eq!(
            reconcile_path(Some(fp(1)), None, None),
            Action::PropagateAtoB
        );
        assert_eq!(
            reconcile_path(None, Some(fp(1)), None),
            Action::PropagateBtoA
        );
    }

    #[test]
    fn ftype_flip_is_a_change_even_with_same_bytes() {
        let file = Fingerprint {
            blake3: [1; 32],
            ftype: FileType::File,
        };
        let link = Fingerprint {
            blake3: [1; 32],
            ftype: FileType::Symlink,
        };
        assert_eq!(
            reconcile_path(Some(file), Some(link), Some(file)),
            Action::PropagateBtoA
        );
    }

    #[test]
    fn safe_mode_disables_deletes_across_a_tree() {
        let a: FpMap = [
            (PathBuf::from("keep"), fp(1)),
            (PathBuf::from("only_a"), fp(2)),
        ]
        .into_iter()
        .collect();
        let mut b = FpMap::new();
        b.insert(PathBuf::from("keep"), fp(1));
        let base: FpMap = [
            (PathBuf::from("keep"), fp(1)),
            (PathBuf::from("only_a"), fp(2)),
        ]
        .into_iter()
        .collect();
        // trusted base: only_a present on A, absent on B, unchanged => DeleteA
        let trusted = reconcile(&a, &b, &base, true);
        assert_eq!(trusted, vec![(PathBuf::from("only_a"), Action::DeleteA)]);
        // safe mode: NO deletes — only_a becomes a create A->B; the identical
        // "keep" is recorded (ConvergeIdentical) to seed the fresh archive.
        let safe = reconcile(&a, &b, &base, false);
        assert_eq!(
            safe,
            vec![
                (PathBuf::from("keep"), Action::ConvergeIdentical),
                (PathBuf::from("only_a"), Action::PropagateAtoB),
            ]
        );
    }
}

// ===================================================================== /verif harness tail (C18)
#[cfg(kani)]
mod verif_c18 {
    use super::*;

    fn any_fp() -> Fingerprint {
        Fingerprint { blake3: kani::any(), ftype: if kani::any() { FileType::File } else { FileType::Symlink } }
    }

    fn any_opt() -> Option<Fingerprint> {
        if kani::any() { Some(any_fp()) } else { None }
    }

    /// equality of (BLAKE3, entry type) pairs, written independently of Fingerprint::same
    fn eq(x: &Fingerprint, y: &Fingerprint) -> bool {
        let mut i = 0;
        let mut same = true;
        while i < 32 {
            if x.blake3[i] != y.blake3[i] {
                same = false;
            }
            i += 1;
        }
        let tx = matches!(x.ftype, FileType::File);
        let ty = matches!(y.ftype, FileType::File);
        same && tx == ty
    }

    /// the documented table (property C18), as a function of presence and equality only
    fn table(a: Option<Fingerprint>, b: Option<Fingerprint>, z: Option<Fingerprint>) -> Action {
        match (a, b) {
            (None, None) => Action::Noop,
            (Some(x), Some(y)) => {
                if eq(&x, &y) {
                    match z {
                        Some(w) if eq(&x, &w) => Action::Noop,
                        _ => Action::ConvergeIdentical, // base differs or is missing: record only
                    }
                } else {
                    let a_is_base = match z { Some(w) => eq(&x, &w), None => false };
                    let b_is_base = match z { Some(w) => eq(&y, &w), None => false };
                    if b_is_base {
                        Action::PropagateAtoB // exactly A differs from the base
                    } else if a_is_base {
                        Action::PropagateBtoA // exactly B differs from the base
                    } else {
                        Action::Conflict(ConflictKind::BothChanged)
                    }
                }
            }
            (Some(x), None) => match z {
                None => Action::PropagateAtoB, // no base: create on the other side
                Some(w) => if eq(&x, &w) { Action::DeleteA } else { Action::Conflict(ConflictKind::DeleteVsModify) },
            },
            (None, Some(y)) => match z {
                None => Action::PropagateBtoA,
                Some(w) => if eq(&y, &w) { Action::DeleteB } else { Action::Conflict(ConflictKind::DeleteVsModify) },
            },
        }
    }

    fn code(a: Action) -> u8 {
        match a {
            Action::Noop => 0,
            Action::PropagateAtoB => 1,
            Action::PropagateBtoA => 2,
            Action::ConvergeIdentical => 3,
            Action::DeleteA => 4,
            Action::DeleteB => 5,
            Action::Conflict(ConflictKind::BothChanged) => 6,
            Action::Conflict(ConflictKind::DeleteVsModify) => 7,
        }
    }

    fn mirror(c: u8) -> u8 {
        match c { 1 => 2, 2 => 1, 4 => 5, 5 => 4, x => x }
    }

    #[kani::proof]
    #[kani::unwind(34)]
    fn c18_equals_documented_table() {
        let (a, b, z) = (any_opt(), any_opt(), any_opt());
        let got = code(reconcile_path(a, b, z));
        let want = code(table(a, b, z));
        assert!(got == want, "reconcile_path differs from the documented table");
        kani::cover!(got == 4, "a delete is reachable");
        kani::cover!(got == 6, "a both-changed conflict is reachable");
        kani::cover!(got == 7, "a delete-vs-modify conflict is reachable");
        kani::cover!(got == 3, "converge-identical is reachable");
    }

    #[kani::proof]
    #[kani::unwind(34)]
    fn c18_mirror_symmetric() {
        let (a, b, z) = (any_opt(), any_opt(), any_opt());
        assert!(code(reconcile_path(a, b, z)) == mirror(code(reconcile_path(b, a, z))), "not mirror-symmetric");
    }

    #[kani::proof]
    #[kani::unwind(34)]
    fn c18_no_delete_without_base() {
        let (a, b) = (any_opt(), any_opt());
        let c = code(reconcile_path(a, b, None));
        assert!(c != 4 && c != 5, "delete without a base");
        // and a delete only when the survivor equals the base
        let z = any_fp();
        let s = any_fp();
        if code(reconcile_path(Some(s), None, Some(z))) == 4 { assert!(eq(&s, &z)); }
        if code(reconcile_path(None, Some(s), Some(z))) == 5 { assert!(eq(&s, &z)); }
    }

    #[kani::proof]
    #[kani::unwind(34)]
    fn c18_depends_only_on_equalities() {
        let (a, b, z) = (any_opt(), any_opt(), any_opt());
        let (a2, b2, z2) = (any_opt(), any_opt(), any_opt());
        kani::assume(a.is_some() == a2.is_some() && b.is_some() == b2.is_some() && z.is_some() == z2.is_some());
        if let (Some(x), Some(y), Some(x2), Some(y2)) = (a, b, a2, b2) { kani::assume(eq(&x, &y) == eq(&x2, &y2)); }
        if let (Some(x), Some(w), Some(x2), Some(w2)) = (a, z, a2, z2) { kani::assume(eq(&x, &w) == eq(&x2, &w2)); }
        if let (Some(y), Some(w), Some(y2), Some(w2)) = (b, z, b2, z2) { kani::assume(eq(&y, &w) == eq(&y2, &w2)); }
        assert!(code(reconcile_path(a, b, z)) == code(reconcile_path(a2, b2, z2)), "decision depends on more than equalities");
    }
}
