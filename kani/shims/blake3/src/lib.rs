//! Verification shim for BLAKE3 (environment model, DESIGN §2 E2).
//! hash(x) = [len, x.., 0.., 0xA5] for |x| <= CAP: a deterministic, *injective* (collision-free)
//! function of the byte string; inputs longer than CAP are outside the model (assertion).
//! copia only ever compares hashes for equality, so any injective instance is representative.
pub const CAP: usize = 30;
pub const OUT_LEN: usize = 32;

#[derive(Clone, Copy, PartialEq, Eq, Debug)]
pub struct Hash([u8; 32]);

impl Hash {
    pub const fn as_bytes(&self) -> &[u8; 32] {
        &self.0
    }
    pub const fn from_bytes(b: [u8; 32]) -> Self {
        Self(b)
    }
}

impl From<Hash> for [u8; 32] {
    fn from(h: Hash) -> Self {
        h.0
    }
}

#[derive(Clone, Debug)]
pub struct Hasher {
    buf: [u8; CAP],
    len: usize,
}

impl Default for Hasher {
    fn default() -> Self {
        Self::new()
    }
}

impl Hasher {
    pub fn new() -> Self {
        Self { buf: [0; CAP], len: 0 }
    }
    pub fn update(&mut self, data: &[u8]) -> &mut Self {
        assert!(self.len + data.len() <= CAP, "blake3 shim: input longer than the model capacity");
        let mut i = 0;
        while i < data.len() {
            self.buf[self.len + i] = data[i];
            i += 1;
        }
        self.len += data.len();
        self
    }
    pub fn finalize(&self) -> Hash {
        let mut out = [0u8; 32];
        out[0] = self.len as u8;
        let mut i = 0;
        while i < self.len {
            out[1 + i] = self.buf[i];
            i += 1;
        }
        out[31] = 0xA5;
        Hash(out)
    }
}

impl std::io::Write for Hasher {
    fn write(&mut self, buf: &[u8]) -> std::io::Result<usize> {
        self.update(buf);
        Ok(buf.len())
    }
    fn flush(&mut self) -> std::io::Result<()> {
        Ok(())
    }
}

pub fn hash(data: &[u8]) -> Hash {
    let mut h = Hasher::new();
    h.update(data);
    h.finalize()
}
