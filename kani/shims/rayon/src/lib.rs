//! Verification shim for rayon: `par_chunks` = `chunks` (sequential).  Needed only so that Kani can
//! compile Signature::generate (rayon's reachability makes kani-compiler ICE); the parallel branch
//! needs > 64 KiB of input and is outside every bound.
pub mod prelude {
    pub trait ParallelSlice<T> {
        fn par_chunks(&self, n: usize) -> std::slice::Chunks<'_, T>;
    }
    impl<T> ParallelSlice<T> for [T] {
        fn par_chunks(&self, n: usize) -> std::slice::Chunks<'_, T> {
            self.chunks(n)
        }
    }
}
