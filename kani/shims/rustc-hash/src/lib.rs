//! Verification shim for rustc-hash: FxHashMap as an association list with the operations copia uses
//! (hashbrown's probing loops are not unwindable under CBMC).  Observable map semantics is kept:
//! at most one entry per key, lookup by key equality.
#[derive(Clone, Copy, Default, Debug)]
pub struct FxBuildHasher;

#[derive(Debug, Clone)]
pub struct FxHashMap<K, V> {
    items: Vec<(K, V)>,
}

impl<K: PartialEq, V> Default for FxHashMap<K, V> {
    fn default() -> Self {
        Self { items: Vec::new() }
    }
}

pub struct Entry<'a, K, V> {
    map: &'a mut FxHashMap<K, V>,
    key: K,
}

impl<'a, K: PartialEq, V: Default> Entry<'a, K, V> {
    pub fn or_default(self) -> &'a mut V {
        let mut i = 0;
        let mut found = usize::MAX;
        while i < self.map.items.len() {
            if self.map.items[i].0 == self.key {
                found = i;
                break;
            }
            i += 1;
        }
        if found == usize::MAX {
            self.map.items.push((self.key, V::default()));
            found = self.map.items.len() - 1;
        }
        &mut self.map.items[found].1
    }
}

impl<K: PartialEq, V> FxHashMap<K, V> {
    pub fn with_capacity_and_hasher(_cap: usize, _h: FxBuildHasher) -> Self {
        Self { items: Vec::new() }
    }
    pub fn get(&self, k: &K) -> Option<&V> {
        let mut i = 0;
        while i < self.items.len() {
            if self.items[i].0 == *k {
                return Some(&self.items[i].1);
            }
            i += 1;
        }
        None
    }
    pub fn contains_key(&self, k: &K) -> bool {
        self.get(k).is_some()
    }
    pub fn len(&self) -> usize {
        self.items.len()
    }
    pub fn is_empty(&self) -> bool {
        self.items.is_empty()
    }
    pub fn entry(&mut self, key: K) -> Entry<'_, K, V> {
        Entry { map: self, key }
    }
}
