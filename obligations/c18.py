"""C18 — the three-way reconcile decision is exactly the documented table (DESIGN §4 C18).
E2: Kani over the byte-identical copy of reconcile.rs, fully symbolic 32-byte digests (no quotient)."""
import json

from mirsmt import native, kanirun
from mirsmt.env import Inconclusive
from mirsmt.symexec import Unsupported
from . import kanilib


def ref_table(a, b, z):
    """python reference of the documented table; fingerprints are (hex, ftype) or None"""
    if a is None and b is None:
        return "Noop"
    if a is not None and b is not None:
        if a == b:
            return "Noop" if (z is not None and z == a) else "ConvergeIdentical"
        a_base = z is not None and a == z
        b_base = z is not None and b == z
        if b_base:
            return "PropagateAtoB"
        if a_base:
            return "PropagateBtoA"
        return "Conflict(BothChanged)"
    if b is None:
        if z is None:
            return "PropagateAtoB"
        return "DeleteA" if a == z else "Conflict(DeleteVsModify)"
    if z is None:
        return "PropagateBtoA"
    return "DeleteB" if b == z else "Conflict(DeleteVsModify)"


def decode_fps(r, n):
    c = kanirun.Cursor(r.playback or [])
    out = []
    for _ in range(n):
        if c.boolean():
            h = bytes(c.bytes_(32)).hex()
            ft = 0 if c.boolean() else 1
            out.append([h, ft])
        else:
            out.append(None)
    return out


def witness_no_delete(R):
    """c18_no_delete_without_base draws: a, b (optional), then z, s (plain fingerprints)"""
    def w(r):
        c = kanirun.Cursor(r.playback or [])

        def opt():
            if c.boolean():
                h = bytes(c.bytes_(32)).hex()
                return [h, 0 if c.boolean() else 1]
            return None

        def plain():
            h = bytes(c.bytes_(32)).hex()
            return [h, 0 if c.boolean() else 1]
        a, b = opt(), opt()
        z, s = plain(), plain()
        for (x, y, base) in ((a, b, None), (s, None, z), (None, s, z)):
            case = {"fn": "reconcile_path", "a": x, "b": y, "base": base}
            want = ref_table(tuple(x) if x else None, tuple(y) if y else None, tuple(base) if base else None)
            res = native.run_both(case)
            bad = {p: v for p, v in res.items() if v.get("result") != want}
            if bad:
                case["expected"] = want
                case["observed"] = res
                return {"confirmed": True, "replay_path": R.save_replay("C18/reconcile_path", case), "key": "C18/reconcile_path/%s" % want,
                        "detail": "reconcile_path(%s): native %s, documented table %s" % (json.dumps(case)[:200], bad, want)}
        return {"confirmed": False, "detail": "native reconcile_path agrees with the table on the decoded inputs"}
    return w


def witness_for(R, n, triples):
    def w(r):
        fps = decode_fps(r, n)
        for (i, j, k) in triples:
            a, b, z = fps[i], fps[j], fps[k]
            case = {"fn": "reconcile_path", "a": a, "b": b, "base": z}
            want = ref_table(tuple(a) if a else None, tuple(b) if b else None, tuple(z) if z else None)
            res = native.run_both(case)
            bad = {p: v for p, v in res.items() if v.get("result") != want}
            if bad:
                case["expected"] = want
                case["observed"] = res
                return {"confirmed": True, "replay_path": R.save_replay("C18/reconcile_path", case),
                        "key": "C18/reconcile_path/%s" % want,
                        "detail": "reconcile_path(%s): native %s, documented table %s" % (json.dumps(case)[:200], bad, want)}
        return {"confirmed": False, "detail": "native reconcile_path agrees with the table on the decoded inputs"}
    return w


def run(R, tier, seed):
    R.trusted += ["Kani 0.68 / CBMC 6.11 (cadical)", "check-time byte-identical copy of src/bin/copia/reconcile.rs with the harness module appended"]
    R.assumptions += ["tree-level `reconcile` over BTreeMaps: see the E1 obligations in this evidence (bounded path universe) or 'not covered' if absent",
                      "the Lean model in lean/ is not used (it is a separate model, not the code)"]
    fns = ["reconcile_path", "Fingerprint::same"]
    b = "all (a, b, base) in (Option<Fingerprint>)^3 with fully symbolic 32-byte digests and entry types (full domain, no bound)"
    specs = [
        dict(h="gen_reconcile::verif_c18::c18_equals_documented_table", bound=b, functions=fns, witness=witness_for(R, 3, [(0, 1, 2)])),
        dict(h="gen_reconcile::verif_c18::c18_mirror_symmetric", bound=b, functions=fns, witness=witness_for(R, 3, [(0, 1, 2), (1, 0, 2)]), covers_required=False),
        dict(h="gen_reconcile::verif_c18::c18_no_delete_without_base", bound=b, functions=fns, witness=witness_no_delete(R), covers_required=False),
        dict(h="gen_reconcile::verif_c18::c18_depends_only_on_equalities", bound=b + "; two independent triples with equal presence/equality pattern",
             functions=fns, witness=witness_for(R, 6, [(0, 1, 2), (3, 4, 5)]), covers_required=False),
    ]
    kanilib.run_harnesses(R, "C18", "bin", specs, timeout_s=600 if tier == "quick" else 1800)
    try:
        from . import reconcile_tree
        reconcile_tree.obligations(R, tier, seed)
    except ImportError:
        R.notes.append("tree-level reconcile(): not covered in this revision")
    except (Unsupported, Inconclusive) as e:
        R.add("C18/reconcile-tree/encoding", "inconclusive", detail=str(e)[:400])


def replay(path):
    case = json.load(open(path))["case"]
    case = {k: v for k, v in case.items() if k not in ("observed", "expected")}
    print(json.dumps(native.run_both(case), indent=1))
    return 0
