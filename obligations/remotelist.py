"""C19 (last clause): `parse_remote_meta_output` from MIR on a SYMBOLIC listing.

The listing of one file, as `find -printf '%s\\t%T@\\t%p\\0'` prints it, is built from symbolic components
    size digits (1..3)  TAB  [-] seconds digits (1..3)  [ . fraction digits (0..2) ]  TAB  "./"  path chars (1..3)  NUL
preceded by one concrete record (so the loop over records is exercised), with every digit, the sign, the fraction length
and every path character symbolic; path characters range over {a . / TAB NEWLINE -} (valid UTF-8, and exactly the bytes
the property worries about: tabs, newlines and dots inside names).  The solver shows the parsed map holds exactly the two
triples (path, size, whole seconds).  std's text routines are CONTRACT MODELS (slice::split, from_utf8_lossy on ASCII,
splitn(3, TAB), split('.'), parse::<u64/i64>, strip_prefix), validated each run against the native function on concrete
listings drawn from the same family.
"""
import itertools
import json
import random
import re
import z3

from mirsmt import env, stdmodels, patchmodels, codecmodels, itermodels, native
from mirsmt.symexec import (Executor, State, VInt, VBool, VStruct, VEnum, VRef, VSeq, VList, VOpaque, UNIT, I, simp, Unsupported, merge)
from mirsmt.env import model_int, model_bool, Inconclusive
from mirsmt.stdmodels import opt_sym, none, _str_of
from mirsmt.deltamodels import call_closure
from .hublib import _any, _all

PATH_ALPHABET = "a./\t\n-"
CAP = 24


class Ctx:
    def __init__(self):
        def keep(n):
            return n == "parse_remote_meta_output" or n.startswith("parse_remote_meta_output::")
        self.mir, self.mir_path, self.dump_s = env.load("bin", keep)
        self.idx = env.impl_index(self.mir)
        self.enums = env.source_enums()


def install(ex, inserts):
    def deep(v, st):
        while isinstance(v, VRef):
            v = ex.deref(st, v)
        return v

    def sl_split(ex_, st, args, dest_ty, func, where):
        s = deep(args[0], st)
        ex_.oblig("model-bound", where, "listing longer than the model capacity %d" % CAP, z3.And(st.guard, s.len > CAP))
        return VStruct("ByteSplit", [s, VInt(I(0), "usize"), VBool(z3.BoolVal(False)), args[1]])

    def sl_split_next(ex_, st, args, dest_ty, func, where):
        ref = args[0]
        it = ex_.deref(st, ref)
        s, pos, done, clos = it.f[0], it.f[1].t, it.f[2].t, it.f[3]
        # first separator at or after pos
        sep = s.len
        for j in reversed(range(CAP)):
            isep = call_closure(ex_, st, deep(clos, st), [VRef("val", val=VInt(s.at(I(j)), "u8"))], where)
            sep = z3.If(z3.And(j >= pos, j < s.len, isep.t), I(j), sep)
        sep = simp(sep)
        has = simp(z3.Not(done))
        piece = VSeq(s.arr, simp(s.off + pos), simp(sep - pos), "u8")
        ex_.store_ref(st, ref, VStruct("ByteSplit", [s, VInt(simp(z3.If(sep < s.len, sep + 1, s.len)), "usize"), VBool(simp(z3.Or(done, sep >= s.len))), clos]))
        return opt_sym(has, VRef("val", val=piece))

    def sl_is_empty(ex_, st, args, dest_ty, func, where):
        return VBool(simp(deep(args[0], st).len == 0))

    def lossy(ex_, st, args, dest_ty, func, where):
        s = deep(args[0], st)
        ex_.oblig("model-bound", where, "non-ASCII byte in the listing (from_utf8_lossy is modelled on ASCII only)",
                  z3.And(st.guard, z3.Or(*[z3.And(j < s.len, s.at(I(j)) >= 128) for j in range(CAP)])))
        return VStruct("Cow", [VSeq(s.arr, s.off, s.len, "char")])

    def cow_deref(ex_, st, args, dest_ty, func, where):
        return VRef("val", val=_str_of(ex_, st, args[0]))

    def splitn(ex_, st, args, dest_ty, func, where):
        return VStruct("SplitN", [_str_of(ex_, st, args[0]), VInt(I(0), "usize"), VInt(args[1].t, "usize"), VInt(args[2].t, "char")])

    def find_from(s, pos, ch):
        k = s.len
        for j in reversed(range(CAP)):
            k = z3.If(z3.And(j >= pos, j < s.len, s.at(I(j)) == ch), I(j), k)
        return simp(k)

    def splitn_next(ex_, st, args, dest_ty, func, where):
        ref = args[0]
        it = ex_.deref(st, ref)
        s, pos, left, ch = it.f[0], it.f[1].t, it.f[2].t, it.f[3].t
        has = simp(left > 0)
        sep = find_from(s, pos, ch)
        last = simp(z3.Or(left == 1, sep >= s.len))
        end = simp(z3.If(last, s.len, sep))
        piece = VSeq(s.arr, simp(s.off + pos), simp(end - pos), "char")
        ex_.store_ref(st, ref, VStruct("SplitN", [s, VInt(simp(z3.If(last, s.len, sep + 1)), "usize"), VInt(simp(z3.If(has, z3.If(last, 0, left - 1), 0)), "usize"), it.f[3]]))
        return opt_sym(has, VRef("val", val=piece))

    def split_ch(ex_, st, args, dest_ty, func, where):
        return VStruct("SplitN", [_str_of(ex_, st, args[0]), VInt(I(0), "usize"), VInt(I(1 << 30), "usize"), VInt(args[1].t, "char")])

    def parse_int(ex_, st, args, dest_ty, func, where):
        s = _str_of(ex_, st, args[0])
        signed = "i64" in func
        c0 = s.at(I(0))
        has_sign = z3.And(s.len > 0, z3.Or(c0 == ord("+"), (c0 == ord("-")) if signed else z3.BoolVal(False)))
        neg = z3.And(s.len > 0, c0 == ord("-")) if signed else z3.BoolVal(False)
        start = z3.If(has_sign, 1, 0)
        val = I(0)
        alldig = z3.BoolVal(True)
        for j in range(CAP):
            live = z3.And(j >= start, j < s.len)
            d = s.at(I(j)) - ord("0")
            alldig = z3.And(alldig, z3.Implies(live, z3.And(d >= 0, d <= 9)))
            val = z3.If(live, val * 10 + d, val)
        val = simp(z3.If(neg, -val, val))
        lo, hi = (-(1 << 63), (1 << 63) - 1) if signed else (0, (1 << 64) - 1)
        ok = simp(z3.And(s.len > start, alldig, val >= lo, val <= hi))
        ty = "i64" if signed else "u64"
        return VEnum("Result", simp(z3.If(ok, I(0), I(1))), {0: [VInt(val, ty)], 1: [VOpaque("ParseIntError")]})

    def strip_prefix(ex_, st, args, dest_ty, func, where):
        s, p = _str_of(ex_, st, args[0]), _str_of(ex_, st, args[1])
        m = simp(p.len).as_long()
        hit = simp(z3.And(s.len >= m, *[s.at(I(j)) == simp(p.at(I(j))) for j in range(m)]))
        return opt_sym(hit, VRef("val", val=VSeq(s.arr, simp(s.off + m), simp(s.len - m), "char")))

    def str_is_empty(ex_, st, args, dest_ty, func, where):
        return VBool(simp(_str_of(ex_, st, args[0]).len == 0))

    def path_from(ex_, st, args, dest_ty, func, where):
        return _str_of(ex_, st, args[0])

    def map_new(ex_, st, args, dest_ty, func, where):
        return VStruct("RecMap", [])

    def map_insert(ex_, st, args, dest_ty, func, where):
        inserts.append({"guard": st.guard, "key": deep(args[1], st), "value": deep(args[2], st)})
        return VEnum("Option", ex_.fresh_int("had", lo=0, hi=1), {0: [], 1: [VOpaque("old")]})

    def ident(ex_, st, args, dest_ty, func, where):
        return args[0]
    M = [(r"^core::slice::<impl \[u8\]>::split::<", sl_split, "<[u8]>::split(pred) (contract model)"),
         (r"^<std::slice::Split<'_, u8, .*> as IntoIterator>::into_iter$", ident, "Split::into_iter"),
         (r"^<std::slice::Split<'_, u8, .*> as Iterator>::next$", sl_split_next, "slice::Split::next (pieces between separators, incl. the trailing empty one)"),
         (r"^core::slice::<impl \[u8\]>::is_empty$", sl_is_empty, "<[u8]>::is_empty"),
         (r"^(std::string::)?String::from_utf8_lossy$", lossy, "String::from_utf8_lossy (identity on ASCII; non-ASCII outside the model)"),
         (r"^<Cow<'_, str> as Deref>::deref$", cow_deref, "Cow<str>::deref"),
         (r"^core::str::<impl str>::splitn::<char>$", splitn, "str::splitn(n, char)"),
         (r"^<std::str::SplitN<'_, char> as Iterator>::next$|^<std::str::Split<'_, char> as Iterator>::next$", splitn_next, "SplitN/Split::next"),
         (r"^core::str::<impl str>::split::<char>$", split_ch, "str::split(char)"),
         (r"^core::str::<impl str>::parse::<(u64|i64)>$", parse_int, "str::parse::<u64/i64> (optional sign, digits, range)"),
         (r"^core::str::<impl str>::strip_prefix::<&str>$", strip_prefix, "str::strip_prefix(&str)"),
         (r"^core::str::<impl str>::is_empty$", str_is_empty, "str::is_empty"),
         (r"^<PathBuf as From<&str>>::from$", path_from, "PathBuf::from(&str) (the same characters)"),
         (r"^BTreeMap::<PathBuf, FileMeta>::new$", map_new, "BTreeMap::new (recording)"),
         (r"^BTreeMap::<PathBuf, FileMeta>::insert$", map_insert, "BTreeMap::insert (recorded)")]
    ex.models = [(re.compile(p), h, l) for p, h, l in M] + ex.models


def mk_ex(ctx, inserts, K):
    ex = Executor(ctx.mir, ctx.enums, K=K)
    ex.impl_index = ctx.idx
    stdmodels.install_core(ex)
    stdmodels.install_time_fs(ex)
    itermodels.install(ex)
    ex.byte_cap = CAP
    stdmodels.install_strings(ex, CAP)
    install(ex, inserts)
    return ex


def run_concrete(ctx, data):
    """the encoder + models on a concrete listing -> list of (path, size, mtime)"""
    ins = []
    ex = mk_ex(ctx, ins, K=8)
    arr = z3.K(z3.IntSort(), I(0))
    for i, b in enumerate(data):
        arr = z3.Store(arr, i, b)
    st = State()
    ex.exec_fn(ex.find_fn("parse_remote_meta_output"), [VRef("val", val=VSeq(arr, I(0), I(len(data)), "u8"))], st)
    out = {}
    for e in ins:
        if z3.is_true(simp(e["guard"])):
            k = e["key"]
            n = simp(k.len).as_long()
            key = "".join(chr(simp(k.at(I(j))).as_long()) for j in range(n))
            out[key] = [simp(e["value"].f[0].t).as_long(), simp(e["value"].f[1].t).as_long()]
    return out


def validate(ctx, R, seed, count):
    rnd = random.Random(seed)
    cases = []
    for _ in range(count):
        recs = []
        for _r in range(rnd.choice([1, 1, 2])):
            size = str(rnd.randrange(0, 1000))
            secs = ("-" if rnd.random() < 0.15 else "") + str(rnd.randrange(0, 1000))
            frac = rnd.choice(["", ".", ".5", ".25", ".0"])
            path = "".join(rnd.choice(PATH_ALPHABET) for _ in range(rnd.randrange(1, 4)))
            recs.append("%s\t%s%s\t./%s\0" % (size, secs, frac, path))
        if rnd.random() < 0.2:
            recs.insert(rnd.randrange(len(recs) + 1), rnd.choice(["\0", "x\0", "1\t2\0", "a\t1\t./p\0", "1\t\t./q\0", "5\t7\t./\0"]))
        cases.append("".join(recs))
    cases = [c for c in cases if len(c) <= CAP]
    nat = native.run_cases([{"fn": "parse_remote", "data": list(c.encode())} for c in cases], "dev")
    dis = []
    for c, r in zip(cases, nat):
        got = run_concrete(ctx, list(c.encode()))
        want = {k: v for k, v in (r.get("result") or {}).items()}
        if got != want:
            dis.append((c, got, want))
    R.validation["cases"] += len(cases)
    R.validation["disagreements"] += len(dis)
    R.validation["samples"] += [repr(d)[:200] for d in dis[:3]]
    return dis


def obligation(ctx, R, prover, pid="C19", size_digits=2, sec_digits=2, path_len=2):
    global CAP
    # capacity of the text-routine models: the longest listing of this instance (the thorough instance is 26 bytes long; with the
    # fixed capacity 24 the models did not see its last separator and the obligation ended INCONCLUSIVE - a machinery bug)
    CAP = max(24, 8 + size_digits + 1 + 1 + sec_digits + 1 + 2 + 1 + 2 + path_len + 1 + 2)
    ins = []
    ex = mk_ex(ctx, ins, K=6)
    first = "7\t8\t./x\0"
    arr = z3.K(z3.IntSort(), I(0))
    for i, ch in enumerate(first):
        arr = z3.Store(arr, i, ord(ch))
    off = I(len(first))
    comps = {}

    def put(term, cond=None):
        nonlocal arr, off
        if cond is None:
            arr = z3.Store(arr, off, term)
            off = simp(off + 1)
        else:
            arr = z3.Store(arr, off, z3.If(cond, term, z3.Select(arr, off)))
            off = simp(off + z3.If(cond, 1, 0))

    def digits(name, n):
        ln = ex.fresh_int(name + "_digits", lo=1, hi=n)
        ds = [ex.fresh_int("%s_d%d" % (name, i), lo=0, hi=9) for i in range(n)]
        val = I(0)
        for i in range(n):
            put(ord("0") + ds[i], i < ln)
            val = z3.If(i < ln, val * 10 + ds[i], val)
        return ln, ds, simp(val)
    sl, sd, sval = digits("size", size_digits)
    put(I(9))
    negs = ex.fresh_bool("negative_seconds")
    put(I(ord("-")), negs)
    tl, td, tval = digits("secs", sec_digits)
    has_dot = ex.fresh_bool("has_fraction")
    put(I(ord(".")), has_dot)
    fl = ex.fresh_int("frac_digits", lo=0, hi=2)
    fd = [ex.fresh_int("frac_d%d" % i, lo=0, hi=9) for i in range(2)]
    for i in range(2):
        put(ord("0") + fd[i], z3.And(has_dot, i < fl))
    put(I(9))
    put(I(ord(".")))
    put(I(ord("/")))
    pl = ex.fresh_int("path_len", lo=1, hi=path_len)
    pc = [ex.fresh_int("path_c%d" % i, lo=0, hi=127) for i in range(path_len)]
    for i in range(path_len):
        ex.assumes.append(z3.Or(*[pc[i] == ord(a) for a in PATH_ALPHABET]))
        put(pc[i], i < pl)
    put(I(0))
    total = off
    st = State()
    res = ex.exec_fn(ex.find_fn("parse_remote_meta_output"), [VRef("val", val=VSeq(arr, I(0), total, "u8"))], st)
    if res is None:
        raise Inconclusive("parse_remote_meta_output never returns")
    ex.exit_guards.append(st.guard)
    secs = simp(z3.If(negs, -tval, tval))

    def is_first(e):
        k = e["key"]
        return z3.And(k.len == 1, k.at(I(0)) == ord("x"), e["value"].f[0].t == 7, e["value"].f[1].t == 8)

    def is_second(e):
        k = e["key"]
        return z3.And(k.len == pl, *[z3.Implies(i < pl, k.at(I(i)) == pc[i]) for i in range(path_len)], e["value"].f[0].t == sval, e["value"].f[1].t == secs)
    n_ins = sum([z3.If(e["guard"], 1, 0) for e in ins]) if ins else I(0)
    goals = {"every-printed-record-is-parsed-back-into-its-(path,-size,-whole-second-mtime)-triple": z3.And(
        n_ins == 2, _any(z3.And(e["guard"], is_first(e)) for e in ins), _any(z3.And(e["guard"], is_second(e)) for e in ins),
        _all(z3.Implies(e["guard"], z3.Or(is_first(e), is_second(e))) for e in ins))}

    def witness(name, model, neg):
        n = model_int(model, total)
        data = [model_int(model, z3.Select(arr, i)) % 256 for i in range(n)]
        case = {"fn": "parse_remote", "data": data}
        res_n = native.run_both(case)
        want = {"x": [7, 8]}
        p_ = "".join(chr(model_int(model, c)) for c in pc[:model_int(model, pl)])
        want[p_] = [model_int(model, sval), model_int(model, secs)]
        bad = {p: r for p, r in res_n.items() if "panic" in r or r.get("result") != want}
        if bad:
            case["observed"] = res_n
            case["expected"] = want
            return {"confirmed": True, "replay_path": R.save_replay("%s/parse_remote_meta_output" % pid, case), "key": "%s/parse_remote_meta_output" % pid,
                    "detail": "parse_remote_meta_output(%r): native %s, printed triples %s" % (bytes(data), json.dumps(bad)[:200], want)}
        return {"confirmed": False, "detail": "native parse of %r gives the printed triples (encoding problem)" % bytes(data)}
    prover.prove(ex, goals, "%s/parse_remote_meta_output" % pid,
                 "a listing of two records: one concrete, one with size (1..%d digits), optional '-', seconds (1..%d digits), optional fraction (0..2 digits) and a path of 1..%d "
                 "characters over %r all symbolic; std text routines are contract models validated natively" % (size_digits, sec_digits, path_len, PATH_ALPHABET),
                 ["parse_remote_meta_output", "parse_remote_meta_output::{closure#0}", "parse_remote_meta_output::{closure#1}"], witness,
                 covers={"negative-with-fraction-reachable": z3.And(negs, has_dot, fl > 0), "tab-in-name-reachable": z3.Or(*[z3.And(i < pl, pc[i] == 9) for i in range(path_len)])})


def run(R, tier, seed, pid="C19"):
    from mirsmt.prove import Prover
    ctx = Ctx()
    try:
        dis = validate(ctx, R, seed, 40 if tier == "quick" else 200)
        if dis:
            R.add("%s/parse_remote_meta_output/encoding" % pid, "inconclusive", detail="text-routine models disagree with the native parser on %d concrete listings: %s" % (len(dis), repr(dis[0])[:300]))
            return
        obligation(ctx, R, Prover(R, tier), pid, *((2, 2, 2) if tier == "quick" else (3, 3, 3)))
    except (Inconclusive, Unsupported) as e:
        R.add("%s/parse_remote_meta_output/encoding" % pid, "inconclusive", detail=str(e)[:400])
