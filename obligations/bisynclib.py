"""Bisync apply step (bidir.rs) and the archive (archive.rs) from MIR, with the file system as an EFFECT RECORDER
(mirsmt/fsmodels.py).  Shared by C02 (no version is lost by one apply step), C06 (deterministic winner, recorded common
state), C07 (archive gate: any mismatch => no base => never a delete) and C08 (staging + rename order; archive written
after the data).

Decided: what ONE `apply` / `copy_atomic` / `Archive::save` / `Archive::load` call requests of the file system, on which
paths, in which order and under which conditions, from an arbitrary state, every operation allowed to fail.
NOT explored: histories of runs, crash points between two system calls, the directory scan, serde_json itself.
"""
import json
import z3

from mirsmt import env, stdmodels, patchmodels, codecmodels, fsmodels, itermodels
from mirsmt.fsmodels import PJ, PS, PP, lit_id, pathv, strv
from mirsmt.symexec import (Executor, State, VInt, VBool, VStruct, VEnum, VRef, VSeq, VList, VOpaque, UNIT, I, simp, Unsupported)
from mirsmt.env import model_int, model_bool, Inconclusive
from mirsmt.stdmodels import opt_sym, none
from .hublib import _any, _all

WANT = ("apply", "copy_atomic", "short_hex", "run_bisync", "host_id")

PRES = z3.Function("map_has", z3.IntSort(), z3.IntSort(), z3.BoolSort())
FPB = [z3.Function("map_fp_b%d" % i, z3.IntSort(), z3.IntSort(), z3.IntSort()) for i in range(32)]
FPT = z3.Function("map_fp_type", z3.IntSort(), z3.IntSort(), z3.IntSort())
SHORTHEX = z3.Function("short_hex_text", *([z3.IntSort()] * 7))


class Ctx:
    def __init__(self):
        from .hublib import source_fns
        want = set(WANT) | source_fns("bidir.rs", "archive.rs")

        def keep(n):
            return n in want or n.startswith(tuple(w + "::" for w in want)) or n.startswith(("archive::", "bidir::")) \
                or n in ("reconcile", "reconcile_path") or n.startswith(("reconcile::", "reconcile_path::"))
        self.mir, self.mir_path, self.dump_s = env.load("bin", keep)
        self.idx = env.impl_index(self.mir)
        self.enums = env.source_enums()

    def ex(self, K=4):
        e = Executor(self.mir, self.enums, K=K)
        e.impl_index = self.idx
        stdmodels.install_core(e)
        stdmodels.install_time_fs(e)
        itermodels.install(e)
        e.byte_cap = 4
        e.hash_cap = 4
        patchmodels.install(e)
        codecmodels.install(e)
        fsmodels.install(e)
        _install_map_models(e)
        return e

    def fn(self, ex, name):
        cands = [n for n in self.mir.fns if n == name or n.endswith("::" + name)]
        key = self.idx.get(name, name)
        f = ex.find_fn(key) or (ex.find_fn(cands[0]) if len(cands) == 1 else None)
        if f is None:
            raise Inconclusive("no (unique) MIR body for `%s`" % name)
        return f

    def variant(self, enum, name):
        e = self.enums.get(enum)
        if not e or name not in e:
            raise Inconclusive("enum %s::%s not found in the source" % (enum, name))
        return e[name]


def fp_of(mapid, key, ctx=None):
    """the fingerprint a map holds for a key, as uninterpreted functions of (map, key)"""
    arr = VStruct("[array]", [VInt(FPB[i](mapid, key), "u8") for i in range(32)])
    return VStruct("Fingerprint", [arr, VEnum("FileType", FPT(mapid, key), {0: [], 1: []})])


def fp_bytes(v):
    while isinstance(v, VRef):
        v = v.val
    arr = v.f[0]
    while isinstance(arr, VRef):
        arr = arr.val
    return [x.t for x in arr.f], v.f[1].discr


def _install_map_models(ex):
    """BTreeMap<PathBuf, Fingerprint> as an abstract map: get/contains_key are uninterpreted functions of (map, key);
    insert/remove (only the `common` map is mutated) are recorded in the trace"""
    import re as _re

    def mapid(ex_, st, v):
        m = fsmodels._deep(ex_, st, v)
        if not (isinstance(m, VStruct) and m.name == "AbsMap"):
            raise Unsupported("map operation on %r" % (m,))
        return m.f[0].t

    def mget(ex_, st, args, dest_ty, func, where):
        m, k = mapid(ex_, st, args[0]), fsmodels.path_term(ex_, st, args[1])
        return opt_sym(PRES(m, k), VRef("val", val=fp_of(m, k)))

    def mcontains(ex_, st, args, dest_ty, func, where):
        m, k = mapid(ex_, st, args[0]), fsmodels.path_term(ex_, st, args[1])
        return VBool(PRES(m, k))

    def minsert(ex_, st, args, dest_ty, func, where):
        m, k = mapid(ex_, st, args[0]), fsmodels.path_term(ex_, st, args[1])
        v = fsmodels._deep(ex_, st, args[2])
        fsmodels.record(ex_, st, "map-insert", path=k, map=m, value=v, ok=z3.BoolVal(True))
        return VEnum("Option", ex_.fresh_int("old_present", lo=0, hi=1), {0: [], 1: [VOpaque("previous value")]})

    def mremove(ex_, st, args, dest_ty, func, where):
        m, k = mapid(ex_, st, args[0]), fsmodels.path_term(ex_, st, args[1])
        fsmodels.record(ex_, st, "map-remove", path=k, map=m, ok=z3.BoolVal(True))
        return VEnum("Option", ex_.fresh_int("old_present", lo=0, hi=1), {0: [], 1: [VOpaque("previous value")]})

    def mentry(ex_, st, args, dest_ty, func, where):
        m, k = mapid(ex_, st, args[0]), fsmodels.path_term(ex_, st, args[1])
        return VStruct("AbsEntry", [VInt(m, "usize"), VInt(k, "usize")])

    def or_insert(ex_, st, args, dest_ty, func, where):
        e = fsmodels._deep(ex_, st, args[0])
        v = fsmodels._deep(ex_, st, args[1])
        fsmodels.record(ex_, st, "map-insert-if-absent", path=e.f[1].t, map=e.f[0].t, value=v, ok=z3.BoolVal(True))
        return VRef("val", val=v)

    def vpush(ex_, st, args, dest_ty, func, where):
        fsmodels.record(ex_, st, "conflict-listed", path=fsmodels.path_term(ex_, st, args[1]), ok=z3.BoolVal(True))
        return UNIT

    def arr_ge(ex_, st, args, dest_ty, func, where):
        a, b = fsmodels._deep(ex_, st, args[0]), fsmodels._deep(ex_, st, args[1])
        xs, ys = [x.t for x in a.f], [y.t for y in b.f]
        op = func.rsplit("::", 1)[1]
        # lexicographic comparison
        gt, eq = z3.BoolVal(False), z3.BoolVal(True)
        for x, y in zip(xs, ys):
            gt = z3.Or(gt, z3.And(eq, x > y))
            eq = z3.And(eq, x == y)
        t = {"ge": z3.Or(gt, eq), "gt": gt, "le": z3.Not(gt), "lt": z3.Not(z3.Or(gt, eq))}[op]
        return VBool(simp(t))
    ex.models = [(_re.compile(r"^BTreeMap::<PathBuf, Fingerprint>::get::<"), mget, "BTreeMap::get (abstract map: uninterpreted functions of map and key)"),
                 (_re.compile(r"^BTreeMap::<PathBuf, Fingerprint>::contains_key::<"), mcontains, "BTreeMap::contains_key (abstract map)"),
                 (_re.compile(r"^BTreeMap::<PathBuf, Fingerprint>::insert$"), minsert, "BTreeMap::insert (recorded)"),
                 (_re.compile(r"^BTreeMap::<PathBuf, Fingerprint>::remove::<"), mremove, "BTreeMap::remove (recorded)"),
                 (_re.compile(r"^BTreeMap::<PathBuf, Fingerprint>::entry$"), mentry, "BTreeMap::entry (abstract map)"),
                 (_re.compile(r"^(std::collections::btree_map::)?Entry::<'_, PathBuf, Fingerprint>::or_insert$"), or_insert, "Entry::or_insert (recorded as insert-IF-ABSENT: not an update)"),
                 (_re.compile(r"^Vec::<PathBuf>::push$"), vpush, "Vec<PathBuf>::push (recorded)"),
                 (_re.compile(r"^<\[u8; 32\] as PartialOrd>::(ge|gt|le|lt)$"), arr_ge, "<[u8; 32] as PartialOrd> (lexicographic)"),
                 ] + ex.models


def lex_ge(xs, ys):
    gt, eq = z3.BoolVal(False), z3.BoolVal(True)
    for x, y in zip(xs, ys):
        gt = z3.Or(gt, z3.And(eq, x > y))
        eq = z3.And(eq, x == y)
    return z3.Or(gt, eq)


# ----------------------------------------------------------------- apply

class ApplyWorld:
    def __init__(self, ctx, ex):
        self.ctx, self.ex = ctx, ex
        self.RA, self.RB, self.REL, self.HOST = z3.Int("ROOT_A"), z3.Int("ROOT_B"), z3.Int("REL"), z3.Int("HOSTNAME")
        self.MA, self.MB, self.MC = I(1), I(2), I(3)
        self.pa, self.pb = PJ(self.RA, self.REL), PJ(self.RB, self.REL)
        ex.summaries["short_hex"] = self._short_hex

    def _short_hex(self, ex, st, args, dest_ty, func, where):
        h = fsmodels._deep(ex, st, args[0])
        return strv(SHORTHEX(*[x.t for x in h.f[:6]]))

    def action(self):
        ex, ctx = self.ex, self.ctx
        names = sorted(ctx.enums["Action"], key=lambda k: ctx.enums["Action"][k])
        d = ex.fresh_int("action", lo=0, hi=len(names) - 1)
        kd = ex.fresh_int("conflict_kind", lo=0, hi=len(ctx.enums["ConflictKind"]) - 1)
        pay = {ctx.enums["Action"][n]: [] for n in names}
        pay[ctx.enums["Action"]["Conflict"]] = [VEnum("ConflictKind", kd, {v: [] for v in ctx.enums["ConflictKind"].values()})]
        return VEnum("Action", d, pay), d, kd

    def tmp(self, p):
        return PS(p, lit_id(".copia-tmp"))


def _subterms(t, name, acc):
    if z3.is_app(t):
        if t.decl().name() == name:
            acc.add(t)
        for c in t.children():
            _subterms(c, name, acc)


def naming_facts(ex, W):
    """ASSUMED naming facts for the uninterpreted path constructors: join is injective (the two roots are disjoint
    trees), a name with a suffix differs from the name, differently built suffixed names differ"""
    joins, sufs = set(), set()
    for e in fsmodels.effects(ex):
        for k in ("path", "to"):
            t = e.get(k)
            if t is not None and not isinstance(t, int):
                t = simp(t)
                _subterms(t, "path_join", joins)
                _subterms(t, "path_suffix", sufs)
    joins |= {W.pa, W.pb}
    joins, sufs = list(joins), list(sufs)
    facts = [W.RA != W.RB]
    for i, a in enumerate(joins):
        for b in joins[i + 1:]:
            facts.append((a == b) == z3.And(a.arg(0) == b.arg(0), a.arg(1) == b.arg(1)))
    for t in sufs:
        facts.append(t != t.arg(0))
        for j in joins:
            facts.append(t != j)
    for i, a in enumerate(sufs):
        for b in sufs[i + 1:]:
            facts.append((a == b) == z3.And(a.arg(0) == b.arg(0), a.arg(1) == b.arg(1)))
    ex.assumes += facts
    return ["path naming (ASSUMED): join(root, rel) is injective and the two roots are disjoint trees; a name with a suffix appended is a different file from the name "
            "and from every un-suffixed path; differently built suffixed names differ"]


def apply_obligations(ctx, R, prover, pid):
    ex = ctx.ex()
    W = ApplyWorld(ctx, ex)
    act, d, kd = W.action()
    A = ctx.enums["Action"]
    CK = ctx.enums["ConflictKind"]
    st = State()
    st.frames[0] = {"common": VStruct("AbsMap", [VInt(W.MC, "usize")]), "conflicts": VStruct("ConflictList", [])}
    res = ex.exec_fn(ctx.fn(ex, "apply"),
                     [VRef("val", val=pathv(W.RA)), VRef("val", val=pathv(W.RB)), VRef("val", val=pathv(W.REL)), act,
                      VRef("val", val=VStruct("AbsMap", [VInt(W.MA, "usize")])), VRef("val", val=VStruct("AbsMap", [VInt(W.MB, "usize")])),
                      VRef("val", val=strv(W.HOST)), VRef("place", 0, "common"), VRef("place", 0, "conflicts")], st)
    if res is None:
        raise Inconclusive("apply never returns")
    ex.exit_guards.append(st.guard)
    R.assumptions += [a for a in naming_facts(ex, W) if a not in R.assumptions]
    ok = simp(res.discr == 0)
    eff = fsmodels.effects(ex)
    copies = [e for e in eff if e["call"] == "copy"]
    renames = [e for e in eff if e["call"] == "rename"]
    removes = [e for e in eff if e["call"] in ("remove_file", "remove_dir_all")]
    inserts = [e for e in eff if e["call"] == "map-insert"]
    mremoves = [e for e in eff if e["call"] == "map-remove"]
    fsreq = [e for e in eff if e["call"] in ("copy", "rename", "remove_file", "remove_dir_all", "create", "write", "create_dir_all")]
    is_ = lambda n: d == A[n]
    both = z3.And(is_("Conflict"), kd == CK["BothChanged"])
    dvm = z3.And(is_("Conflict"), kd == CK["DeleteVsModify"])
    a_has, b_has = PRES(W.MA, W.REL), PRES(W.MB, W.REL)
    fa, fb = [FPB[i](W.MA, W.REL) for i in range(32)], [FPB[i](W.MB, W.REL) for i in range(32)]
    a_wins = lex_ge(fa, fb)

    # an "atomic copy src -> dst that took effect": copy(src, tmp(dst)) ok, then rename(tmp(dst), dst)
    def delivered(src, dst, before=None):
        return _any(z3.And(c["guard"], c["ok"], c["path"] == src, c["to"] == W.tmp(dst), r["guard"], r["path"] == W.tmp(dst), r["to"] == dst, r["ok"])
                    for c in copies for r in renames if c["seq"] < r["seq"] and (before is None or r["seq"] < before))

    def loser_name_ok(t, lose_bytes):
        """t == suffix(REL, format(<template>, HOST, short_hex(loser digest)))"""
        t = simp(t)
        conds = []
        for root in (W.RA, W.RB):
            pass
        return t

    goals = {}
    if pid in ("C02", "C08"):
        goals["copies-go-to-a-staging-sibling-and-only-a-rename-puts-bytes-at-a-path"] = z3.And(
            _all(z3.Implies(c["guard"], _any(z3.And(r["path"] == c["to"], c["to"] == W.tmp(r["to"])) for r in renames if r["seq"] > c["seq"])) for c in copies),
            _all(z3.Implies(r["guard"], _any(z3.And(c["guard"], c["ok"], c["to"] == r["path"], r["path"] == W.tmp(r["to"])) for c in copies if c["seq"] < r["seq"])) for r in renames),
            _all(z3.Not(e["guard"]) for e in eff if e["call"] in ("create", "write")))
    if pid == "C08":
        syncs = [e for e in eff if e["call"] in ("sync_all", "sync_data")]
        goals["a-staged-copy-is-flushed-to-stable-storage-before-the-rename-publishes-it"] = _all(
            z3.Implies(r["guard"], _any(z3.And(s_["guard"], s_["ok"], s_["path"] == r["path"], z3.BoolVal(s_["seq"] < r["seq"]),
                                               _any(z3.And(c["guard"], c["to"] == r["path"], z3.BoolVal(c["seq"] < s_["seq"])) for c in copies)) for s_ in syncs))
            for r in renames)
    if pid == "C07":
        goals["a-file-is-removed-only-by-a-Delete-action,-and-only-that-side's-path"] = _all(
            z3.Implies(e["guard"], z3.Or(z3.And(is_("DeleteA"), e["path"] == W.pa), z3.And(is_("DeleteB"), e["path"] == W.pb))) for e in removes)
    if pid == "C02":
        goals["a-file-is-removed-only-by-a-Delete-action,-and-only-that-side's-path"] = _all(
            z3.Implies(e["guard"], z3.Or(z3.And(is_("DeleteA"), e["path"] == W.pa), z3.And(is_("DeleteB"), e["path"] == W.pb))) for e in removes)
        goals["Noop-and-ConvergeIdentical-request-nothing-of-the-file-system"] = z3.Implies(
            z3.Or(is_("Noop"), is_("ConvergeIdentical")), _all(z3.Not(e["guard"]) for e in fsreq))
        goals["a-live-path-is-overwritten-only-as-the-action-says"] = _all(
            z3.Implies(z3.And(r["guard"], z3.Or(r["to"] == W.pa, r["to"] == W.pb)), z3.Or(
                z3.And(is_("PropagateAtoB"), r["to"] == W.pb), z3.And(is_("PropagateBtoA"), r["to"] == W.pa),
                z3.And(dvm, a_has, r["to"] == W.pb), z3.And(dvm, z3.Not(a_has), b_has, r["to"] == W.pa),
                z3.And(both, a_has, b_has, a_wins, r["to"] == W.pb), z3.And(both, a_has, b_has, z3.Not(a_wins), r["to"] == W.pa)))
            for r in renames)
        goals["what-lands-on-a-live-path-comes-from-the-other-side's-live-path"] = _all(
            z3.Implies(z3.And(r["guard"], r["to"] == W.pa), _any(z3.And(c["guard"], c["ok"], c["path"] == W.pb, c["to"] == r["path"]) for c in copies if c["seq"] < r["seq"]))
            for r in renames) if renames else z3.BoolVal(True)
        # both-changed: the loser survives on BOTH sides before its own path is overwritten
        conds = []
        for r in renames:
            for (lose_p, win_p, lose_root, win_root, cond) in ((W.pb, W.pa, W.RB, W.RA, a_wins), (W.pa, W.pb, W.RA, W.RB, z3.Not(a_wins))):
                saved = []
                for r1 in renames:
                    for r2 in renames:
                        if r1["seq"] < r2["seq"] < r["seq"]:
                            n1, n2 = simp(r1["to"]), simp(r2["to"])
                            saved.append(z3.And(delivered(lose_p, r1["to"], r["seq"]), delivered(lose_p, r2["to"], r["seq"]),
                                                _same_conflict_name(r1["to"], r2["to"], lose_root, win_root, W)))
                conds.append(z3.Implies(z3.And(r["guard"], both, cond, r["to"] == lose_p), _any(saved)))
        goals["both-changed:-the-losing-version-is-delivered-to-a-conflict-name-on-BOTH-sides-before-its-path-is-overwritten"] = _all(conds)
        # a conflict copy is named after the digest of its content; a file ALREADY at that name with another digest (a conflict copy the
        # user has edited since) is a version of its own and must not be overwritten
        clob = []
        for r in renames:
            t = simp(r["to"])
            if z3.is_app(t) and t.decl().name() == "path_join" and _fmt_parts(simp(t.arg(1))) is not None:
                name = t.arg(1)
                for root, m in ((W.RA, W.MA), (W.RB, W.MB)):
                    loser = [z3.If(a_wins, y, x) for x, y in zip(fa, fb)]
                    same = z3.And(*[FPB[i](m, name) == loser[i] for i in range(32)])
                    clob.append(z3.Implies(z3.And(r["guard"], both, t.arg(0) == root, PRES(m, name)), same))
        goals["a-conflict-copy-never-overwrites-a-DIFFERENT-file-already-at-that-name-(an-edited-earlier-conflict-copy)"] = _all(clob)
        goals["delete-vs-modify-never-removes-anything-and-restores-the-survivor"] = z3.Implies(
            z3.And(dvm, ok), z3.And(z3.Implies(a_has, delivered(W.pa, W.pb)), z3.Implies(z3.And(z3.Not(a_has), b_has), delivered(W.pb, W.pa))))
        goals["propagation-delivers-or-reports-an-error"] = z3.And(
            z3.Implies(z3.And(is_("PropagateAtoB"), ok), delivered(W.pa, W.pb)), z3.Implies(z3.And(is_("PropagateBtoA"), ok), delivered(W.pb, W.pa)))
    if pid == "C06":
        # a conflict NAME enters the recorded common state only if the losing version was really delivered to that name on both
        # sides (recorded state = tree: "it is there already" is not something apply may assume of a name it did not write)
        crec = []
        for e in inserts:
            for (lose_p, lose_root, win_root, cond) in ((W.pb, W.RB, W.RA, a_wins), (W.pa, W.RA, W.RB, z3.Not(a_wins))):
                got = []
                for r1 in renames:
                    for r2 in renames:
                        if r1["seq"] < r2["seq"]:
                            got.append(z3.And(delivered(lose_p, r1["to"]), delivered(lose_p, r2["to"]), _same_conflict_name(r1["to"], r2["to"], lose_root, win_root, W)))
                crec.append(z3.Implies(z3.And(e["guard"], e["path"] != W.REL, both, cond), _any(got)))
        goals["a-conflict-copy-is-recorded-only-if-the-losing-version-was-delivered-to-that-name-on-both-sides"] = _all(crec)
        # the version with the greater BLAKE3 stays at the path on both sides; the other goes to <path>.conflict-<host>-<12 hex>
        conds = []
        for r in renames:
            conds.append(z3.Implies(z3.And(r["guard"], both, a_has, b_has, r["to"] == W.pb), a_wins))
            conds.append(z3.Implies(z3.And(r["guard"], both, a_has, b_has, r["to"] == W.pa), z3.Not(a_wins)))
        goals["both-changed:-the-path-keeps-the-version-with-the-greater-digest-(ties:-A)"] = _all(conds)
        names = []
        for r in renames:
            t = simp(r["to"])
            names.append(z3.Implies(z3.And(r["guard"], both, r["to"] != W.pa, r["to"] != W.pb),
                                    z3.Or(_is_conflict_of(t, W.RA, W, fa, fb, a_wins), _is_conflict_of(t, W.RB, W, fa, fb, a_wins))))
        goals["both-changed:-the-conflict-copy-is-named-<path>.conflict-<host>-<short-hex-of-the-LOSING-digest>-under-a-root"] = _all(names)
        # recorded common state
        rec = []
        for e in inserts:
            vb, vt = fp_bytes(e["value"])
            is_fa = z3.And(*[x == y for x, y in zip(vb, fa)], vt == FPT(W.MA, W.REL))
            is_fb = z3.And(*[x == y for x, y in zip(vb, fb)], vt == FPT(W.MB, W.REL))
            rec.append(z3.Implies(z3.And(e["guard"], e["path"] == W.REL), z3.Or(
                z3.And(z3.Or(is_("PropagateAtoB"), is_("ConvergeIdentical")), a_has, is_fa), z3.And(is_("PropagateBtoA"), b_has, is_fb),
                z3.And(dvm, a_has, is_fa), z3.And(dvm, z3.Not(a_has), b_has, is_fb),
                z3.And(both, a_wins, is_fa), z3.And(both, z3.Not(a_wins), is_fb))))
            rec.append(z3.Implies(z3.And(e["guard"], e["path"] != W.REL), z3.And(both, z3.Or(z3.And(a_wins, is_fb), z3.And(z3.Not(a_wins), is_fa)))))
            rec.append(z3.Implies(e["guard"], e["map"] == W.MC))
        goals["the-common-state-records-exactly-the-version-now-at-each-path"] = _all(rec)
        goals["a-Delete-action-forgets-the-path;-nothing-else-does"] = _all(
            z3.Implies(e["guard"], z3.And(z3.Or(is_("DeleteA"), is_("DeleteB")), e["path"] == W.REL, e["map"] == W.MC)) for e in mremoves)
        goals["Ok-propagation/convergence-records-the-path"] = z3.Implies(
            z3.And(ok, z3.Or(is_("PropagateAtoB"), is_("ConvergeIdentical")), a_has), _any(z3.And(e["guard"], e["path"] == W.REL) for e in inserts))
        goals["Ok-delete-vs-modify-records-the-surviving-version"] = z3.Implies(
            z3.And(ok, dvm, z3.Or(a_has, b_has)), _any(z3.And(e["guard"], e["path"] == W.REL) for e in inserts))
        goals["a-both-changed-conflict-is-reported-to-the-caller"] = z3.Implies(
            z3.And(ok, both, a_has, b_has), _any(z3.And(e["guard"], e["path"] == W.REL) for e in eff if e["call"] == "conflict-listed"))
    covers = {"conflict-overwrite-reachable": _any(z3.And(r["guard"], both, r["to"] == W.pb) for r in renames),
              "delete-reachable": _any(e["guard"] for e in removes)}
    from . import bisyncnative
    prover.prove(ex, goals, "%s/apply" % pid,
                 "one apply step from an arbitrary state: any action, any fingerprints on either side (maps are uninterpreted functions of map and key), any names, "
                 "every file-system operation may fail; sequential (no crash point between system calls)",
                 ["apply", "copy_atomic"], bisyncnative.make_witness(R, pid, "apply"), covers=covers)


def _fmt_parts(t):
    """t = path_suffix(base, fmt_text(tid, a0, a1)) -> (base, tid, a0, a1) or None"""
    if z3.is_app(t) and t.decl().name() == "path_suffix":
        base, text = t.arg(0), t.arg(1)
        if z3.is_app(text) and text.decl().name() == "fmt_text":
            return base, text.arg(0), text.arg(1), text.arg(2)
    return None


def _is_conflict_of(t, root, W, fa, fb, a_wins):
    """t == join(root, suffix(REL, format(tmpl, HOST, short_hex(loser digest))))"""
    t = simp(t)
    if not (z3.is_app(t) and t.decl().name() == "path_join"):
        return z3.BoolVal(False)
    parts = _fmt_parts(simp(t.arg(1)))
    if parts is None:
        return z3.BoolVal(False)
    base, tid, a0, a1 = parts
    loser = [z3.If(a_wins, y, x) for x, y in zip(fa, fb)]
    return z3.And(t.arg(0) == root, base == W.REL, a0 == W.HOST, a1 == SHORTHEX(*loser[:6]))


def _same_conflict_name(t1, t2, lose_root, win_root, W):
    """the two conflict copies carry the SAME relative name, one under each root"""
    t1, t2 = simp(t1), simp(t2)
    if not all(z3.is_app(t) and t.decl().name() == "path_join" for t in (t1, t2)):
        return z3.BoolVal(False)
    return z3.And(t1.arg(1) == t2.arg(1), z3.Or(z3.And(t1.arg(0) == lose_root, t2.arg(0) == win_root), z3.And(t1.arg(0) == win_root, t2.arg(0) == lose_root)),
                  z3.BoolVal(_fmt_parts(simp(t1.arg(1))) is not None))


# ----------------------------------------------------------------- Archive::load / Archive::save

PAIR_LEN = 3


def _pair_text(ex, name):
    """a pair id as TEXT: 0..PAIR_LEN one-byte characters (real ids are 64 hex digits; the comparison code cannot tell)"""
    arr = z3.Array(name, z3.IntSort(), z3.IntSort())
    ln = ex.fresh_int(name.lower() + "_len", lo=0, hi=PAIR_LEN)
    for i in range(PAIR_LEN):
        ex.assumes.append(z3.And(z3.Select(arr, i) >= 1, z3.Select(arr, i) <= 127))
    return VSeq(arr, I(0), ln, "char")


def _text_eq(a, b):
    return z3.And(a.len == b.len, *[z3.Implies(i < a.len, a.at(I(i)) == b.at(I(i))) for i in range(PAIR_LEN)])


def _install_archive_models(ex, text_pairs=False):
    import re as _re
    if text_pairs:
        stdmodels.install_strings(ex, PAIR_LEN)
        ex.pair_texts = (_pair_text(ex, "PARSED_PAIR_TEXT"), _pair_text(ex, "EXPECTED_PAIR_TEXT"))

    def fs_read(ex_, st, args, dest_ty, func, where):
        okr = ex_.fresh_bool("read_ok")
        kind = ex_.fresh_int("errkind", lo=1, hi=64)
        e = fsmodels.record(ex_, st, "read", path=fsmodels.path_term(ex_, st, args[0]), ok=okr, errkind=kind)
        n = ex_.fresh_int("file_bytes", lo=0, hi=(1 << 40))
        e["bytes_id"] = I(1000 + e["seq"])
        # the bytes of each read are named by a distinct offset marker (so the parser's input can be traced to a read)
        return fsmodels.io_result(ex_, okr, VSeq(z3.Array("FILE_BYTES_%d" % e["seq"], z3.IntSort(), z3.IntSort()), I(0), n, "u8"), kind=kind)

    def from_slice(ex_, st, args, dest_ty, func, where):
        src = codecmodels.as_seq(ex_, st, args[0])
        okp = ex_.fresh_bool("parse_ok")
        fv = ex_.fresh_int("parsed_format_version", ty="u32")
        arc = VStruct("Archive", [VInt(fv, "u32"), VStruct("String", [ex_.pair_texts[0]]) if text_pairs else strv(z3.Int("PARSED_PAIR")), VInt(ex_.fresh_int("parsed_epoch", ty="u64"), "u64"),
                                  strv(z3.Int("PARSED_HOST")), VStruct("AbsMap", [VInt(I(77), "usize")])])
        ex_.inputs = getattr(ex_, "inputs", {})
        ex_.inputs["parse"] = (okp, fv)
        fsmodels.record(ex_, st, "json-parse", path=I(0), ok=okp, input=str(src.arr))
        return VEnum("Result", simp(z3.If(okp, I(0), I(1))), {0: [arc], 1: [VOpaque("serde_json::Error")]})

    def to_vec(ex_, st, args, dest_ty, func, where):
        oks = ex_.fresh_bool("serialize_ok")
        n = ex_.fresh_int("json_len", lo=0, hi=(1 << 40))
        ex_.inputs = getattr(ex_, "inputs", {})
        ex_.inputs["json"] = (oks, n)
        return VEnum("Result", simp(z3.If(oks, I(0), I(1))), {0: [VSeq(z3.Array("JSON", z3.IntSort(), z3.IntSort()), I(0), n, "u8")], 1: [VOpaque("serde_json::Error")]})

    def string_eq(ex_, st, args, dest_ty, func, where):
        if text_pairs:
            t = _text_eq(stdmodels._str_of(ex_, st, args[0]), stdmodels._str_of(ex_, st, args[1]))
            return VBool(simp(z3.Not(t) if func.endswith("::ne") else t))
        a, b = fsmodels.text_term(ex_, st, args[0]), fsmodels.text_term(ex_, st, args[1])
        t = a == b
        return VBool(simp(z3.Not(t) if func.endswith("::ne") else t))
    ex.models = [(_re.compile(r"^std::fs::read::<"), fs_read, "fs::read (recorded; any bytes or an error)"),
                 (_re.compile(r"^(serde_json::)?from_slice::<"), from_slice, "serde_json::from_slice (CONTRACT: any value of the type, or an error)"),
                 (_re.compile(r"^(serde_json::)?to_vec_pretty::<"), to_vec, "serde_json::to_vec_pretty (CONTRACT: any bytes, or an error)"),
                 (_re.compile(r"^<(std::string::)?String as PartialEq<&?str>>::(eq|ne)$|^<&?str as PartialEq<.*>>::(eq|ne)$"), string_eq, "String == &str (texts are names: equal names <=> equal texts)"),
                 ] + ex.models


def format_version_const():
    import re
    src = open(env.REPO + "/src/bin/copia/archive.rs").read()
    m = re.search(r"const FORMAT_VERSION:\s*u32\s*=\s*(\d+);", src)
    if not m:
        raise Inconclusive("FORMAT_VERSION constant not found in archive.rs")
    return int(m.group(1))


def load_obligations(ctx, R, prover, pid):
    ex = ctx.ex()
    _install_archive_models(ex, text_pairs=True)
    PATH = z3.Int("ARCHIVE_PATH")
    parsed_pair, expected_pair = ex.pair_texts
    st = State()
    res = ex.exec_fn(ctx.fn(ex, "Archive::load"), [VRef("val", val=pathv(PATH)), VRef("val", val=expected_pair)], st)
    if res is None:
        raise Inconclusive("Archive::load never returns")
    ex.exit_guards.append(st.guard)
    eff = fsmodels.effects(ex)
    reads = [e for e in eff if e["call"] == "read"]
    parses = [e for e in eff if e["call"] == "json-parse"]
    if len(parses) != 1 or not reads:
        raise Inconclusive("expected reads and exactly one parse in Archive::load, found %d / %d" % (len(reads), len(parses)))
    okp, fv = ex.inputs["parse"]
    loaded = simp(res.discr == 1)
    FV = format_version_const()
    # the parsed bytes are those of a successful read OF THE ARCHIVE PATH
    from_archive = _any(z3.And(r["guard"], r["ok"], r["path"] == PATH, z3.BoolVal(parses[0]["input"] == "FILE_BYTES_%d" % r["seq"])) for r in reads)
    trusted = z3.And(from_archive, okp, fv == FV, _text_eq(parsed_pair, expected_pair))
    goals = {"an-archive-is-returned-only-if-it-was-read,-parsed,-has-format-version-%d-and-belongs-to-this-pair" % FV: loaded == trusted,
             "only-the-archive-file-is-read-and-nothing-is-written": _all(z3.Implies(e["guard"], z3.And(z3.BoolVal(e["call"] in ("read", "json-parse")), z3.Or(e["call"] != "read", e["path"] == PATH))) for e in eff)}
    if 1 in res.pay:
        a = fsmodels._deep(ex, st, res.pay[1][0])
        goals["the-returned-archive-is-the-parsed-one"] = z3.Implies(loaded, z3.And(a.f[0].t == fv, z3.BoolVal(isinstance(a.f[1], VStruct) and isinstance(a.f[1].f[0], VSeq) and str(a.f[1].f[0].arr) == "PARSED_PAIR_TEXT"), a.f[4].f[0].t == 77))
    from . import bisyncnative
    prover.prove(ex, goals, "%s/Archive::load" % pid,
                 "any path; the expected and the recorded pair id are TEXTS of 0..%d characters each (every character symbolic); reading may fail, the parser returns ANY Archive value or an error (serde_json is a contract)" % PAIR_LEN,
                 ["Archive::load"], bisyncnative.make_witness(R, pid, "load"), covers={"load-reachable": loaded})


def save_obligations(ctx, R, prover, pid):
    ex = ctx.ex()
    _install_archive_models(ex)
    PATH = z3.Int("ARCHIVE_PATH")
    st = State()
    arc = VStruct("Archive", [VInt(ex.fresh_int("fv", ty="u32"), "u32"), strv(z3.Int("PAIR")), VInt(ex.fresh_int("epoch", ty="u64"), "u64"), strv(z3.Int("HOST")),
                              VStruct("AbsMap", [VInt(I(5), "usize")])])
    res = ex.exec_fn(ctx.fn(ex, "Archive::save"), [VRef("val", val=arc), VRef("val", val=pathv(PATH))], st)
    if res is None:
        raise Inconclusive("Archive::save never returns")
    ex.exit_guards.append(st.guard)
    ok = simp(res.discr == 0)
    eff = fsmodels.effects(ex)
    tmp, bak = PS(PATH, lit_id(".tmp")), PS(PATH, lit_id(".bak"))
    ex.assumes += [tmp != PATH, bak != PATH, tmp != bak, PP(PATH) != PATH, PP(PATH) != tmp, PP(PATH) != bak]
    R.assumptions += [a for a in ["path naming (ASSUMED): `<archive>.tmp`, `<archive>.bak`, the archive and its parent directory are four different files"] if a not in R.assumptions]
    oks, jn = ex.inputs["json"]
    writes = [e for e in eff if e["call"] == "write"]
    syncs = [e for e in eff if e["call"] == "sync_all"]
    renames = [e for e in eff if e["call"] == "rename"]
    creates = [e for e in eff if e["call"] in ("create", "open-options")]
    opens = [e for e in eff if e["call"] == "open"]
    exists = [e for e in eff if e["call"] == "exists"]
    final = [r for r in renames]
    goals = {
        "the-archive-path-is-never-created-or-written-directly": z3.And(
            _all(z3.Implies(e["guard"], e["path"] == tmp) for e in creates + writes),
            _all(z3.Implies(e["guard"], z3.And(e["path"] != tmp, e["path"] != bak, e["path"] != PATH)) for e in opens)),
        "the-archive-is-replaced-only-by-renaming-the-.tmp-sibling-after-its-whole-content-was-written-and-synced": _all(
            z3.Implies(z3.And(r["guard"], r["to"] == PATH), z3.And(
                r["path"] == tmp, oks,
                _any(z3.And(w["guard"], w["ok"], w["path"] == tmp, w["bytes"].len == jn, simp(w["bytes"].off) == 0, w["bytes"].arr == z3.Array("JSON", z3.IntSort(), z3.IntSort()))
                     for w in writes if w["seq"] < r["seq"]),
                _any(z3.And(s_["guard"], s_["ok"], s_["path"] == tmp, _any(z3.And(w["guard"], z3.BoolVal(w["seq"] < s_["seq"])) for w in writes)) for s_ in syncs if s_["seq"] < r["seq"])))
            for r in renames),
        "every-rename-is-either-archive->.bak-or-.tmp->archive,-in-that-order": z3.And(
            _all(z3.Implies(r["guard"], z3.Or(z3.And(r["path"] == PATH, r["to"] == bak), z3.And(r["path"] == tmp, r["to"] == PATH))) for r in renames),
            _all(z3.Implies(z3.And(r1["guard"], r2["guard"], r1["to"] == bak, r2["to"] == PATH), z3.BoolVal(r1["seq"] < r2["seq"])) for r1 in renames for r2 in renames)),
        "an-existing-archive-is-kept-as-.bak-before-it-is-replaced": _all(
            z3.Implies(z3.And(r["guard"], r["to"] == PATH, _any(z3.And(x["guard"], x["ok"], x["path"] == PATH) for x in exists)),
                       _any(z3.And(b["guard"], b["path"] == PATH, b["to"] == bak) for b in renames if b["seq"] < r["seq"])) for r in renames),
        "Ok=>the-new-archive-was-renamed-into-place": z3.Implies(ok, _any(z3.And(r["guard"], r["ok"], r["path"] == tmp, r["to"] == PATH) for r in renames)),
        "the-parent-directory-is-synced-after-the-rename-when-it-can-be-opened": z3.Implies(
            z3.And(ok, _any(z3.And(o["guard"], o["ok"], o["path"] == PP(PATH)) for o in opens)),
            _any(z3.And(s_["guard"], s_["path"] == PP(PATH), _any(z3.And(r["guard"], r["to"] == PATH, z3.BoolVal(r["seq"] < s_["seq"])) for r in renames)) for s_ in syncs)),
        "nothing-is-removed": _all(z3.Not(e["guard"]) for e in eff if e["call"] == "remove_file"),
    }
    from . import bisyncnative
    prover.prove(ex, goals, "%s/Archive::save" % pid,
                 "any archive value and path; the serializer returns any bytes or an error; every file-system operation may fail; sequential",
                 ["Archive::save"], bisyncnative.make_witness(R, pid, "save"), covers={"replace-reachable": _any(z3.And(r["guard"], r["to"] == PATH) for r in renames)})


# ----------------------------------------------------------------- run_bisync: orchestration (C06 record, C07 trust gate, C08 order)

def run_obligations(ctx, R, prover, pid, U=2):
    """run_bisync from MIR over an ordered universe of U paths: the scans and Archive::load are inputs, `reconcile` runs
    from MIR, `apply` is replaced by the contract decided in apply_obligations (its effect on `common`, any outcome),
    Archive::save records the archive it is given."""
    import re as _re
    from mirsmt import deltamodels
    from .reconcile_tree import sym_fp, fp_eq, table_term
    from . import planlib
    ex = Executor(ctx.mir, ctx.enums, K=2 * U + 4)
    ex.impl_index = ctx.idx
    stdmodels.install_core(ex)
    stdmodels.install_time_fs(ex)
    itermodels.install(ex)
    ex.byte_cap = 4
    patchmodels.install(ex)
    codecmodels.install(ex)
    fsmodels.install(ex)
    stdmodels.install_collections(ex, 2 * U, 4 * U + 2)
    enums = ctx.enums
    A, CK = enums["Action"], enums["ConflictKind"]
    maps, fps, pres = {}, {}, {}
    for m in ("a", "b", "z"):
        entries = []
        for u in range(U):
            p = ex.fresh_bool("%s_has%d" % (m, u))
            fp = sym_fp(ex, "%s%d" % (m, u), enums)
            pres[(m, u)], fps[(m, u)] = p, fp
            entries.append(VStruct("entry", [VBool(p), fp[0]]))
        # ids U..2U-1 name the conflict copies `<path u>.conflict-<host>-<hash>`: fresh names, on neither side before the run
        # (ASSUMED), possibly recorded in the archive by an earlier run only if still on disk - taken as absent here
        for u in range(U):
            entries.append(VStruct("entry", [VBool(z3.BoolVal(False)), fps[(m, u)][0]]))
        maps[m] = stdmodels.mk_map(entries)
    loaded = ex.fresh_bool("archive_loaded")
    dry = ex.fresh_bool("dry_run")
    verbose = ex.fresh_bool("verbose")
    epoch0 = ex.fresh_int("loaded_epoch", lo=0, hi=(1 << 64) - 2)      # ASSUMED: the epoch counter is not at u64::MAX
    calls = {"scan": [], "reconcile": [], "apply": [], "save": [], "loser": []}

    def rec(kind, st, **kw):
        e = {"guard": st.guard, "seq": sum(len(v) for v in calls.values())}
        e.update(kw)
        calls[kind].append(e)
        return e

    def s_scan(ex_, st, args, dest_ty, func, where):
        root = fsmodels.path_term(ex_, st, args[0])
        which = "a" if not calls["scan"] else "b"
        rec("scan", st, root=root, which=which)
        return VEnum("Result", I(0), {0: [maps[which]]})

    def s_pair(ex_, st, args, dest_ty, func, where):
        return strv(z3.Int("PAIR"))

    def s_apath(ex_, st, args, dest_ty, func, where):
        return pathv(z3.Int("ARCHIVE_PATH"))

    def s_load(ex_, st, args, dest_ty, func, where):
        arc = VStruct("Archive", [VInt(I(1), "u32"), strv(z3.Int("PAIR")), VInt(epoch0, "u64"), strv(z3.Int("OLD_HOST")), maps["z"]])
        return opt_sym(loaded, arc)

    def s_host(ex_, st, args, dest_ty, func, where):
        return strv(z3.Int("HOSTNAME"))

    def s_fresh(ex_, st, args, dest_ty, func, where):
        return VStruct("Archive", [VInt(I(1), "u32"), fsmodels._deep(ex_, st, args[0]), VInt(I(0), "u64"), fsmodels._deep(ex_, st, args[1]), stdmodels.mk_map(
            [VStruct("entry", [VBool(z3.BoolVal(False)), fps[("z", u % U)][0]]) for u in range(2 * U)])])

    def entries_of(ex_, st, v):
        m = fsmodels._deep(ex_, st, v)
        return m.f[0].items

    def set_map(ex_, st, ref, entries):
        ex_.store_ref(st, ref, stdmodels.mk_map(entries))

    def s_apply(ex_, st, args, dest_ty, func, where):
        rel = stdmodels._key_id(ex_, st, args[2])
        act = fsmodels._deep(ex_, st, args[3])
        ea, eb = entries_of(ex_, st, args[4]), entries_of(ex_, st, args[5])
        cref = args[7]
        ec = entries_of(ex_, st, cref)
        okv = ex_.fresh_bool("apply_ok")
        rec("apply", st, rel=rel, act=act, ok=okv)
        d = act.discr
        kd = act.pay[A["Conflict"]][0].discr if A["Conflict"] in act.pay else I(0)
        new = []
        from mirsmt.symexec import merge
        both_of = {}
        for u in range(U):
            here = rel == u
            a_has, b_has = ea[u].f[0].t, eb[u].f[0].t
            fa, fb = fps[("a", u)], fps[("b", u)]
            a_wins = lex_ge([x.t for x in fa[1]], [x.t for x in fb[1]])
            is_both = z3.And(d == A["Conflict"], kd == CK["BothChanged"], a_has, b_has)
            both_of[u] = (z3.And(here, is_both), a_wins)
            from_a = z3.Or(z3.And(z3.Or(d == A["PropagateAtoB"], d == A["ConvergeIdentical"]), a_has),
                           z3.And(d == A["Conflict"], kd == CK["DeleteVsModify"], a_has),
                           z3.And(is_both, a_wins))
            from_b = z3.Or(z3.And(d == A["PropagateBtoA"], b_has),
                           z3.And(d == A["Conflict"], kd == CK["DeleteVsModify"], z3.Not(a_has), b_has),
                           z3.And(is_both, z3.Not(a_wins)))
            removed = z3.Or(d == A["DeleteA"], d == A["DeleteB"])
            p_old, v_old = ec[u].f[0].t, ec[u].f[1]
            p_new = simp(z3.If(here, z3.If(z3.Or(from_a, from_b), True, z3.If(removed, False, p_old)), p_old))
            v_new = merge(simp(z3.And(here, from_a)), ea[u].f[1], merge(simp(z3.And(here, from_b)), eb[u].f[1], v_old))
            new.append(VStruct("entry", [VBool(p_new), v_new]))
        for u in range(U):
            # the conflict-copy name of path u gets the LOSING fingerprint when a both-changed conflict is applied to u
            hit, a_wins = both_of[u]
            p_old, v_old = ec[U + u].f[0].t, ec[U + u].f[1]
            new.append(VStruct("entry", [VBool(simp(z3.Or(hit, p_old))), merge(simp(z3.And(hit, a_wins)), eb[u].f[1], merge(simp(z3.And(hit, z3.Not(a_wins))), ea[u].f[1], v_old))]))
        set_map(ex_, st, cref, new)
        return fsmodels.io_result(ex_, okv)

    def s_save(ex_, st, args, dest_ty, func, where):
        arc = fsmodels._deep(ex_, st, args[0])
        okv = ex_.fresh_bool("save_ok")
        rec("save", st, entries=entries_of(ex_, st, arc.f[4]), epoch=arc.f[2].t, pair=arc.f[1].f[0].t, ok=okv,
            path=fsmodels.path_term(ex_, st, args[1]))
        return fsmodels.io_result(ex_, okv)

    S = ex.summaries
    S["discover_local_fingerprints"] = s_scan
    S["root_pair_hash"] = s_pair
    S["archive_path"] = s_apath
    S["Archive::load"] = s_load
    S["Archive::fresh"] = s_fresh
    S["host_id"] = s_host
    S["apply"] = s_apply
    S["Archive::save"] = s_save
    # the real reconcile is recorded at its call and executed from MIR
    real_reconcile = ex.find_fn("reconcile")
    if real_reconcile is None:
        raise Inconclusive("no MIR body for `reconcile`")

    def s_reconcile(ex_, st, args, dest_ty, func, where):
        ez = entries_of(ex_, st, args[2])
        rec("reconcile", st, trust=args[3].t, base_entries=ez,
            a_ok=_all(x.f[0].t == pres[("a", u)] for u, x in enumerate(entries_of(ex_, st, args[0])[:U])),
            b_ok=_all(x.f[0].t == pres[("b", u)] for u, x in enumerate(entries_of(ex_, st, args[1])[:U])))
        return ex_.exec_fn(real_reconcile, args, st)
    S["reconcile"] = s_reconcile

    def map_new(ex_, st, args, dest_ty, func, where):
        return stdmodels.mk_map([VStruct("entry", [VBool(z3.BoolVal(False)), fps[("z", u % U)][0]]) for u in range(2 * U)])

    def map_clone(ex_, st, args, dest_ty, func, where):
        return fsmodels._deep(ex_, st, args[0])

    def map_retain(ex_, st, args, dest_ty, func, where):
        from mirsmt.deltamodels import call_closure
        ref, clos = args
        ents = entries_of(ex_, st, ref)
        new = []
        for u, e in enumerate(ents):
            st2 = st
            keep = call_closure(ex_, st2, fsmodels._deep(ex_, st, clos), [VRef("val", val=VInt(I(u), "usize")), VRef("val", val=e.f[1])], where)
            new.append(VStruct("entry", [VBool(simp(z3.And(e.f[0].t, keep.t))), e.f[1]]))
        set_map(ex_, st, ref, new)
        return UNIT

    def map_remove(ex_, st, args, dest_ty, func, where):
        ref = args[0]
        kid = stdmodels._key_id(ex_, st, args[1])
        ents = entries_of(ex_, st, ref)
        was = simp(z3.Or(*[z3.And(kid == j, e.f[0].t) for j, e in enumerate(ents)]))
        set_map(ex_, st, ref, [VStruct("entry", [VBool(simp(z3.And(e.f[0].t, kid != j))), e.f[1]]) for j, e in enumerate(ents)])
        return VEnum("Option", simp(z3.If(was, I(1), I(0))), {0: [], 1: [VOpaque("removed value")]})

    def map_insert(ex_, st, args, dest_ty, func, where):
        from mirsmt.symexec import merge
        ref = args[0]
        kid = stdmodels._key_id(ex_, st, args[1])
        val = fsmodels._deep(ex_, st, args[2])
        ents = entries_of(ex_, st, ref)
        set_map(ex_, st, ref, [VStruct("entry", [VBool(simp(z3.Or(e.f[0].t, kid == j))), merge(simp(kid == j), val, e.f[1])]) for j, e in enumerate(ents)])
        return VEnum("Option", ex_.fresh_int("had", lo=0, hi=1), {0: [], 1: [VOpaque("previous value")]})

    def unit(ex_, st, args, dest_ty, func, where):
        return UNIT

    def opaque(ex_, st, args, dest_ty, func, where):
        return VOpaque(func[:40])

    def partition(ex_, st, args, dest_ty, func, where):
        from mirsmt.deltamodels import call_closure, vlist_push
        from mirsmt.symexec import merge
        it = fsmodels._deep(ex_, st, args[0])
        lst = it.f[0] if isinstance(it, VStruct) and it.name == "SliceIter" else it
        if not isinstance(lst, VList):
            raise Unsupported("partition over %r" % (lst,))
        yes, no = VList([], I(0), "ref"), VList([], I(0), "ref")
        for i, item in enumerate(lst.items):
            live = simp(i < lst.len)
            r = VRef("val", val=item)
            keep = call_closure(ex_, st, fsmodels._deep(ex_, st, args[1]), [VRef("val", val=r)], where)
            for which, c in (("yes", z3.And(live, keep.t)), ("no", z3.And(live, z3.Not(keep.t)))):
                cur = yes if which == "yes" else no
                pushed = vlist_push(cur, r)
                same = VList(list(cur.items) + [r], cur.len, cur.elem)
                newl = merge(simp(c), pushed, same)
                if which == "yes":
                    yes = newl
                else:
                    no = newl
        return VStruct("(tuple)", [yes, no])

    def into_iter_next(ex_, st, args, dest_ty, func, where):
        from mirsmt.deltamodels import _iter_elem
        ref = args[0]
        it = ex_.deref(st, ref)
        s_, idx = it.f
        has = simp(idx.t < s_.len) if s_.items else z3.BoolVal(False)
        ex_.store_ref(st, ref, VStruct("SliceIter", [s_, VInt(simp(z3.If(has, idx.t + 1, idx.t)), "usize")]))
        return opt_sym(has, _iter_elem(s_, idx.t) if s_.items else VOpaque("no element"))

    def count(ex_, st, args, dest_ty, func, where):
        return VInt(ex_.fresh_int("count", ty="usize"), "usize")

    def opt_is_some(ex_, st, args, dest_ty, func, where):
        return VBool(simp(fsmodels._deep(ex_, st, args[0]).discr == 1))

    def opt_as_ref(ex_, st, args, dest_ty, func, where):
        o = fsmodels._deep(ex_, st, args[0])
        pay = dict(o.pay)
        if 1 in pay:
            pay[1] = [VRef("val", val=pay[1][0])]
        return VEnum("Option", o.discr, pay)

    ex.models = [(_re.compile(r"^std::io::_e?print$"), unit, "print!/eprintln! (no effect on the obligations)"),
                 (_re.compile(r"^Path::display$"), opaque, "Path::display (opaque)"),
                 (_re.compile(r"^BTreeMap::<PathBuf, Fingerprint>::new$"), map_new, "BTreeMap::new"),
                 (_re.compile(r"^<BTreeMap<PathBuf, Fingerprint> as Clone>::clone$"), map_clone, "BTreeMap::clone"),
                 (_re.compile(r"^BTreeMap::<PathBuf, Fingerprint>::remove::<"), map_remove, "BTreeMap::remove (universe model)"),
                 (_re.compile(r"^BTreeMap::<PathBuf, Fingerprint>::insert$"), map_insert, "BTreeMap::insert (universe model)"),
                 (_re.compile(r"^BTreeMap::<PathBuf, Fingerprint>::retain::<"), map_retain, "BTreeMap::retain (closure evaluated per universe entry)"),
                 (_re.compile(r"^<std::iter::Filter<std::slice::Iter<'_, \(PathBuf, Action\)>, .*> as Iterator>::count$"), count, "Filter::count (feeds a log line only: arbitrary)"),
                 (_re.compile(r"^<std::slice::Iter<'_, \(PathBuf, Action\)> as Iterator>::filter::<"), opaque, "Iterator::filter (feeds a log line only)"),
                 (_re.compile(r"^core::slice::<impl \[\(PathBuf, Action\)\]>::iter$"), patchmodels._ref_vec_into_iter, "slice::iter"),
                 (_re.compile(r"^<Vec<\(PathBuf, Action\)> as Deref>::deref$"), lambda e_, s_, a, d, f, w: a[0], "Vec deref"),
                 (_re.compile(r"^Vec::<\(PathBuf, Action\)>::is_empty$"), lambda e_, s_, a, d, f, w: VBool(simp(fsmodels._deep(e_, s_, a[0]).len == 0)), "Vec::is_empty"),
                 (_re.compile(r"^Vec::<\(PathBuf, Action\)>::len$"), lambda e_, s_, a, d, f, w: VInt(fsmodels._deep(e_, s_, a[0]).len, "usize"), "Vec::len"),
                 (_re.compile(r"^Vec::<\(PathBuf, Action\)>::new$"), deltamodels._vlist_new, "Vec<(PathBuf, Action)>::new"),
                 (_re.compile(r"^Vec::<\(PathBuf, Action\)>::push$"), deltamodels._vlist_push, "Vec<(PathBuf, Action)>::push"),
                 (_re.compile(r"^<&Vec<\(PathBuf, Action\)> as IntoIterator>::into_iter$"), patchmodels._ref_vec_into_iter, "<&Vec<T>>::into_iter"),
                 (_re.compile(r"^<std::slice::Iter<'_, \(PathBuf, Action\)> as Iterator>::next$"), patchmodels._slice_iter_next_any, "slice::Iter::next"),
                 (_re.compile(r"^<std::slice::Iter<'_, \(PathBuf, Action\)> as Iterator>::partition::<"), partition, "Iterator::partition (two lists, order kept)"),
                 (_re.compile(r"^<Vec<&\(PathBuf, Action\)> as IntoIterator>::into_iter$|^<&Vec<&\(PathBuf, Action\)> as IntoIterator>::into_iter$"), patchmodels._ref_vec_into_iter, "Vec<&T>::into_iter"),
                 (_re.compile(r"^<std::vec::IntoIter<&\(PathBuf, Action\)> as Iterator>::next$"), into_iter_next, "vec::IntoIter<&T>::next (yields the element itself)"),
                 (_re.compile(r"^<std::slice::Iter<'_, &\(PathBuf, Action\)> as Iterator>::next$"), patchmodels._slice_iter_next_any, "slice::Iter<&T>::next"),
                 (_re.compile(r"^(std::option::)?Option::<Archive>::is_some$"), opt_is_some, "Option::is_some"),
                 (_re.compile(r"^(std::option::)?Option::<Archive>::as_ref$"), opt_as_ref, "Option::as_ref"),
                 (_re.compile(r"^<(std::string::)?String as Into<Box<dyn StdError>>>::into$|^<(std::string::)?String as Clone>::clone$|^<(std::string::)?String as Deref>::deref$"), lambda e_, s_, a, d, f, w: a[0], "String conversions"),
                 ] + ex.models

    st = State()
    opts = VStruct("BidirOptions", [VBool(dry), VBool(verbose)])
    fn = ctx.fn(ex, "run_bisync")
    res = ex.exec_fn(fn, [VRef("val", val=pathv(z3.Int("ROOT_A"))), VRef("val", val=pathv(z3.Int("ROOT_B"))), VRef("val", val=opts)], st)
    if res is None:
        raise Inconclusive("run_bisync never returns")
    ex.exit_guards.append(st.guard)
    saves, applies, recs = calls["save"], calls["apply"], calls["reconcile"]
    if len(recs) != 1:
        raise Inconclusive("expected exactly one call of reconcile in run_bisync, found %d" % len(recs))
    rc = recs[0]
    goals = {}
    if pid == "C07":
        goals["the-base-is-trusted-exactly-when-Archive::load-returned-an-archive,-and-is-then-its-entries"] = z3.And(
            rc["trust"] == loaded, rc["a_ok"], rc["b_ok"],
            z3.Implies(loaded, _all(z3.And(e.f[0].t == pres[("z", u)]) for u, e in enumerate(rc["base_entries"][:U]))),
            z3.Implies(z3.Not(loaded), _all(z3.Not(e.f[0].t) for e in rc["base_entries"])))
        goals["without-a-trusted-archive-no-Delete-action-is-applied"] = _all(
            z3.Implies(z3.And(ap["guard"], z3.Not(loaded)), z3.And(ap["act"].discr != A["DeleteA"], ap["act"].discr != A["DeleteB"])) for ap in applies)
    if pid in ("C08", "C06"):
        goals["the-archive-is-saved-only-after-every-planned-action-was-applied-successfully,-never-in-a-dry-run"] = _all(
            z3.Implies(sv["guard"], z3.And(z3.Not(dry), _all(z3.Implies(ap["guard"], z3.And(ap["ok"], z3.BoolVal(ap["seq"] < sv["seq"]))) for ap in applies))) for sv in saves)
        goals["a-dry-run-applies-nothing"] = z3.Implies(dry, z3.And(_all(z3.Not(ap["guard"]) for ap in applies), _all(z3.Not(sv["guard"]) for sv in saves)))
        goals["at-most-one-save,-to-the-pair's-archive-path,-with-the-epoch-advanced-by-one"] = z3.And(
            _all(z3.Not(z3.And(x["guard"], y["guard"])) for i, x in enumerate(saves) for y in saves[i + 1:]),
            _all(z3.Implies(sv["guard"], z3.And(sv["path"] == z3.Int("ARCHIVE_PATH"), sv["pair"] == z3.Int("PAIR"), sv["epoch"] == z3.If(loaded, epoch0 + 1, 1))) for sv in saves))
    if pid in ("C06", "C02"):
        ok_run = simp(res.discr == 0)
        goals["a-run-that-returns-Ok-without-dry_run-has-saved-the-common-state"] = z3.Implies(
            z3.And(ok_run, z3.Not(dry)), _any(z3.And(sv["guard"], sv["ok"]) for sv in saves))
        # the recorded common state is exactly the tree both sides hold after the run (per-path table semantics)
        conds = []
        for sv in saves:
            per = []
            for u in range(U):
                pa, pb = pres[("a", u)], pres[("b", u)]
                pz = z3.And(loaded, pres[("z", u)])
                fa, fb = fps[("a", u)], fps[("b", u)]
                act, kind = table_term(enums, pa, pb, pz, fp_eq(fa, fb), fp_eq(fa, fps[("z", u)]), fp_eq(fb, fps[("z", u)]))
                a_wins = lex_ge([x.t for x in fa[1]], [x.t for x in fb[1]])
                in_tree = z3.And(z3.Or(pa, pb), act != A["DeleteA"], act != A["DeleteB"])
                holds_a = z3.Or(z3.And(pa, z3.Or(act == A["Noop"], act == A["ConvergeIdentical"], act == A["PropagateAtoB"])),
                                z3.And(act == A["Conflict"], kind == CK["DeleteVsModify"], pa), z3.And(act == A["Conflict"], kind == CK["BothChanged"], a_wins))
                e = sv["entries"][u]
                ev = e.f[1]
                eb_, et_ = [x.t for x in fsmodels._deep(ex, st, ev.f[0]).f] if isinstance(ev, VStruct) else None, None
                same_as = lambda fp: z3.And(*[x == y.t for x, y in zip(eb_, fp[1])]) if eb_ else z3.BoolVal(True)
                per.append(z3.And(e.f[0].t == in_tree, z3.Implies(in_tree, z3.If(holds_a, same_as(fa), same_as(fb)))))
                # the conflict copy of u exists after the run exactly when u was a both-changed conflict, and is recorded with the LOSING digest
                ec_ = sv["entries"][U + u]
                was_both = z3.And(act == A["Conflict"], kind == CK["BothChanged"])
                cb_ = [x.t for x in fsmodels._deep(ex, st, ec_.f[1].f[0]).f]
                loser_is = lambda fp: z3.And(*[x == y.t for x, y in zip(cb_, fp[1])])
                per.append(z3.And(ec_.f[0].t == was_both, z3.Implies(was_both, z3.If(a_wins, loser_is(fb), loser_is(fa)))))
            conds.append(z3.Implies(sv["guard"], z3.And(*per)))
        goals["the-saved-common-state-has-exactly-the-paths-(and-digests)-both-sides-hold-after-the-run,-conflict-copies-included"] = _all(conds)
    covers = {"save-reachable": _any(sv["guard"] for sv in saves), "apply-reachable": _any(ap["guard"] for ap in applies)}
    from . import bisyncnative
    bisyncnative.make_witness.history_of_model = lambda model: bisyncnative.history_from_model(model, U, pres, fps, loaded)
    prover.prove(ex, goals, "%s/run_bisync" % pid,
                 "run_bisync over an ordered universe of %d paths: both scans, the loaded archive (present or not, any entries), dry_run/verbose symbolic; "
                 "reconcile runs from MIR, apply is the contract decided by the apply obligations (any outcome), save records its argument; epoch < 2^64-1" % U,
                 ["run_bisync", "reconcile", "reconcile_path"], bisyncnative.make_witness(R, pid, "run"), covers=covers)


# ----------------------------------------------------------------- pair identity (C06 / C07)

def pair_hash_obligation(ctx, R, prover, pid):
    """root_pair_hash from MIR: the id is BLAKE3 over exactly  bytes(canon(A)) 0x00 bytes(canon(B))  where canon(p) is
    canonicalize(p) or p itself; the hash input is recorded as a list of segments (no byte model of paths needed)"""
    import re as _re
    ex = ctx.ex()
    CANON = z3.Function("canonical_path", z3.IntSort(), z3.IntSort())
    segs = []

    def canonicalize(ex_, st, args, dest_ty, func, where):
        p = fsmodels.path_term(ex_, st, args[0])
        okc = z3.Bool("canon_ok!%d" % len([1 for _ in segs]) + str(p))
        fsmodels.record(ex_, st, "canonicalize", path=p, ok=okc)
        return fsmodels.io_result(ex_, okc, pathv(CANON(p)))

    def res_unwrap_or_else(ex_, st, args, dest_ty, func, where):
        from mirsmt.stdmodels import _call_fn_value
        from mirsmt.symexec import merge
        r, f = fsmodels._deep(ex_, st, args[0]), args[1]
        okv = r.pay[0][0] if 0 in r.pay else None
        st2 = st
        alt = _call_fn_value(ex_, st2, f, [r.pay[1][0] if 1 in r.pay else VOpaque("err")], where)
        if okv is None:
            return alt
        return merge(simp(r.discr == 0), okv, alt)

    def encoded_bytes(ex_, st, args, dest_ty, func, where):
        return VRef("val", val=VStruct("PathBytes", [VInt(fsmodels.path_term(ex_, st, args[0]), "usize")]))

    def h_new(ex_, st, args, dest_ty, func, where):
        return VStruct("SegHasher", [VInt(I(0), "usize")])

    def seg_of(ex_, st, v):
        v = fsmodels._deep(ex_, st, v)
        if isinstance(v, VStruct) and v.name == "PathBytes":
            return ("path-bytes", v.f[0].t)
        if isinstance(v, VSeq) and z3.is_int_value(simp(v.len)):
            return ("literal", bytes(simp(v.at(I(i))).as_long() for i in range(simp(v.len).as_long())).hex())
        if isinstance(v, VStruct) and v.name == "[array]":
            return ("literal", bytes(simp(x.t).as_long() for x in v.f).hex())
        if isinstance(v, VOpaque) and isinstance(v.what, tuple) and v.what[0] in ("bstr", "str"):
            return ("literal-text", str(v.what[1]))
        try:
            return ("text", fsmodels.text_term(ex_, st, v))
        except Unsupported:
            return ("unknown", str(v)[:60])

    def h_update(ex_, st, args, dest_ty, func, where):
        segs.append((st.guard, seg_of(ex_, st, args[1])))
        return args[0]

    def h_hash(ex_, st, args, dest_ty, func, where):
        segs.append((st.guard, seg_of(ex_, st, args[0])))
        return VStruct("SegHash", [])

    def h_fin(ex_, st, args, dest_ty, func, where):
        return VStruct("SegHash", [])

    def to_hex(ex_, st, args, dest_ty, func, where):
        return strv(z3.Int("PAIR_ID"))

    def ident(ex_, st, args, dest_ty, func, where):
        return fsmodels._deep(ex_, st, args[0])
    DISPLAY = z3.Function("lossy_display_text", z3.IntSort(), z3.IntSort())

    def display(ex_, st, args, dest_ty, func, where):
        return strv(DISPLAY(fsmodels.path_term(ex_, st, args[0])))
    ex.models = [(_re.compile(r"^Path::display$"), display, "Path::display (LOSSY text of the path: an uninterpreted function, not its bytes)"),
                 (_re.compile(r"^std::fs::canonicalize::<"), canonicalize, "fs::canonicalize (any outcome)"),
                 (_re.compile(r"^(std::result::)?Result::<PathBuf, std::io::Error>::unwrap_or_else::<"), res_unwrap_or_else, "Result::unwrap_or_else"),
                 (_re.compile(r"^(std::ffi::)?OsStr::as_encoded_bytes$"), encoded_bytes, "OsStr::as_encoded_bytes (the path's bytes, named by the path)"),
                 (_re.compile(r"^blake3::Hasher::new$"), h_new, "blake3::Hasher::new (input recorded as segments)"),
                 (_re.compile(r"^blake3::Hasher::update$"), h_update, "blake3::Hasher::update (segment recorded)"),
                 (_re.compile(r"^blake3::Hasher::finalize$"), h_fin, "blake3::Hasher::finalize"),
                 (_re.compile(r"^blake3::hash$"), h_hash, "blake3::hash (one segment recorded)"),
                 (_re.compile(r"^blake3::Hash::to_hex$"), to_hex, "Hash::to_hex"),
                 (_re.compile(r"^<arrayvec::array_string::ArrayString<64> as ToString>::to_string$|^(std::string::)?String::as_bytes$|^str::<impl str>::as_bytes$|^core::str::<impl str>::as_bytes$"), ident, "string views"),
                 ] + ex.models
    PA, PB = z3.Int("ROOT_A"), z3.Int("ROOT_B")
    st = State()
    res = ex.exec_fn(ctx.fn(ex, "root_pair_hash"), [VRef("val", val=pathv(PA)), VRef("val", val=pathv(PB))], st)
    if res is None:
        raise Inconclusive("root_pair_hash never returns")
    ex.exit_guards.append(st.guard)
    canon = {}
    for e in fsmodels.effects(ex):
        if e["call"] == "canonicalize":
            canon[str(simp(e["path"]))] = (e["path"], e["ok"])

    def is_canon_bytes(seg, root):
        kind, t = seg
        if kind != "path-bytes":
            return z3.BoolVal(False)
        okc = [ok_ for (p, ok_) in canon.values() if p.eq(root)]
        c_ok = okc[0] if okc else z3.BoolVal(False)
        return z3.If(c_ok, t == CANON(root), t == root)
    shape = len(segs) == 3 and segs[1][1] == ("literal", "00")
    goals = {"the-pair-id-hashes-exactly:-bytes-of-canonical-A,-one-NUL-byte,-bytes-of-canonical-B": z3.And(
        z3.BoolVal(bool(shape)), *( [segs[0][0], segs[1][0], segs[2][0], is_canon_bytes(segs[0][1], PA), is_canon_bytes(segs[2][1], PB)] if shape else []))}
    R.assumptions += [a for a in ["pair identity: BLAKE3 is collision-free on the recorded input (ideal hash); the obligation is about WHAT is hashed"] if a not in R.assumptions]

    def witness(name, model, neg):
        from . import hubnative
        case = {"fn": "pair_hash"}
        res_n = {p: hubnative.run_cases([case], p)[0] for p in ("dev", "release")}
        bad = {p: r for p, r in res_n.items() if "panic" in r or r.get("collisions") or not r.get("order_sensitive", True)}
        if bad:
            case["observed"] = res_n
            return {"confirmed": True, "replay_path": R.save_replay("%s/root_pair_hash" % pid, case), "key": "%s/root_pair_hash" % pid,
                    "detail": "root_pair_hash: different directory pairs get the same id (so one pair's archive is trusted for the other): %s" % json.dumps(bad)[:300]}
        return {"confirmed": False, "detail": "native root_pair_hash separates the probe pairs (%s)" % json.dumps(res_n)[:200]}
    prover.prove(ex, goals, "%s/root_pair_hash" % pid, "any two paths; canonicalize may fail for either; the hash input is recorded symbolically (segments), paths are uninterpreted names",
                 ["root_pair_hash"], witness, covers={"reachable": z3.BoolVal(True)})
