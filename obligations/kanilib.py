"""Glue between Kani harness results (E2) and the Runner (obligation entries, native confirmation)."""
import json

from mirsmt import kanirun, native
from mirsmt.env import Inconclusive, now


def run_harnesses(R, pid, crate, specs, timeout_s, mem_gb=24, extra=()):
    """specs: [dict(h=harness, bound=.., functions=[..], witness=fn(HarnessResult)->dict or None, covers_required=bool)]"""
    names = [s["h"] for s in specs]
    res, dt, raw = kanirun.run(crate, names, timeout_s=timeout_s, mem_gb=mem_gb, extra=extra)
    R.extra.setdefault("kani_runs", []).append({"crate": crate, "harnesses": names, "wall_s": round(dt, 1)})
    out = {}
    for s in specs:
        short = s["h"].split("::")[-1]
        r = res[short]
        oid = "%s/kani/%s" % (pid, short)
        info = dict(bound=s.get("bound"), functions=s.get("functions", []), models=s.get("shims", []),
                    summaries=r.stubs, solver_s=r.time_s, queries=1, kani=r.as_dict())
        if r.status == "success":
            bad_cov = [c for c in r.covers if c[1] != "SATISFIED"]
            if bad_cov and s.get("covers_required", True):
                R.add(oid, "inconclusive", detail="vacuity: cover not satisfied: %s" % bad_cov[:3], **info)
                out[s["h"]] = "inconclusive"
            else:
                R.add(oid, "holds", **info)
                out[s["h"]] = "holds"
        elif r.status == "failed":
            w = {"confirmed": False, "detail": "no decoder for this harness"}
            if s.get("witness"):
                try:
                    w = s["witness"](r)
                except Exception as e:   # decoding problems are never verdicts
                    w = {"confirmed": False, "detail": "witness decoding failed: %s: %s" % (type(e).__name__, e)}
            R.add(oid, "violated", detail="Kani: %s | %s" % ("; ".join(d for d, _, _ in r.failed[:3]), w.get("detail", "")),
                  confirmed=w.get("confirmed", False), replay_path=w.get("replay_path"), key=w.get("key", oid), **info)
            out[s["h"]] = "violated"
        else:
            R.add(oid, "inconclusive", detail="Kani/CBMC did not produce a verdict (timeout, out of memory or crash): %s"
                  % r.raw_tail[-300:].replace("\n", " | "), **info)
            out[s["h"]] = "inconclusive"
    return out
