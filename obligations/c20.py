"""C20 — codecs round-trip and reject malformed input without crashing (DESIGN §4 C20): frame header level."""
import json

from mirsmt import native, kanirun
from . import kanilib

MAXP = 16 * 1024 * 1024


def ref_decode(buf):
    le = int.from_bytes(bytes(buf[4:8]), "little")
    ok = bytes(buf[0:4]) == b"COPA" and buf[9] == 1 and 1 <= buf[8] <= 7 and le <= MAXP
    return ok, le


def header_witness(R):
    def w(r):
        c = kanirun.Cursor(r.playback or [])
        buf = c.bytes_(12)
        case = {"fn": "header_decode", "buf": buf}
        ok, le = ref_decode(buf)
        res = native.run_both(case)
        bad = {}
        for p, v in res.items():
            if "panic" in v or "crash" in v:
                bad[p] = v
            elif ok != ("ok" in v):
                bad[p] = v
            elif ok and (v["ok"]["length"] != le or v["ok"]["encode"] != buf or v["ok"]["type"] != buf[8]):
                bad[p] = v
        if bad:
            case["expected"] = {"ok": ok, "length": le}
            case["observed"] = res
            return {"confirmed": True, "replay_path": R.save_replay("C20/header", case), "key": "C20/FrameHeader::decode",
                    "detail": "FrameHeader::decode(%s): native %s, specification ok=%s" % (buf, json.dumps(bad)[:200], ok)}
        return {"confirmed": False, "detail": "native decode agrees with the specification on %s" % buf}
    return w


def encode_witness(R):
    """c20_encode_then_decode_is_identity draws: type u8, length u32, flags u16"""
    def w(r):
        c = kanirun.Cursor(r.playback or [])
        t = c.u() & 0xFF
        ln = c.u()
        fl = c.u() & 0xFFFF
        if not (1 <= t <= 7) or ln > MAXP:
            return {"confirmed": False, "detail": "decoded values outside the harness assumptions (type %d, len %d)" % (t, ln)}
        case = {"fn": "header_encode", "type": t, "length": ln, "flags": fl}
        want = list(b"COPA") + list(ln.to_bytes(4, "little")) + [t, 1] + list(fl.to_bytes(2, "little"))
        res = native.run_both(case)
        bad = {}
        for p, v in res.items():
            if "panic" in v or "crash" in v:
                bad[p] = str(v)[:120]
            elif v.get("encode") != want:
                bad[p] = "encode = %s, wire format says %s" % (v.get("encode"), want)
            elif not v.get("decode_ok") or v.get("decoded_length") != ln or v.get("decoded_flags") != fl:
                bad[p] = "decode(encode(h)) != h: %s" % v
        if bad:
            case["expected"] = want
            case["observed"] = res
            return {"confirmed": True, "replay_path": R.save_replay("C20/header-encode", case), "key": "C20/FrameHeader::encode",
                    "detail": "FrameHeader::new(type %d, length %d).encode(): native %s" % (t, ln, json.dumps(bad)[:240])}
        return {"confirmed": False, "detail": "native encode/decode agree with the wire format for type %d, length %d, flags %d" % (t, ln, fl)}
    return w


def run_framing(R, tier, seed):
    from mirsmt.prove import Prover
    from mirsmt.env import Inconclusive
    from mirsmt.symexec import Unsupported
    from . import codeclib
    ctx = codeclib.Ctx()
    prover = Prover(R, tier, cross_order=("z3-4.8.12", "cvc5"))
    for name, f in (("read_message", codeclib.read_message_obligation), ("write_message", codeclib.write_message_obligation)):
        try:
            f(ctx, R, prover)
        except (Unsupported, Inconclusive) as e:
            R.add("C20/Codec::%s/encoding" % name, "inconclusive", detail=str(e)[:400])


def run(R, tier, seed):
    R.trusted += ["Kani 0.68 / CBMC 6.11 (cadical)", "stub: std::fmt::format -> String::new() (error message text is never the subject)",
                  "E1 (framing): rustc MIR dump + mirsmt encoder; Message::encode / Message::decode are contracts (bincode is not modelled); "
                  "bincode::deserialize_from is modelled by its hazard (reserves untrusted length prefixes)"]
    R.assumptions += ["decided (Kani): FrameHeader encode/decode/validate and MessageType::from_u8 over ALL 2^96 buffers / all header values",
                      "decided (E1): Codec::read_message on ANY wire input never panics, never requests more than 16 MiB, rejects every malformed header and short input, "
                      "and on success has passed exactly the announced payload slice to Message::decode; Codec::write_message writes COPA|LE len|type|1|0 0 followed by exactly "
                      "the encoded payload iff it is encodable and <= 16 MiB",
                      "NOT covered: bincode's own payload encoding/decoding of Message/Signature/Delta (round trip of field values, behaviour of Message::decode on "
                      "arbitrary bytes)",
                      "decided (E1, CLI readers): run_delta / run_patch from MIR with the file decoding (bincode = contract) to ANY value - no decoded block size or other "
                      "field value makes `copia delta` / `copia patch` panic; tokio file operations are recorded effects with arbitrary outcomes; "
                      "AsyncCopiaSync::with_block_size is its library contract (assert read from the source), the engine calls are summaries (decided under C01/C05)"]
    run_framing(R, tier, seed)
    run_cli(R, tier, seed, "C20")
    fns = ["FrameHeader::decode", "FrameHeader::encode", "FrameHeader::validate", "FrameHeader::new", "MessageType::from_u8"]
    specs = [
        dict(h="header::c20_decode_accepts_exactly_valid_headers", bound="all 2^96 twelve-byte buffers", functions=fns, witness=header_witness(R)),
        dict(h="header::c20_encode_then_decode_is_identity", bound="all valid header values (7 types x length <= 16 MiB x 2^16 flags)", functions=fns, witness=encode_witness(R)),
        dict(h="header::c20_from_u8_total", bound="all 256 type bytes", functions=["MessageType::from_u8"], witness=None, covers_required=False),
        dict(h="header::c20_validate_matches_constraints", bound="all header field values", functions=["FrameHeader::validate"], witness=None, covers_required=False),
    ]
    extra = []
    try:
        from . import c20_extra
        specs += c20_extra.specs(R, tier)
    except ImportError:
        pass
    kanilib.run_harnesses(R, "C20", "lib", specs, timeout_s=900 if tier == "quick" else 2400, extra=extra)


def run_cli(R, tier, seed, pid):
    from mirsmt.prove import Prover
    from . import clilib
    ctx = clilib.Ctx()
    pr = Prover(R, tier)
    for what in ("delta", "patch"):
        clilib.reader_obligation(ctx, R, pr, pid, what)
    clilib.native_validation(R, pid)


def replay(path):
    case = json.load(open(path))["case"]
    if case.get("fn") == "cli_hostile_file":
        from . import clilib
        clilib.replay_case(case)
        return 0
    case = {k: v for k, v in case.items() if k not in ("observed", "expected")}
    print(json.dumps(native.run_both(case), indent=1))
    return 0
