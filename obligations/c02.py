"""C02 — bisync, step level (see bisynccheck.py / bisynclib.py)."""
from . import bisynccheck
from .bisynccheck import replay  # noqa: F401


def run(R, tier, seed):
    bisynccheck.run(R, "C02", tier, seed)
