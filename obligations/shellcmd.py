"""The remote shell command lines of one-way sync (push, pull, remote listing), decided as TEXT: the three functions that build
an `ssh host <command>` are executed from MIR with the remote path a bounded symbolic string (every character symbolic) and
format! / str::replace modelled on character sequences (mirsmt/textmodels.py).  Goal: the command handed to ssh is, for EVERY
path, exactly the command the property needs -

  push : cat > $'Q(p).copia-tmp' && mv -f $'Q(p).copia-tmp' $'Q(p)'[ && touch -d @<mtime> $'Q(p)']
  pull : cat $'Q(p)'
  list : cd $'Q(root)' && find . -type f -printf '%s\\t%T@\\t%p\\0'

where Q doubles every backslash and writes ' as \\' (bash ANSI-C quoting).  That bash reads $'Q(p)' back as p - the contract of
the remote shell - is validated natively against the real bash on a family of hostile names each run; the rest of each function
(the ssh child, pipes, local files) is recorded effects with arbitrary outcomes, as in C04/C09's other obligations.

Bounds: paths up to PATH_LEN characters, every character any code point 1..0x10FFFF except that the model treats a character as
ONE unit (the code never looks inside one); push streams at most K-1 chunks."""
import json
import os
import re
import subprocess
import tempfile
import shutil
import z3

from mirsmt import env, stdmodels, patchmodels, codecmodels, fsmodels, itermodels, asyncmodels, textmodels
from mirsmt.fsmodels import pathv, strv, lit_id
from mirsmt.symexec import (Executor, State, VInt, VBool, VStruct, VEnum, VRef, VSeq, VList, VOpaque, UNIT, I, simp, Unsupported)
from mirsmt.env import model_int, model_bool, Inconclusive
from mirsmt.stdmodels import opt_sym
from mirsmt.textmodels import lit, concat, replace_char, seq_eq, model_text
from .hublib import _any, _all

BS, SQ = ord("\\"), ord("'")


class Ctx:
    def __init__(self):
        def keep(n):
            return n.startswith(("transfer_file_to_remote", "transfer_file_from_remote", "discover_remote_with_meta", "apply_remote_deletes", "create_remote_dirs", "remove_stale", "incremental::remove_stale"))
        self.mir, self.mir_path, self.dump_s = env.load("bin", keep)
        self.idx = env.impl_index(self.mir)
        self.enums = env.source_enums()


def quote_spec(s, cap):
    """the reference quoting: every backslash doubled, then every ' written as \\' (order matters)"""
    a = replace_char(None, s, I(BS), lit("\\\\"), cap)
    return replace_char(None, a, I(SQ), lit("\\'"), 2 * cap)


def sym_text(ex, name, n):
    ln = ex.fresh_int(name + "_len", lo=0, hi=n)
    arr = z3.Array(name.upper(), z3.IntSort(), z3.IntSort())
    for i in range(n):
        ex.assumes.append(z3.And(z3.Select(arr, i) >= 1, z3.Select(arr, i) <= 0x10FFFF))
    return VSeq(arr, I(0), ln, "char")


def _mk(ctx, path_len):
    ex = Executor(ctx.mir, ctx.enums, K=3)
    ex.impl_index = ctx.idx
    stdmodels.install_core(ex)
    stdmodels.install_time_fs(ex)
    itermodels.install(ex)
    ex.byte_cap = 4
    patchmodels.install(ex)
    codecmodels.install(ex)
    fsmodels.install(ex)
    asyncmodels.install(ex)
    textmodels.install(ex, str_cap=2 * path_len, fmt_cap=4 * path_len + 40)
    ev = {"argv": [], "writes": [], "reads": [], "drops": []}

    def deep(st, v):
        return fsmodels._deep(ex, st, v)

    def opaque(ex_, st, args, dest_ty, func, where):
        return VOpaque(func[:30])

    def cmd_new(ex_, st, args, dest_ty, func, where):
        ev["argv"].append((st.guard, deep(st, args[0])))
        return VStruct("Command", [])

    def cmd_arg(ex_, st, args, dest_ty, func, where):
        v = deep(st, args[1])
        try:
            t = fsmodels.text_term(ex_, st, v)
        except Exception:
            t = None
        ev["argv"].append((st.guard, v, t))
        return args[0]

    def cmd_set(ex_, st, args, dest_ty, func, where):
        return args[0]

    def spawn(ex_, st, args, dest_ty, func, where):
        ok = ex_.fresh_bool("spawn_ok")
        has_in, has_out = ex_.fresh_bool("child_stdin_present"), ex_.fresh_bool("child_stdout_present")
        ev["spawn"] = fsmodels.record(ex_, st, "spawn-ssh", path=I(0), ok=ok)
        ev.setdefault("spawns", []).append(ev["spawn"])
        ev["has_in"], ev["has_out"] = has_in, has_out
        child = VStruct("Child", [VOpaque("inner"), opt_sym(has_in, VStruct("ChildStdin", [])), opt_sym(has_out, VStruct("ChildStdout", [])), VEnum("Option", I(0), {0: []})])
        return fsmodels.io_result(ex_, ok, child)

    def output(ex_, st, args, dest_ty, func, where):
        ok = ex_.fresh_bool("output_ok")
        succ = ex_.fresh_bool("exit_success")
        ev["wait"] = fsmodels.record(ex_, st, "run-ssh-to-completion", path=I(0), ok=ok, success=succ)
        n = ex_.fresh_int("listing_len", lo=0, hi=1 << 40)
        out = VStruct("Output", [VStruct("ExitStatus", [VBool(succ)]), VSeq(z3.Array("LISTING", z3.IntSort(), z3.IntSort()), I(0), n, "u8"), VSeq(textmodels.K0, I(0), I(0), "u8")])
        return asyncmodels.ready(fsmodels.io_result(ex_, ok, out))

    def opt_take(ex_, st, args, dest_ty, func, where):
        ref = args[0]
        cur = ex_.deref(st, ref)
        ex_.store_ref(st, ref, VEnum("Option", I(0), {0: []}))
        return cur

    def ok_or_else(ex_, st, args, dest_ty, func, where):
        o = deep(st, args[0])
        return VEnum("Result", simp(z3.If(o.discr == 1, I(0), I(1))), {0: list(o.pay.get(1, [VOpaque("none")])), 1: [VOpaque("no pipe")]})

    def tmeta(ex_, st, args, dest_ty, func, where):
        ok = ex_.fresh_bool("metadata_ok")
        size = ex_.fresh_int("file_size", ty="u64")
        ev["meta"] = fsmodels.record(ex_, st, "metadata", path=fsmodels.path_term(ex_, st, args[0]), ok=ok, size=size)
        return asyncmodels.ready(fsmodels.io_result(ex_, ok, VStruct("Metadata", [VInt(size, "u64")])))

    def meta_len(ex_, st, args, dest_ty, func, where):
        return VInt(deep(st, args[0]).f[0].t, "u64")

    def topen(call):
        def h(ex_, st, args, dest_ty, func, where):
            ok = ex_.fresh_bool(call + "_ok")
            p_ = fsmodels.path_term(ex_, st, args[0])
            e = fsmodels.record(ex_, st, call, path=p_, ok=ok)
            return asyncmodels.ready(fsmodels.io_result(ex_, ok, VStruct("File", [VInt(p_, "usize"), VInt(I(e["seq"]), "usize")])))
        return h

    def fread(ex_, st, args, dest_ty, func, where):
        buf_ref = args[1]
        buf = deep(st, buf_ref)
        if not isinstance(buf, VSeq):
            raise Unsupported("read into %r" % (buf,))
        ok = ex_.fresh_bool("read_ok")
        n = ex_.fresh_int("read_n", lo=0, hi=1 << 40)
        ex_.assumes.append(n <= buf.len)
        k = len(ev["reads"])
        if k >= ex_.K - 1:
            ex_.assumes.append(z3.Implies(st.guard, n == 0))      # BOUND: the file ends within K-1 chunks
        data = z3.Array("CHUNK%d" % k, z3.IntSort(), z3.IntSort())
        e = fsmodels.record(ex_, st, "read-file", path=I(0), ok=ok, count=n)
        e["data"] = data
        ev["reads"].append(e)
        # the buffer now holds the chunk (what lies beyond n is irrelevant)
        ex_.store_ref(st, buf_ref, VSeq(data, I(0), buf.len, "u8")) if _is_place(buf_ref) else None
        ev["bufref"] = buf_ref
        return asyncmodels.ready(fsmodels.io_result(ex_, ok, VInt(n, "usize")))

    def _is_place(r):
        return isinstance(r, VRef) and r.kind != "val"

    def write_all(ex_, st, args, dest_ty, func, where):
        s = deep(st, args[1])
        if not isinstance(s, VSeq):
            raise Unsupported("write_all of %r" % (s,))
        ok = ex_.fresh_bool("pipe_write_ok")
        e = fsmodels.record(ex_, st, "write-pipe", path=I(0), ok=ok)
        e["seq_val"] = s
        ev["writes"].append(e)
        return asyncmodels.ready(fsmodels.io_result(ex_, ok))

    def tcopy(ex_, st, args, dest_ty, func, where):
        ok = ex_.fresh_bool("stream_ok")
        n = ex_.fresh_int("streamed", ty="u64")
        fsmodels.record(ex_, st, "stream-into", path=I(0), ok=ok, count=n)
        return asyncmodels.ready(fsmodels.io_result(ex_, ok, VInt(n, "u64")))

    def tflush(ex_, st, args, dest_ty, func, where):
        ok = ex_.fresh_bool("flush_ok")
        fsmodels.record(ex_, st, "flush-file", path=I(0), ok=ok)
        return asyncmodels.ready(fsmodels.io_result(ex_, ok))

    def wait(ex_, st, args, dest_ty, func, where):
        ok = ex_.fresh_bool("wait_ok")
        succ = ex_.fresh_bool("exit_success")
        has_code, code = ex_.fresh_bool("has_exit_code"), ex_.fresh_int("exit_code", lo=0, hi=255)
        ex_.assumes.append(succ == z3.And(has_code, code == 0))      # killed by a signal: no code, not a success
        ev["wait"] = fsmodels.record(ex_, st, "wait-child", path=I(0), ok=ok, success=succ)
        ev.setdefault("waits", []).append(ev["wait"])
        out = VStruct("Output", [VStruct("ExitStatus", [VBool(succ), VBool(has_code), VInt(code, "i32")]), VSeq(textmodels.K0, I(0), I(0), "u8"), VSeq(textmodels.K0, I(0), I(0), "u8")])
        return asyncmodels.ready(fsmodels.io_result(ex_, ok, out))

    def success(ex_, st, args, dest_ty, func, where):
        return VBool(deep(st, args[0]).f[0].t)

    def exit_code(ex_, st, args, dest_ty, func, where):
        e = deep(st, args[0])
        if len(e.f) < 3:
            raise Unsupported("ExitStatus::code on a status without a modelled code")
        return opt_sym(e.f[1].t, VInt(e.f[2].t, "i32"))

    def drop(ex_, st, args, dest_ty, func, where):
        v = deep(st, args[0])
        if isinstance(v, VStruct) and v.name in ("ChildStdin", "ChildStdout"):
            ev["drops"].append(fsmodels.record(ex_, st, "close-" + v.name, path=I(0), ok=z3.BoolVal(True)))
        return UNIT

    def poll_ready(ex_, st, args, dest_ty, func, where):
        pin = args[0]
        ref = pin.f[0] if isinstance(pin, VStruct) and pin.name == "Pin" else pin
        v = deep(st, ref)
        if not (isinstance(v, VStruct) and v.name == "ReadyFuture"):
            raise Unsupported("poll of %r" % (v,))
        return VEnum("Poll", I(0), {0: [v.f[0]]})

    def lossy(ex_, st, args, dest_ty, func, where):
        return VStruct("Cow", [VSeq(z3.Array("STDERR_TEXT", z3.IntSort(), z3.IntSort()), I(0), ex_.fresh_int("stderr_len", lo=0, hi=3), "char")])

    def vec_from_elem(ex_, st, args, dest_ty, func, where):
        return VSeq(textmodels.K0, I(0), args[1].t, "u8")

    def parse_listing(ex_, st, args, dest_ty, func, where):
        s = deep(st, args[0])
        ev["parsed"] = (st.guard, s)
        return VOpaque("MetaMap")
    ex.summaries["parse_remote_meta_output"] = parse_listing
    ex.models = [(re.compile(r"^tokio::process::Command::new::<"), cmd_new, "Command::new (program recorded)"),
                 (re.compile(r"^tokio::process::Command::arg::<"), cmd_arg, "Command::arg (argument recorded)"),
                 (re.compile(r"^tokio::process::Command::(stdout|stderr|stdin)::<"), cmd_set, "Command stdio setup"),
                 (re.compile(r"^Stdio::piped$|^Stdio::null$"), opaque, "Stdio"),
                 (re.compile(r"^tokio::process::Command::spawn$"), spawn, "Command::spawn (recorded; any outcome)"),
                 (re.compile(r"^tokio::process::Command::output$"), output, "Command::output (recorded; any outcome, any listing)"),
                 (re.compile(r"^(std::option::)?Option::<tokio::process::Child(Stdout|Stdin)>::take$"), opt_take, "Option::take"),
                 (re.compile(r"^(std::option::)?Option::<tokio::process::Child(Stdout|Stdin)>::ok_or_else::<"), ok_or_else, "Option::ok_or_else"),
                 (re.compile(r"^tokio::fs::metadata::<"), tmeta, "tokio::fs::metadata (recorded)"),
                 (re.compile(r"^(std::fs::)?Metadata::len$"), meta_len, "Metadata::len"),
                 (re.compile(r"^tokio::fs::File::open::<"), topen("open"), "tokio File::open (recorded)"),
                 (re.compile(r"^tokio::fs::File::create::<"), topen("create"), "tokio File::create (recorded)"),
                 (re.compile(r"^<tokio::fs::File as (tokio::io::)?AsyncReadExt>::read(::<.*)?$"), fread, "File::read (contract: any n <= buffer length, fresh bytes)"),
                 (re.compile(r"^<tokio::process::ChildStdin as (tokio::io::)?AsyncWriteExt>::write_all(::<.*)?$"), write_all, "ChildStdin::write_all (recorded with its bytes)"),
                 (re.compile(r"^tokio::io::copy::<"), tcopy, "tokio::io::copy (recorded)"),
                 (re.compile(r"^<tokio::fs::File as (tokio::io::)?AsyncWriteExt>::flush$"), tflush, "File::flush (recorded)"),
                 (re.compile(r"^tokio::process::Child::wait_with_output$"), wait, "Child::wait_with_output (recorded; any outcome)"),
                 (re.compile(r"^(std::process::)?ExitStatus::success$"), success, "ExitStatus::success"),
                 (re.compile(r"^(std::process::)?ExitStatus::code$"), exit_code, "ExitStatus::code (None when the child was killed by a signal)"),
                 (re.compile(r"^std::mem::drop::<"), drop, "mem::drop (closing a pipe end is recorded)"),
                 (re.compile(r"^(std::string::)?String::from_utf8_lossy$"), lossy, "from_utf8_lossy (some text)"),
                 (re.compile(r"^std::vec::from_elem::<u8>$|^alloc::vec::from_elem::<u8>$"), vec_from_elem, "vec![0u8; n]"),
                 (re.compile(r"^Path::display$"), opaque, "Path::display (opaque)"),
                 (re.compile(r"^<(std::string::)?String as Into<Box<dyn StdError>>>::into$|^<Box<dyn StdError> as From<.*>>::from$"), opaque, "error boxing (opaque)"),
                 (re.compile(r"^<Vec<u8> as Deref>::deref$|^<Vec<u8> as DerefMut>::deref_mut$"), lambda ex_, st, a, d, f, w: a[0], "Vec deref (same place)"),
                 (re.compile(r"^<(\{async fn body of (tokio::[\w:]+(<.*>)?)\(\)\}|tokio::io::util::\w+::\w+<'_, .*>|tokio::process::\w+<.*>|impl Future<.*>) as (std::future::)?Future>::poll$"), poll_ready, "poll of a ready library future"),
                 ] + ex.models
    return ex, ev


def _run(ex, what, upvars):
    st = State()
    st.frames[0] = {"co": VEnum("Coroutine", I(0), {-1: upvars})}
    cands = [v for k, v in asyncmodels.body_index(ex).items() if v.startswith(what + "::")]
    cands = sorted(set(cands), key=len)
    fn = ex.find_fn(cands[0]) if cands else None
    if fn is None:
        raise Inconclusive("no MIR body for the state machine of %s" % what)
    poll = ex.exec_fn(fn, [VStruct("Pin", [VRef("place", 0, "co")]), VOpaque("Context")], st)
    if poll is None or 0 not in poll.pay:
        raise Inconclusive("%s never becomes Ready" % what)
    ex.exit_guards.append(st.guard)
    return fn, st, poll


def captures(ctx, fn):
    text = open(ctx.mir_path).read()
    at = text.index("fn " + fn.name + "(")
    return dict((int(i), n) for n, i in re.findall(r"debug (\w+) => \(\(\*_\d+\)\.(\d+): ", text[at:text.index("bb0: {", at)]))


def _setup(ctx, ex, fn_name, values):
    fn = ex.find_fn(fn_name)
    if fn is None:
        raise Inconclusive("no MIR body %s" % fn_name)
    caps = captures(ctx, fn)
    optional = {k[1:] for k in values if k.startswith("?")}
    values = {k.lstrip("?"): v for k, v in values.items()}
    if not (set(values) - optional <= set(caps.values()) <= set(values)):
        raise Inconclusive("%s captures %r, expected %r" % (fn_name, sorted(caps.values()), sorted(values)))
    st = State()
    st.frames[0] = {"co": VEnum("Coroutine", I(0), {-1: [values[caps[i]] for i in sorted(caps)]})}
    poll = ex.exec_fn(fn, [VStruct("Pin", [VRef("place", 0, "co")]), VOpaque("Context")], st)
    if poll is None or 0 not in poll.pay:
        raise Inconclusive("%s never becomes Ready" % fn_name)
    ex.exit_guards.append(st.guard)
    return fn, st, poll


def _argv_goals(ev, host, spec, idx, n_expected=3):
    """argv = ssh, <host>, <spec> under every path that builds it"""
    argv = ev["argv"]
    g = {}
    g["ssh-is-run-with-exactly-the-host-and-ONE-command-argument"] = z3.BoolVal(
        len(argv) == n_expected and isinstance(argv[0][1], VOpaque) and argv[0][1].what == ("str", '"ssh"') and len(argv[1]) == 3 and argv[1][2] is not None
        and z3.eq(simp(argv[1][2]), simp(host)))
    if len(argv) >= 3 and isinstance(argv[2][1], (VSeq, VStruct)):
        cmd = argv[2][1].f[0] if isinstance(argv[2][1], VStruct) else argv[2][1]
        if spec is not None:
            g["the-command-text-is-exactly-the-specified-command-for-every-path"] = z3.Implies(argv[2][0], seq_eq(cmd, spec, idx))
        return g, cmd
    g["the-command-text-is-exactly-the-specified-command-for-every-path"] = z3.BoolVal(False)
    return g, None


def push_obligation(ctx, R, prover, pid, path_len=3):
    ex, ev = _mk(ctx, path_len)
    P = sym_text(ex, "remote_path", path_len)
    HOST_T = z3.Int("HOST")
    HOST = VRef("val", val=strv(HOST_T))
    LOCAL = z3.Int("LOCAL_PATH")
    has_m = ex.fresh_bool("mtime_given")
    mt = ex.fresh_int("mtime", ty="i64")
    fn, st, poll = _setup(ctx, ex, "transfer_file_to_remote::{closure#0}::{closure#0}",
                          {"local_path": VRef("val", val=pathv(LOCAL)), "remote_path": VRef("val", val=P), "mtime": opt_sym(has_m, VInt(mt, "i64")), "host": HOST})
    res = poll.pay[0][0]
    ok = z3.And(poll.discr == 0, res.discr == 0)
    idx = z3.Int("ANY_INDEX")
    q = quote_spec(P, path_len)
    qcap = 2 * path_len
    tmpq = concat([(q, qcap), (lit(".copia-tmp"), 10)])
    dec = ex.dec_table.of(ex, mt)
    base = [(lit("cat > $'"), 8), (tmpq, qcap + 10), (lit("' && mv -f $'"), 13), (tmpq, qcap + 10), (lit("' $'"), 4), (q, qcap), (lit("'"), 1)]
    touch = [(lit(" && touch -d @"), 14), (dec, ex.dec_table.cap), (lit(" $'"), 3), (q, qcap), (lit("'"), 1)]
    s_without, s_with = concat(base), concat(base + touch)
    goals, cmd = _argv_goals(ev, HOST_T, None, idx)
    if cmd is not None:
        goals["the-command-text-is-exactly-the-specified-command-for-every-path"] = z3.Implies(
            ev["argv"][2][0], z3.If(has_m, seq_eq(cmd, s_with, idx), seq_eq(cmd, s_without, idx)))
    eff = fsmodels.effects(ex)
    reads, writes = ev["reads"], ev["writes"]
    j = z3.Int("ANY_BYTE")
    goals["every-chunk-read-from-the-file-is-written-to-the-pipe-in-full,-in-order,-and-nothing-else-is"] = z3.And(
        z3.BoolVal(len(writes) <= len(reads)),
        *[z3.Implies(w["guard"], z3.And(r["guard"], r["ok"], r["seq"] < w["seq"], w["seq_val"].len == r["count"],
                                       z3.Implies(z3.And(j >= 0, j < r["count"]), w["seq_val"].at(j) == z3.Select(r["data"], j))))
          for r, w in zip(reads, writes)])
    if "wait" in ev and "spawn" in ev:
        parts = {
            "ssh-was-spawned-with-a-stdin-pipe": z3.And(ev["spawn"]["ok"], ev["has_in"]),
            "the-local-file-was-opened": _any(z3.And(e["guard"], e["ok"]) for e in eff if e["call"] == "open"),
            "every-read-and-every-pipe-write-succeeded": z3.And(_all(z3.Implies(r["guard"], r["ok"]) for r in reads), _all(z3.Implies(w["guard"], w["ok"]) for w in writes)),
            "the-file-was-read-to-its-end-and-every-non-empty-chunk-was-followed-by-a-write": z3.And(
                _any(z3.And(r["guard"], r["count"] == 0) for r in reads),
                _all(z3.Implies(z3.And(r["guard"], r["count"] > 0), _any(z3.And(w["guard"], w["seq"] > r["seq"]) for w in writes)) for r in reads)),
            # the code after the loop is replicated per iteration count: one wait per replica, told apart by its guard
            "the-pipe-was-closed-before-waiting": _all(z3.Implies(w_["guard"], _any(z3.And(d["guard"], d["seq"] < w_["seq"]) for d in ev["drops"] if d["call"] == "close-ChildStdin"))
                                                       for w_ in ev["waits"]),
            "the-remote-command-was-waited-for-and-exited-0": _any(z3.And(w_["guard"], w_["ok"], w_["success"]) for w_ in ev["waits"]),
        }
        for k_, f_ in parts.items():
            goals["Ok-only-if-" + k_] = z3.Implies(ok, f_)
    else:
        goals["Ok-only-if-ssh-was-spawned-and-waited-for"] = z3.BoolVal(False)
    goals["the-local-file-is-only-inspected-and-opened-for-reading"] = z3.BoolVal(all(
        e["call"] in ("metadata", "open", "read-file", "write-pipe", "spawn-ssh", "wait-child", "close-ChildStdin", "close-ChildStdout") for e in eff)) if True else None
    goals["the-local-file-is-only-inspected-and-opened-for-reading"] = z3.And(goals["the-local-file-is-only-inspected-and-opened-for-reading"],
                                                                             _all(z3.Implies(e["guard"], e["path"] == LOCAL) for e in eff if e["call"] in ("metadata", "open")))
    prover.prove(ex, goals, "%s/push/transfer_file_to_remote" % pid,
                 "remote path: 0..%d characters, each any code point; optional mtime (full i64, its decimal text uninterpreted); spawn, pipe, file reads (any chunking, "
                 "at most %d chunks), writes, wait and the exit status arbitrary; one schedule; bash's reading of $'..' is a contract validated natively" % (path_len, ex.K - 1),
                 [fn.name], push_witness(R, pid, P, has_m, mt), covers={"ok-reachable": ok, "with-mtime": z3.And(ok, has_m)})


def pull_obligation(ctx, R, prover, pid, path_len=3):
    ex, ev = _mk(ctx, path_len)
    P = sym_text(ex, "remote_path", path_len)
    HOST_T = z3.Int("HOST")
    HOST = VRef("val", val=strv(HOST_T))
    LOCAL = z3.Int("LOCAL_PATH")
    fn, st, poll = _setup(ctx, ex, "transfer_file_from_remote::{closure#0}::{closure#0}",
                          {"local_path": VRef("val", val=pathv(LOCAL)), "remote_path": VRef("val", val=P), "host": HOST})
    res = poll.pay[0][0]
    ok = z3.And(poll.discr == 0, res.discr == 0)
    idx = z3.Int("ANY_INDEX")
    q = quote_spec(P, path_len)
    spec = concat([(lit("cat $'"), 6), (q, 2 * path_len), (lit("'"), 1)])
    goals, cmd = _argv_goals(ev, HOST_T, spec, idx)
    prover.prove(ex, goals, "%s/pull/command" % pid,
                 "remote path: 0..%d characters, each any code point; everything else arbitrary (decided under %s/transfer_file_from_remote)" % (path_len, pid),
                 [fn.name], pull_witness(R, pid, P), covers={"ok-reachable": ok})


def list_obligation(ctx, R, prover, pid, path_len=3):
    ex, ev = _mk(ctx, path_len)
    P = sym_text(ex, "remote_root", path_len)
    HOST_T = z3.Int("HOST")
    HOST = VRef("val", val=strv(HOST_T))
    fn, st, poll = _setup(ctx, ex, "discover_remote_with_meta::{closure#0}", {"remote_root": VRef("val", val=P), "host": HOST})
    res = poll.pay[0][0]
    ok = z3.And(poll.discr == 0, res.discr == 0)
    idx = z3.Int("ANY_INDEX")
    q = quote_spec(P, path_len)
    tail = "' && find . -type f -printf '%s\\t%T@\\t%p\\0'"
    spec = concat([(lit("cd $'"), 5), (q, 2 * path_len), (lit(tail), len(tail))])
    goals, cmd = _argv_goals(ev, HOST_T, spec, idx)
    parsed = ev.get("parsed")
    goals["Ok-only-if-ssh-ran-to-completion-and-exited-0,-and-what-is-parsed-is-exactly-its-standard-output"] = z3.Implies(ok, z3.And(
        ev["wait"]["guard"], ev["wait"]["ok"], ev["wait"]["success"],
        z3.BoolVal(parsed is not None and isinstance(parsed[1], VSeq) and str(parsed[1].arr) == "LISTING"))) if "wait" in ev else z3.BoolVal(False)
    prover.prove(ex, goals, "%s/list/command" % pid,
                 "remote root: 0..%d characters, each any code point; ssh's outcome and listing arbitrary (the parser is decided under C19)" % path_len,
                 [fn.name], list_witness(R, pid, P), covers={"ok-reachable": ok})


# ----------------------------------------------------------------- native: the real binary, the real bash

LONG_NAME = "L" * 250      # a legal name whose staging sibling `<name>.copia-tmp` exceeds NAME_MAX: the remote `cat > tmp` fails
HOSTILE = ["plain", "a b", "a'b", "a\\b", "a\\'b", "a\\\\b'", "$HOME", "`id`", "a\"b", "*?[x]", "a\nb", "-n", "été", "a\\nb", "'", "\\", "a;b&c|d", "#x", "~", "a\tb", "$'x'", "\\'", LONG_NAME]


def _name_from_model(model, P):
    if model is None:
        return None
    cs = model_text(model, P)
    out = ""
    for c in cs:
        ch = chr(c) if 0 < c < 0x110000 and not (0xD800 <= c <= 0xDFFF) else "x"
        out += "x" if ch in "/\0" else ch
    return out if out not in ("", ".", "..") else None


def _fake_ssh(base):
    bindir = os.path.join(base, "bin")
    os.makedirs(bindir, exist_ok=True)
    log = os.path.join(base, "ssh-argv.log")
    with open(os.path.join(bindir, "ssh"), "w") as f:
        f.write("#!/bin/bash\nprintf '%%s\\0' \"$@\" > %s.$$\nwhile [[ \"$1\" == -* ]]; do shift; done\nshift\nexec bash -c \"$*\"\n" % log)
    os.chmod(os.path.join(bindir, "ssh"), 0o755)
    return bindir, log


def transport_case(direction, name, profile, data=b"payload\n", mtime=1_600_000_123):
    """one file with a hostile NAME through the real `copia sync -r` in the given direction over the stand-in for ssh;
    returns what arrived, the exit status and the command lines ssh was given"""
    from . import c04
    exe = c04.build_copia(profile)
    base = tempfile.mkdtemp(prefix="copia-verif-sh-")
    try:
        s, d = os.path.join(base, "src"), os.path.join(base, "dst")
        os.makedirs(s)
        os.makedirs(d)
        try:
            with open(os.path.join(s, name), "wb") as f:
                f.write(data)
        except (OSError, ValueError) as e:
            return {"skipped": "the local file system refuses the name: %s" % e}
        os.utime(os.path.join(s, name), (mtime, mtime))
        open(os.path.join(s, "other"), "wb").write(b"o")
        os.utime(os.path.join(s, "other"), (mtime, mtime))
        bindir, log = _fake_ssh(base)
        envp = dict(os.environ, PATH=bindir + ":" + os.environ["PATH"], HOME=base)
        sa, da = (s, "fakehost:" + d) if direction == "push" else ("fakehost:" + s, d)
        p = subprocess.run([exe, "sync", "-r", sa, da], stdout=subprocess.PIPE, stderr=subprocess.PIPE, timeout=120, env=envp, cwd=base)
        got = {}
        for dd, _, fs in os.walk(d):
            for f in fs:
                pth = os.path.join(dd, f)
                got[os.path.relpath(pth, d)] = [open(pth, "rb").read().decode(errors="replace"), int(os.stat(pth).st_mtime)]
        stray = sorted(x for x in os.listdir(base) if x not in ("src", "dst", "bin") and not x.startswith("ssh-argv.log"))
        cmds = []
        for lf in sorted(x for x in os.listdir(base) if x.startswith("ssh-argv.log")):
            parts = open(os.path.join(base, lf), "rb").read().split(b"\0")[:-1]
            if parts:
                cmds.append([x.decode(errors="replace") for x in parts])
        return {"rc": p.returncode, "dst": got, "stray": stray, "argv": cmds, "stderr": p.stderr.decode(errors="replace")[-300:]}
    finally:
        shutil.rmtree(base, ignore_errors=True)


def remote_writer_death_case(profile):
    """push in which the REMOTE writer dies mid-file (a file-size limit kills the remote `cat` after 64 KiB): the destination file
    must keep its complete old bytes (or get the complete new ones) - a truncated file under the destination name is what the
    `&&` between `cat > tmp` and `mv` exists to prevent"""
    from . import c04
    exe = c04.build_copia(profile)
    base = tempfile.mkdtemp(prefix="copia-verif-rwd-")
    try:
        s, d, home, bindir = (os.path.join(base, x) for x in ("src", "dst", "home", "bin"))
        for x in (s, d, home, bindir):
            os.makedirs(x)
        new, old = b"N" * 300_000, b"o" * 100_000
        open(os.path.join(s, "big.bin"), "wb").write(new)
        open(os.path.join(d, "big.bin"), "wb").write(old)
        os.utime(os.path.join(d, "big.bin"), (1_500_000_000, 1_500_000_000))
        with open(os.path.join(bindir, "ssh"), "w") as f:
            f.write("#!/bin/bash\nshift\ncase \"$*\" in\n  cat\\ \\>*) ulimit -f 64;;\nesac\nexec bash -c \"$*\"\n")
        os.chmod(os.path.join(bindir, "ssh"), 0o755)
        envp = dict(os.environ, PATH=bindir + ":" + os.environ["PATH"], HOME=home)
        p = subprocess.run([exe, "sync", "-r", s, "fakehost:" + d], stdout=subprocess.PIPE, stderr=subprocess.PIPE, timeout=120, env=envp, cwd=home, text=True)
        got = open(os.path.join(d, "big.bin"), "rb").read() if os.path.exists(os.path.join(d, "big.bin")) else None
        state = "old" if got == old else "new" if got == new else "absent" if got is None else "%d bytes that are neither the old (%d) nor the new (%d) file" % (len(got), len(old), len(new))
        return {"rc": p.returncode, "big.bin": state, "said": (p.stdout + p.stderr)[-200:]}
    finally:
        shutil.rmtree(base, ignore_errors=True)


def remote_writer_death_witness(R, pid):
    for prof in ("dev", "release"):
        r = remote_writer_death_case(prof)
        why = None
        if r["big.bin"] not in ("old", "new"):
            why = "the destination holds %s" % r["big.bin"]
        elif r["rc"] == 0 and r["big.bin"] != "new":
            why = "exit 0 although the file was not delivered"
        if why:
            case = {"fn": "remote_writer_death", "observed": {prof: r}}
            return {"confirmed": True, "replay_path": R.save_replay("%s/push/remote-writer-dies" % pid, case), "key": "%s/push/remote-writer-dies" % pid,
                    "detail": "push whose remote `cat` is killed mid-file (%s): %s (exit %d)" % (prof, why, r["rc"])}
    return {"confirmed": False, "detail": "a push whose remote writer dies mid-file leaves the old file in place and exits non-zero"}


def judge_transport(direction, name, r, data="payload\n", mtime=1_600_000_123):
    if "skipped" in r:
        return None
    want = {name: [data, mtime], "other": ["o", mtime]}
    if r["stray"]:
        return "files appeared outside the destination: %s" % r["stray"]
    if r["rc"] == 0 and r["dst"] != want:
        return "exit 0 but the destination is %s, expected %s" % (json.dumps(r["dst"])[:200], json.dumps(want)[:200])
    if r["rc"] != 0 and len(name.encode()) > 245:
        # no room for `<name>.copia-tmp`: this file cannot be staged, the run may fail - with an error, and without touching anything else
        bad = {k: v for k, v in r["dst"].items() if not k.endswith(".copia-tmp") and (k not in want or v[0] != want[k][0])}
        return ("exit %d and the destination holds %s" % (r["rc"], json.dumps(bad)[:200])) if bad else None
    if r["rc"] != 0:
        bad = {k: v for k, v in r["dst"].items() if k.endswith(".copia-tmp") is False and (k not in want or v[0] != want[k][0])}
        if bad:
            return "exit %d and the destination holds %s" % (r["rc"], json.dumps(bad)[:200])
        return "a transferable file name makes the run fail (exit %d): %s" % (r["rc"], r["stderr"][-160:])
    return None


def _witness(R, pid, direction, P, label):
    def w(name, model, neg):
        if direction == "push":
            t = remote_writer_death_witness(R, pid)
            if t["confirmed"]:
                return t
        names = [n for n in [_name_from_model(model, P)] if n] + HOSTILE
        for prof in ("dev", "release"):
            for nm in names:
                r = transport_case(direction, nm, prof)
                why = judge_transport(direction, nm, r)
                if why:
                    case = {"fn": "remote_shell_transport", "direction": direction, "name": nm, "observed": {prof: r}}
                    return {"confirmed": True, "replay_path": R.save_replay("%s/%s" % (pid, label), case), "key": "%s/%s/command" % (pid, direction),
                            "detail": "`copia sync -r` (%s, %s) of a file named %r: %s" % (direction, prof, nm, why)}
        return {"confirmed": False, "detail": "the real binary delivers every hostile name tried (%d names, %s) correctly" % (len(names), direction)}
    return w


def push_witness(R, pid, P, has_m, mt):
    return _witness(R, pid, "push", P, "push/transfer_file_to_remote")


def pull_witness(R, pid, P):
    return _witness(R, pid, "pull", P, "pull/command")


def list_witness(R, pid, P):
    return _witness(R, pid, "pull", P, "list/command")


def bash_contract_validation(R, pid):
    """the contract of the remote shell the command goals rely on: bash reads $'Q(x)' back as x, for hostile x"""
    def q(s):
        return s.replace("\\", "\\\\").replace("'", "\\'")
    bad = []
    for x in HOSTILE + ["a\\", "'\\''", "\\\\'", "x" * 300, "中文", "a\rb", "\x01\x7f"]:
        p = subprocess.run(["bash", "-c", "printf '%%s' $'%s'" % q(x)], stdout=subprocess.PIPE, stderr=subprocess.PIPE)
        if p.returncode != 0 or p.stdout != x.encode():
            bad.append((x, p.stdout[:80], p.stderr[:80]))
    R.validation["cases"] += len(HOSTILE) + 7
    if bad:
        R.validation["disagreements"] += len(bad)
        R.add("%s/remote-shell/quoting-contract" % pid, "inconclusive", detail="bash does not read $'Q(x)' back as x for %r" % (bad[0],))
    else:
        R.add("%s/remote-shell/quoting-contract" % pid, "holds", queries=0, solver_s=0.0,
              detail="bash reads $'Q(x)' back as x on %d hostile strings (contract of the remote shell; validation)" % (len(HOSTILE) + 7))


def native_validation(R, pid, directions=("push", "pull")):
    """the real binary through the stand-in for ssh on the hostile names, and the command lines it gave ssh against the specification"""
    if "push" in directions:
        t = remote_writer_death_witness(R, pid)
        R.validation["cases"] += 2
        if t["confirmed"]:
            R.validation["disagreements"] += 1
            R.add("%s/remote-shell/native" % pid, "violated", confirmed=True, replay_path=t["replay_path"], key=t["key"], detail=t["detail"])
            return
    def q(s):
        return s.replace("\\", "\\\\").replace("'", "\\'")
    n = 0
    for prof in ("dev", "release"):
        for direction in directions:
            for nm in HOSTILE:
                r = transport_case(direction, nm, prof)
                n += 1
                why = judge_transport(direction, nm, r)
                if not why and "argv" in r:
                    # the model's reading of the command construction, on this concrete name
                    cmds = [a[-1] for a in r["argv"] if len(a) >= 2 and a[-2] == "fakehost"]
                    root = None
                    if len(nm.encode()) > 245 and r["rc"] != 0:
                        continue
                    if direction == "push":
                        hits = [c for c in cmds if c.startswith("cat > $'") and c.endswith(q("/" + nm) + "'")]
                        for c in hits:
                            m = re.match(r"^cat > \$'(.*)\.copia-tmp' && mv -f \$'(.*)\.copia-tmp' \$'(.*)' && touch -d @(-?\d+) \$'(.*)'$", c, re.S)
                            if not m or not (m.group(1) == m.group(2) == m.group(3) == m.group(5)) or not m.group(1).endswith(q("/" + nm)):
                                why = "the command line given to ssh is %r, not the specified one" % c
                        if not hits:
                            why = "no push command for the file was given to ssh: %r" % cmds[:4]
                    else:
                        hits = [c for c in cmds if c.startswith("cat $'") and c.endswith(q("/" + nm) + "'")]
                        if not hits:
                            why = "no `cat $'Q(path)'` for the file was given to ssh: %r" % cmds[:4]
                if why and why.startswith(("the command line given to ssh", "no push command", "no `cat")):
                    # the real command line is not the one the text goals specify: the BEHAVIOUR above was right, so this is not a
                    # violation of the property - it means the specification in this module must be re-derived for the changed code
                    R.validation["cases"] += n
                    R.add("%s/remote-shell/native" % pid, "inconclusive", detail="`copia sync -r` (%s, %s) of a file named %r behaves correctly, but %s" % (direction, prof, nm, why))
                    return
                if why:
                    R.validation["disagreements"] += 1
                    case = {"fn": "remote_shell_transport", "direction": direction, "name": nm, "observed": {prof: r}}
                    R.add("%s/remote-shell/native" % pid, "violated", confirmed=True, replay_path=R.save_replay("%s/remote-shell/native" % pid, case), key="%s/%s/command" % (pid, direction),
                          detail="`copia sync -r` (%s, %s) of a file named %r: %s" % (direction, prof, nm, why))
                    R.validation["cases"] += n
                    return
    R.validation["cases"] += n
    R.add("%s/remote-shell/native" % pid, "holds", queries=0, solver_s=0.0,
          detail="the real binary delivers %d hostile file names correctly through the stand-in for ssh (%s; dev+release) and gives ssh the specified command lines; validation" % (len(HOSTILE), "+".join(directions)))


def replay_case(case):
    if case.get("fn") == "remote_writer_death":
        for prof in ("dev", "release"):
            print(prof, json.dumps(remote_writer_death_case(prof)))
        return
    if case.get("fn") == "remote_list_newline":
        for prof in ("dev", "release"):
            r = newline_case(case["which"], prof)
            print(prof, json.dumps(r), "=>", judge_newline(case["which"], r))
        return
    for prof in ("dev", "release"):
        r = transport_case(case["direction"], case["name"], prof)
        print(prof, json.dumps(r)[:600], "=>", judge_transport(case["direction"], case["name"], r))


# ----------------------------------------------------------------- the lists piped to a remote xargs (push: mkdir, rm)

def _install_list_models(ex, ev):
    from mirsmt.symexec import merge

    def deep(st, v):
        return fsmodels._deep(ex, st, v)

    def paths_into_iter(ex_, st, args, dest_ty, func, where):
        v = deep(st, args[0])
        if not isinstance(v, VList):
            raise Unsupported("iteration over %r" % (v,))
        return VStruct("PathIter", [v, VInt(I(0), "usize")])

    def paths_next(ex_, st, args, dest_ty, func, where):
        ref = args[0]
        it = ex_.deref(st, ref)
        lst, idx = it.f[0], it.f[1].t
        has = simp(idx < lst.len)
        item = None
        for j in range(len(lst.items) - 1, -1, -1):
            item = lst.items[j] if item is None else merge(simp(idx == j), lst.items[j], item)
        ex_.store_ref(st, ref, VStruct("PathIter", [lst, VInt(simp(z3.If(has, idx + 1, idx)), "usize")]))
        return opt_sym(has, VRef("val", val=item)) if item is not None else VEnum("Option", I(0), {0: []})

    def ident_ref(ex_, st, args, dest_ty, func, where):
        return VRef("val", val=deep(st, args[0]))

    def display(ex_, st, args, dest_ty, func, where):
        return deep(st, args[0])             # Display of a (valid UTF-8) path is its text

    def as_bytes(ex_, st, args, dest_ty, func, where):
        s = deep(st, args[0])
        s = s.f[0] if isinstance(s, VStruct) else s
        # ASSUMED for this obligation: one-byte characters (the delimiter question does not depend on the encoding of others)
        return VRef("val", val=VSeq(s.arr, s.off, s.len, "u8"))

    def chunks(ex_, st, args, dest_ty, func, where):
        s = deep(st, args[0])
        return VStruct("ChunksOnce", [s, VBool(z3.BoolVal(False)), VInt(args[1].t, "usize")])

    def chunks_next(ex_, st, args, dest_ty, func, where):
        ref = args[0]
        it = ex_.deref(st, ref)
        s, done, size = it.f[0], it.f[1].t, it.f[2].t
        ex_.oblig("model-bound", where, "text longer than one chunk", z3.And(st.guard, s.len > size))
        has = simp(z3.And(z3.Not(done), s.len > 0))
        ex_.store_ref(st, ref, VStruct("ChunksOnce", [s, VBool(z3.BoolVal(True)), it.f[2]]))
        return opt_sym(has, VRef("val", val=s))

    def join_any(ex_, st, args, dest_ty, func, where):
        return pathv(ex_.fresh_int("joined_path", lo=0, hi=1 << 30))

    def rm_local(ex_, st, args, dest_ty, func, where):
        ok = ex_.fresh_bool("remove_ok")
        fsmodels.record(ex_, st, "remove_file", path=I(0), ok=ok)
        return fsmodels.io_result(ex_, ok)
    ex.models = [(re.compile(r"^<&\[PathBuf\] as IntoIterator>::into_iter$"), paths_into_iter, "<&[PathBuf]>::into_iter"),
                 (re.compile(r"^<std::slice::Iter<'_, PathBuf> as Iterator>::next$"), paths_next, "slice::Iter<PathBuf>::next"),
                 (re.compile(r"^<PathBuf as Deref>::deref$"), ident_ref, "PathBuf deref (the same text)"),
                 (re.compile(r"^Path::display$"), display, "Path::display (the path's text; valid UTF-8 assumed)"),
                 (re.compile(r"^(std::string::)?String::as_bytes$"), as_bytes, "String::as_bytes (one-byte characters assumed)"),
                 (re.compile(r"^core::slice::<impl \[u8\]>::chunks$"), chunks, "<[u8]>::chunks (text shorter than one chunk)"),
                 (re.compile(r"^<(std::slice::)?Chunks<'_, u8> as IntoIterator>::into_iter$"), lambda ex_, st, a, d, f, w: a[0], "Chunks::into_iter"),
                 (re.compile(r"^<(std::slice::)?Chunks<'_, u8> as Iterator>::next$"), chunks_next, "Chunks::next"),
                 (re.compile(r"^Path::join::<&PathBuf>$"), join_any, "Path::join (pull branch; opaque)"),
                 (re.compile(r"^std::fs::remove_file::<.*>$"), rm_local, "fs::remove_file (pull branch; recorded)"),
                 (re.compile(r"^std::io::_e?print$"), lambda ex_, st, a, d, f, w: UNIT, "eprintln!"),
                 (re.compile(r"^TransferProgress::record_err$"), lambda ex_, st, a, d, f, w: (ev.setdefault("errs", []).append(st.guard), UNIT)[1], "TransferProgress::record_err (recorded)"),
                 (re.compile(r"^<std::io::Error as ToString>::to_string$|^core::str::<impl str>::trim_end$|^<str as ToString>::to_string$|^<Cow<'_, str> as Deref>::deref$"),
                  lambda ex_, st, a, d, f, w: VRef("val", val=VSeq(z3.Array("SOME_TEXT", z3.IntSort(), z3.IntSort()), I(0), ex_.fresh_int("some_text_len", lo=0, hi=3), "char")) if "Deref" in f or "trim" in f
                  else VStruct("String", [VSeq(z3.Array("SOME_TEXT", z3.IntSort(), z3.IntSort()), I(0), ex_.fresh_int("some_text_len", lo=0, hi=3), "char")]), "error text plumbing (some text)"),
                 ] + ex.models


def _delimiter_of(cmd_value):
    """the delimiter the remote xargs splits its input at, read from the CONSTANT command line copia passes"""
    if not (isinstance(cmd_value, VOpaque) and isinstance(cmd_value.what, tuple) and cmd_value.what[0] == "str"):
        raise Inconclusive("the remote list command is not a constant string: %r" % (cmd_value,))
    text = str(cmd_value.what[1])[1:-1].encode().decode("unicode_escape")
    m = re.match(r"^xargs (-0|-d '\\n'|--null) (mkdir -p|rm -f --)$", text)
    if not m:
        raise Inconclusive("remote list command %r is not `xargs <delimiter option> mkdir -p | rm -f --`" % text)
    return text, (0 if m.group(1) in ("-0", "--null") else 10), m.group(2)


def list_pipe_obligation(ctx, R, prover, pid, which, path_len=2, n_paths=2):
    """which: 'rm' (apply_remote_deletes, push branch) | 'mkdir' (create_remote_dirs)"""
    ex, ev = _mk(ctx, path_len)
    _install_list_models(ex, ev)
    ex.fmt_cap = (n_paths + 1) * (2 * path_len + 2) + 2      # the accumulated list is itself appended to
    ROOT = sym_text(ex, "remote_root", path_len)
    HOST_T = z3.Int("HOST")
    HOST = VRef("val", val=strv(HOST_T))
    rels = [sym_text(ex, "rel%d" % i, path_len) for i in range(n_paths)]
    nrel = ex.fresh_int("n_paths", lo=0, hi=n_paths)
    lst = VList(rels, nrel, "PathBuf")
    if which == "rm":
        enums = ctx.enums.get("Dir") or {}
        if "Push" not in enums:
            raise Inconclusive("enum Dir { .., Push } not found")
        vals = {"dir": VEnum("Dir", I(enums["Push"]), {}), "host": HOST, "remote_root": VRef("val", val=ROOT), "local_root": VRef("val", val=pathv(z3.Int("LOCAL_ROOT"))),
                "dels": VRef("val", val=lst), "?progress": VRef("val", val=VStruct("TransferProgress", []))}
        fn, st, poll = _setup(ctx, ex, "apply_remote_deletes::{closure#0}", vals)
        ok = poll.discr == 0
    else:
        vals = {"host": HOST, "remote_root": VRef("val", val=ROOT), "dirs": VRef("val", val=lst)}
        fn, st, poll = _setup(ctx, ex, "create_remote_dirs::{closure#0}", vals)
        ok = z3.And(poll.discr == 0, poll.pay[0][0].discr == 0)
    argv = ev["argv"]
    # the code after the loop over the paths is replicated per iteration count: one `ssh <host> <command>` triple per replica
    if not argv or len(argv) % 3:
        raise Inconclusive("expected `ssh <host> <command>` triples, found %d arguments" % len(argv))
    triples = [argv[i:i + 3] for i in range(0, len(argv), 3)]
    text, D, tool = _delimiter_of(argv[2][1])
    for t3 in triples:
        if _delimiter_of(t3[2][1])[0] != text:
            raise Inconclusive("different list commands on different paths")
    items = ([(ROOT, None)] if which == "mkdir" else []) + [(r, i) for i, r in enumerate(rels)]
    parts = []
    for r, i in items:
        piece = concat([(ROOT, path_len), (lit("/"), 1), (r, path_len), (lit(chr(D)), 1)]) if i is not None else concat([(ROOT, path_len), (lit(chr(D)), 1)])
        live = z3.BoolVal(True) if i is None else i < nrel
        parts.append((VSeq(piece.arr, I(0), simp(z3.If(live, piece.len, 0)), "char"), 2 * path_len + 2))
    spec = concat(parts)
    idx = z3.Int("ANY_INDEX")
    writes = ev["writes"]
    goals = {"ssh-is-run-with-the-host-and-the-constant-list-command": z3.BoolVal(all(
        isinstance(t3[0][1], VOpaque) and t3[0][1].what == ("str", '"ssh"') and t3[1][2] is not None and z3.eq(simp(t3[1][2]), simp(HOST_T)) for t3 in triples))}
    goals["what-is-piped-to-the-remote-xargs-is-exactly-one-delimiter-terminated-entry-per-path:-<root>/<rel>"] = z3.And(
        z3.BoolVal(len(writes) >= 1),
        *[z3.Implies(w["guard"], seq_eq(VSeq(w["seq_val"].arr, w["seq_val"].off, w["seq_val"].len, "char"), spec, idx)) for w in writes])
    chars = [(ROOT, j) for j in range(path_len)] + [(r, j) for r in rels for j in range(path_len)]
    goals["no-entry-contains-the-delimiter-the-remote-xargs-splits-at-(so-it-sees-exactly-the-intended-paths)"] = z3.And(
        *[z3.Implies(j < t.len, t.at(I(j)) != D) for t, j in chars])
    if which == "rm" and "spawn" in ev:
        good = z3.And(_any(z3.And(sp["guard"], sp["ok"]) for sp in ev["spawns"]), _all(z3.Implies(w["guard"], w["ok"]) for w in writes), _any(z3.And(w_["guard"], w_["ok"], w_["success"]) for w_ in ev.get("waits", [])))
        goals["a-remote-removal-that-did-not-succeed-(spawn,-pipe,-wait-or-exit-status)-is-recorded-as-a-failure,-and-only-then"] = z3.Implies(
            ok, _any(g for g in ev.get("errs", [])) == z3.Not(good))
    prover.prove(ex, goals, "%s/push/%s-list" % (pid, which),
                 "remote root and 0..%d relative paths of 0..%d characters each, every character any code point except NUL (a file name cannot contain NUL); the remote "
                 "command is the constant %r: xargs splits its input at %s and runs `%s` on the pieces (CONTRACT of the remote xargs)" % (n_paths, path_len, text, "NUL" if D == 0 else "newline", tool),
                 [fn.name], list_witness_native(R, pid, which), covers={"completes": ok, "two-entries": z3.And(ok, nrel == 2)})


def newline_case(which, profile):
    """the real `copia sync -r [--delete] SRC host:DST` through the stand-in for ssh with a NEWLINE inside a directory name"""
    from . import c04
    exe = c04.build_copia(profile)
    base = tempfile.mkdtemp(prefix="copia-verif-nl-")
    try:
        s, d, home = os.path.join(base, "src"), os.path.join(base, "dst"), os.path.join(base, "home")
        for x in (s, d, home):
            os.makedirs(x)
        open(os.path.join(s, "keep"), "w").write("keep")
        victim = os.path.join(base, "victim")
        open(victim, "w").write("precious")
        if which == "rm":
            # a stale file on the destination whose relative path is `x<newline>` + <absolute path of a file OUTSIDE the destination>
            stale = d + "/x\n" + victim
            os.makedirs(os.path.dirname(stale))
            open(stale, "w").write("stale")
        else:
            os.makedirs(os.path.join(s, "d\ne"))
            open(os.path.join(s, "d\ne", "f"), "w").write("hi")
        bindir, log = _fake_ssh(base)
        envp = dict(os.environ, PATH=bindir + ":" + os.environ["PATH"], HOME=home)
        p = subprocess.run([exe, "sync", "-r", s, "fakehost:" + d] + (["--delete"] if which == "rm" else []), stdout=subprocess.PIPE, stderr=subprocess.PIPE, timeout=120, env=envp, cwd=home)
        out = {"rc": p.returncode, "victim_outside_the_destination_still_exists": os.path.exists(victim),
               "created_in_the_remote_working_directory": sorted(os.listdir(home)),
               "destination": sorted(os.path.relpath(os.path.join(dd, f), d) for dd, _, fs in os.walk(d) for f in fs)}
        if which == "rm":
            out["stale_file_still_there"] = os.path.exists(stale)
        return out
    finally:
        shutil.rmtree(base, ignore_errors=True)


def judge_newline(which, r):
    if not r["victim_outside_the_destination_still_exists"]:
        return "a file OUTSIDE the destination was removed (exit %d)" % r["rc"]
    if r["created_in_the_remote_working_directory"]:
        return "something was created outside the destination, in the remote working directory: %s (exit %d)" % (r["created_in_the_remote_working_directory"], r["rc"])
    if which == "rm" and r["rc"] == 0 and r.get("stale_file_still_there"):
        return "exit 0 but the stale destination file was not removed"
    return None


def list_witness_native(R, pid, which):
    def w(name, model, neg):
        for prof in ("dev", "release"):
            r = newline_case(which, prof)
            why = judge_newline(which, r)
            if why:
                case = {"fn": "remote_list_newline", "which": which, "observed": {prof: r}}
                return {"confirmed": True, "replay_path": R.save_replay("%s/push/%s-list" % (pid, which), case), "key": "%s/push/%s-list/newline-in-a-name" % (pid, which),
                        "detail": "`copia sync -r%s SRC host:DST` with a newline inside a %s name (%s): %s" % (" --delete" if which == "rm" else "", "destination path" if which == "rm" else "source directory", prof, why)}
        return {"confirmed": False, "detail": "the real binary handles a newline inside a name correctly in the %s list" % which}
    return w


def list_native_validation(R, pid):
    n = 0
    for which in ("rm", "mkdir"):
        for prof in ("dev", "release"):
            n += 1
            r = newline_case(which, prof)
            why = judge_newline(which, r)
            if why:
                R.validation["cases"] += n
                R.validation["disagreements"] += 1
                case = {"fn": "remote_list_newline", "which": which, "observed": {prof: r}}
                R.add("%s/push/lists/native" % pid, "violated", confirmed=True, replay_path=R.save_replay("%s/push/lists/native" % pid, case), key="%s/push/%s-list/newline-in-a-name" % (pid, which),
                      detail="`copia sync -r%s` to a remote with a newline inside a name (%s, %s): %s" % (" --delete" if which == "rm" else "", which, prof, why))
                return
    R.validation["cases"] += n
    R.add("%s/push/lists/native" % pid, "holds", queries=0, solver_s=0.0, detail="the real push with a newline inside a directory name / a stale destination path touches nothing outside the destination (dev+release); validation")


def pull_deletes_obligation(ctx, R, prover, pid, path_len=2, n_paths=2):
    """apply_remote_deletes, Dir::Pull branch (with remove_stale) from MIR: exactly the listed paths are removed under the local root,
    and a removal that fails for another reason than `the file is already gone` is recorded as a failure - once each"""
    ex, ev = _mk(ctx, path_len)
    _install_list_models(ex, ev)
    rels = [sym_text(ex, "rel%d" % i, path_len) for i in range(n_paths)]
    nrel = ex.fresh_int("n_paths", lo=0, hi=n_paths)
    lst = VList(rels, nrel, "PathBuf")
    LOCAL = z3.Int("LOCAL_ROOT")
    rms = []

    def join(ex_, st, args, dest_ty, func, where):
        return VStruct("JoinedText", [VInt(fsmodels.path_term(ex_, st, args[0]), "usize"), fsmodels._deep(ex_, st, args[1])])

    def rm(ex_, st, args, dest_ty, func, where):
        okr = ex_.fresh_bool("remove_ok")
        kind = ex_.fresh_int("errkind", lo=1, hi=64)
        rms.append({"guard": st.guard, "target": fsmodels._deep(ex_, st, args[0]), "ok": okr, "kind": kind, "seq": len(rms)})
        return fsmodels.io_result(ex_, okr, kind=kind)
    ex.models = [(re.compile(r"^Path::join::<"), join, "Path::join (root, relative text)"),
                 (re.compile(r"^std::fs::remove_file::<"), rm, "fs::remove_file (recorded; any outcome)"),
                 (re.compile(r"^<PathBuf as Deref>::deref$|^PathBuf::as_path$|^<PathBuf as AsRef<Path>>::as_ref$"), lambda ex_, st, a, d, f, w: VRef("val", val=fsmodels._deep(ex_, st, a[0])), "path views"),
                 (re.compile(r"^<(std::path::)?Display<'_> as ToString>::to_string$"), lambda ex_, st, a, d, f, w: VStruct("String", [fsmodels._deep(ex_, st, a[0])]) if isinstance(fsmodels._deep(ex_, st, a[0]), VSeq) else VOpaque("text"), "Display::to_string (the path's text)"),
                 (re.compile(r"^std::io::Error::kind$"), fsmodels._err_kind, "io::Error::kind"),
                 ] + ex.models
    enums = ctx.enums.get("Dir") or {}
    if "Pull" not in enums:
        raise Inconclusive("enum Dir { .., Pull } not found")
    vals = {"dir": VEnum("Dir", I(enums["Pull"]), {}), "host": VRef("val", val=strv(z3.Int("HOST"))), "remote_root": VRef("val", val=strv(z3.Int("REMOTE_ROOT"))),
            "local_root": VRef("val", val=pathv(LOCAL)), "dels": VRef("val", val=lst), "?progress": VRef("val", val=VStruct("TransferProgress", []))}
    fn, st, poll = _setup(ctx, ex, "apply_remote_deletes::{closure#0}", vals)
    done = poll.discr == 0
    NOTFOUND = fsmodels.ERRKIND.get("NotFound", 1)
    conds = []
    for k, r in enumerate(rms):
        before = sum([z3.If(rms[j]["guard"], 1, 0) for j in range(k)]) if k else I(0)
        t = r["target"]
        shape = isinstance(t, VStruct) and t.name == "JoinedText" and isinstance(t.f[1], VSeq)
        if not shape:
            conds.append(z3.Not(r["guard"]))
            continue
        for i in range(n_paths):
            conds.append(z3.Implies(z3.And(r["guard"], before == i), z3.And(i < nrel, t.f[0].t == LOCAL, t.f[1].len == rels[i].len,
                                                                                     *[z3.Implies(j < rels[i].len, t.f[1].at(I(j)) == rels[i].at(I(j))) for j in range(path_len)])))
    n_rm = sum([z3.If(r["guard"], 1, 0) for r in rms]) if rms else I(0)
    n_fail = sum([z3.If(z3.And(r["guard"], z3.Not(r["ok"]), r["kind"] != NOTFOUND), 1, 0) for r in rms]) if rms else I(0)
    n_err = sum([z3.If(g, 1, 0) for g in ev.get("errs", [])]) if ev.get("errs") else I(0)
    goals = {"exactly-the-listed-paths-are-removed,-each-once,-under-the-local-root": z3.And(z3.Implies(done, n_rm == nrel), *conds),
             "a-removal-that-fails-(other-than-`already-gone`)-is-recorded-as-a-failure,-once;-nothing-else-is": z3.Implies(done, n_err == n_fail),
             "no-ssh-is-run-for-a-pull's-deletes": z3.BoolVal(not ev["argv"])}
    from . import c04

    def witness(name, model, neg):
        return c04.undeletable_witness(R, pid, ("pull",))
    prover.prove(ex, goals, "%s/pull/remove-stale" % pid, "0..%d relative paths (symbolic texts); every removal may fail with any error kind" % n_paths, [fn.name, "remove_stale"], witness,
                 covers={"completes": done, "two-removals": z3.And(done, nrel == 2)})
