"""E1 pipeline encoding for C01 / C16: Signature::generate -> SignatureTable -> CopiaSync::delta from MIR,
concrete lengths, symbolic contents (DESIGN §4 C01, C16)."""
import json
import random
import z3

from mirsmt import env, stdmodels, deltamodels, native
from mirsmt.symexec import (Executor, State, VInt, VBool, VStruct, VEnum, VRef, VSeq, VList, VOpaque, I, simp, Unsupported)
from mirsmt.env import decide, model_int, model_bool, Inconclusive, now
from mirsmt.prove import Prover

M_SPEC = 65521


def ref_digest(w):
    n = len(w)
    a = sum(w)
    b = sum((n - i) * x for i, x in enumerate(w))
    return ((b % M_SPEC) << 16) | (a % M_SPEC)


def ref_greedy(basis, source, bs):
    """textbook greedy scan of the property text: literal byte count"""
    blocks = {bytes(basis[i:i + bs]) for i in range(0, len(basis) - bs + 1, bs)} if bs <= len(basis) else set()
    pos, lits = 0, 0
    while pos + bs <= len(source):
        if bytes(source[pos:pos + bs]) in blocks:
            pos += bs
        else:
            lits += 1
            pos += 1
    return lits + (len(source) - pos)


class Ctx:
    def __init__(self):
        def keep(n):
            return n.startswith(("sync::", "delta::", "signature::", "hash::", "async_sync::")) and "serialize" not in n
        self.mir, self.mir_path, self.dump_s = env.load("lib", keep)
        self.idx = env.impl_index(self.mir)
        self.enums = env.source_enums()

    def ex(self, K):
        e = Executor(self.mir, self.enums, K=K)
        e.impl_index = self.idx
        stdmodels.install_core(e)
        from mirsmt import itermodels
        itermodels.install(e)
        return e

    def fn(self, ex, key):
        if key not in self.idx:
            raise Inconclusive("function %s not found in the MIR dump" % key)
        f = ex.find_fn(self.idx[key])
        if f is None:
            raise Inconclusive("no MIR body for " + key)
        return f

    def struct_fields(self, ex, fnkey, struct):
        f = self.fn(ex, fnkey)
        for bb in f.order:
            for s in f.blocks[bb].stmts:
                if s.kind == "assign" and s.rv.kind == "adt" and s.rv.a[2] and s.rv.a[0].split("::")[-1].split(" ")[0] == struct:
                    return list(s.rv.a[2])
        raise Inconclusive("cannot find the %s aggregate in %s" % (struct, fnkey))


def sym_bytes(ex, name, n):
    arr = z3.Array(name, z3.IntSort(), z3.IntSort())
    for i in range(n):
        ex.assumes += [z3.Select(arr, i) >= 0, z3.Select(arr, i) <= 255]
    return arr


def lit_bytes(bs):
    arr = z3.K(z3.IntSort(), I(0))
    for i, b in enumerate(bs):
        arr = z3.Store(arr, i, b)
    return arr


def run_pipeline(ctx, bl, sl, bs, B=None, S=None, engine="sync", concrete=False):
    """Executes generate + delta from MIR.  Returns dict with the executor, the symbolic arrays and the result."""
    nb = (bl + bs - 1) // bs if bs > 0 else 0
    ex = ctx.ex(K=max(sl, nb) + 3)
    deltamodels.install(ex, window_cap=max(bs, 1), byte_cap=max(bl, sl, 1), cand_cap=max(nb, 1))
    if concrete:
        uf = ex.D

        def D(*args):
            a = [simp(x) for x in args]
            if all(z3.is_int_value(x) for x in a):
                n = a[0].as_long()
                return I(ref_digest([x.as_long() for x in a[1:1 + n]]))
            return uf(*args)
        ex.D = D
    if B is None:
        B = sym_bytes(ex, "B", bl)
    if S is None:
        S = sym_bytes(ex, "S", sl)
    st = State()
    st.frames[0] = {"rb": VStruct("SliceReader", [VSeq(B, I(0), I(bl), "u8")])}
    gen = ctx.fn(ex, "Signature::generate")
    sres = ex.exec_fn(gen, [VRef("place", 0, "rb"), VInt(I(bs), "usize")], st)
    if sres is None:
        raise Inconclusive("Signature::generate never returns")
    if 0 not in sres.pay:
        raise Inconclusive("Signature::generate returns only errors")
    sig = sres.pay[0][0]
    sig_ok = simp(sres.discr == 0)
    st.frames[0]["sig"] = sig
    reader = VStruct("SliceReader", [VSeq(S, I(0), I(sl), "u8")])
    dres = ares = None
    ready = z3.BoolVal(True)
    if engine in ("sync", "both"):
        dfn = ctx.fn(ex, "<CopiaSync as Sync>::delta")
        dres = ex.exec_fn(dfn, [VRef("val", val=VOpaque("CopiaSync")), reader, VRef("place", 0, "sig")], st)
        if dres is None:
            raise Inconclusive("delta never returns")
    if engine in ("async", "both"):
        key = ctx.idx.get("AsyncCopiaSync::delta")
        cfn = ex.find_fn(key + "::{closure#0}") if key else None
        if cfn is None:
            raise Inconclusive("no MIR body for the async delta state machine")
        co = VEnum("Coroutine", I(0), {-1: [VRef("val", val=VOpaque("AsyncCopiaSync")), reader, VRef("place", 0, "sig")]})
        st.frames[0]["co"] = co
        poll = ex.exec_fn(cfn, [VStruct("Pin", [VRef("place", 0, "co")]), VOpaque("Context")], st)
        if poll is None or 0 not in poll.pay:
            raise Inconclusive("async delta never becomes Ready")
        ready = simp(poll.discr == 0)
        ares = poll.pay[0][0]
    ex.exit_guards.append(st.guard)
    return dict(ex=ex, B=B, S=S, sig=sig, sig_ok=sig_ok, res=dres if dres is not None else ares, ares=ares, ready=ready,
                st=st, bl=bl, sl=sl, bs=bs, nb=nb, engine=engine)


def delta_view(ctx, P):
    """decompose the result into header terms and per-op terms"""
    ex, res = P["ex"], P["res"]
    names = ctx.struct_fields(ex, "Delta::with_checksum", "Delta")
    ok = simp(res.discr == 0)
    if 0 not in res.pay:
        return dict(ok=z3.BoolVal(False), ops=[])
    d = res.pay[0][0]
    f = {n: d.f[i] for i, n in enumerate(names)}
    opsv = f["ops"]
    ops = []
    copy_i = ctx.enums["DeltaOp"]["Copy"]
    lit_i = ctx.enums["DeltaOp"]["Literal"]
    for i, it in enumerate(opsv.items):
        live = i < opsv.len
        is_copy = simp(it.discr == copy_i) if copy_i in it.pay else z3.BoolVal(False)
        off = it.pay[copy_i][0].t if copy_i in it.pay else I(0)
        ln = it.pay[copy_i][1].t if copy_i in it.pay else I(0)
        lit = it.pay[lit_i][0] if lit_i in it.pay else VSeq(z3.K(z3.IntSort(), I(0)), I(0), I(0), "u8")
        ops.append(dict(live=live, is_copy=is_copy, off=off, len=ln, lit=lit,
                        oplen=simp(z3.If(is_copy, ln, lit.len))))
    return dict(ok=ok, hdr=f, n=opsv.len, ops=ops)


def greedy_term(P):
    B, S, bl, sl, bs = P["B"], P["S"], P["bl"], P["sl"], P["bs"]
    full = [i for i in range(0, bl - bs + 1, bs)] if bs <= bl else []
    pos, lits = I(0), I(0)
    for _ in range(sl + 1):
        can = pos + bs <= sl
        match = z3.Or(*[z3.And(*[z3.Select(S, pos + k) == z3.Select(B, o + k) for k in range(bs)]) for o in full]) if full else z3.BoolVal(False)
        lits = z3.If(z3.And(can, z3.Not(match)), lits + 1, lits)
        pos = z3.If(can, z3.If(match, pos + bs, pos + 1), pos)
    return simp(lits + (sl - pos))


def goals_c01(ctx, P):
    V = delta_view(ctx, P)
    B, S, bl, sl, bs = P["B"], P["S"], P["bl"], P["sl"], P["bs"]
    g = {}
    g["signature-ok"] = P["sig_ok"]
    g["delta-ok"] = V["ok"]
    if not V.get("hdr"):
        return g, V
    h = V["hdr"]
    src_hash = deltamodels.hash_of(VSeq(S, I(0), I(sl), "u8"))
    g["header"] = z3.And(h["source_size"].t == sl, h["basis_size"].t == bl, h["block_size"].t == bs,
                         deltamodels.hash_eq_term(P["ex"], h["checksum"], src_hash))
    ops = V["ops"]
    starts = []
    acc = I(0)
    for o in ops:
        starts.append(acc)
        acc = simp(acc + z3.If(o["live"], o["oplen"], 0))
    g["lengths-sum-to-source-size"] = acc == sl
    g["copies-inside-basis-and-block-aligned"] = z3.And(*[z3.Implies(z3.And(o["live"], o["is_copy"]),
                                                                     z3.And(o["len"] > 0, o["off"] >= 0, o["off"] + o["len"] <= bl,
                                                                            o["off"] % bs == 0, o["len"] % bs == 0)) for o in ops]) if ops else z3.BoolVal(True)
    canon = []
    for i, o in enumerate(ops):
        canon.append(z3.Implies(z3.And(o["live"], z3.Not(o["is_copy"])), o["lit"].len > 0))
        if i + 1 < len(ops):
            p = ops[i + 1]
            canon.append(z3.Implies(p["live"], z3.Not(z3.And(z3.Not(o["is_copy"]), z3.Not(p["is_copy"])))))
            canon.append(z3.Implies(p["live"], z3.Not(z3.And(o["is_copy"], p["is_copy"], o["off"] + o["len"] == p["off"]))))
    g["ops-are-merged"] = z3.And(*canon) if canon else z3.BoolVal(True)
    rec = []
    for o, s0 in zip(ops, starts):
        for k in range(sl):
            want = z3.Select(S, s0 + k)
            got = z3.If(o["is_copy"], z3.Select(B, o["off"] + k), o["lit"].at(I(k)))
            rec.append(z3.Implies(z3.And(o["live"], k < o["oplen"]), want == got))
    g["applying-ops-to-basis-yields-source"] = z3.And(*rec) if rec else z3.BoolVal(True)
    return g, V


def goals_engines_agree(ctx, P):
    """sync and async engines produce the same header and the same op list"""
    V1 = delta_view(ctx, P)
    P2 = dict(P)
    P2["res"] = P["ares"]
    V2 = delta_view(ctx, P2)
    g = {"async-ready": P["ready"], "async-ok": V2["ok"]}
    if not (V1.get("hdr") and V2.get("hdr")):
        return g
    conj = [V1["n"] == V2["n"]]
    for k in ("source_size", "basis_size", "block_size"):
        conj.append(V1["hdr"][k].t == V2["hdr"][k].t)
    conj.append(deltamodels.hash_eq_term(P["ex"], V1["hdr"]["checksum"], V2["hdr"]["checksum"]))
    n = max(len(V1["ops"]), len(V2["ops"]))
    if len(V1["ops"]) != len(V2["ops"]):
        conj.append(z3.And(V1["n"] <= min(len(V1["ops"]), len(V2["ops"]))))
    for a, b in zip(V1["ops"], V2["ops"]):
        same = z3.And(a["is_copy"] == b["is_copy"],
                      z3.If(a["is_copy"], z3.And(a["off"] == b["off"], a["len"] == b["len"]),
                            z3.And(a["lit"].len == b["lit"].len,
                                   *[z3.Implies(k < a["lit"].len, a["lit"].at(I(k)) == b["lit"].at(I(k))) for k in range(P["sl"])])))
        conj.append(z3.Implies(a["live"], same))
    g["engines-produce-identical-deltas"] = z3.And(*conj)
    return g


def goals_c16(ctx, P, V=None):
    V = V or delta_view(ctx, P)
    g = {}
    if not V.get("hdr"):
        return g
    lits = simp(sum([z3.If(z3.And(o["live"], z3.Not(o["is_copy"])), o["lit"].len, 0) for o in V["ops"]])) if V["ops"] else I(0)
    g["literals<=textbook-greedy"] = lits <= greedy_term(P)
    if P["bl"] == P["sl"]:
        same = z3.And(*[z3.Select(P["B"], i) == z3.Select(P["S"], i) for i in range(P["sl"])]) if P["sl"] else z3.BoolVal(True)
        g["identical-file<one-block-of-literals"] = z3.Implies(same, lits < P["bs"])
    return g


def real_digest_axioms(ex):
    """the real weak hash on the windows of this instance: for windows of < 23 bytes no sum reaches 65521, so
    digest = (sum (len-k) w_k) * 65536 + sum w_k exactly (used only to make counterexamples realisable)"""
    ax = []
    for args, t in ex.D_apps:
        ln, ws = args[0], args[1:]
        if len(ws) > 22:
            raise Inconclusive("window too long for the exact small-window digest")
        a = sum([z3.If(k < ln, w, 0) for k, w in enumerate(ws)])
        b = sum([z3.If(k < ln, (ln - k) * w, 0) for k, w in enumerate(ws)])
        ax.append(t == b * 65536 + a)
    return ax


def model_case(model, P, engine="sync"):
    basis = [model_int(model, z3.Select(P["B"], i)) for i in range(P["bl"])]
    source = [model_int(model, z3.Select(P["S"], i)) for i in range(P["sl"])]
    return {"fn": "delta", "engine": engine, "basis": basis, "source": source, "bs": P["bs"]}


def native_verdict(case):
    """run natively and judge by the python oracle: returns (bad: dict profile->reason, results)"""
    res = native.run_both(case)
    basis, source, bs = case["basis"], case["source"], case["bs"]
    g = ref_greedy(basis, source, bs)
    bad = {}
    for p, r in res.items():
        if "panic" in r or "crash" in r:
            bad[p] = "panic: %s" % str(r)[:120]
            continue
        if "delta_err" in r:
            bad[p] = "delta error: %s" % r["delta_err"]
            continue
        out, ok = [], True
        for op in r["ops"]:
            if "copy" in op:
                o, l = op["copy"]
                if o + l > len(basis) or l == 0:
                    ok = False
                out += basis[o:o + l]
            else:
                out += op["lit"]
        if not ok or out != source:
            bad[p] = "ops do not reconstruct the source: %s" % json.dumps(r["ops"])[:160]
        elif r["patch"] != "ok" or not r["roundtrip"]:
            bad[p] = "patch of the delta does not yield the source: %s" % str(r["patch"])[:100]
        elif r["source_size"] != len(source) or not r["checksum_ok"] or r["basis_size"] != len(basis) or r["block_size"] != bs:
            bad[p] = "wrong header %s" % {k: r[k] for k in ("source_size", "basis_size", "block_size", "checksum_ok")}
        elif r["bytes_literal"] + r["bytes_matched"] != len(source):
            bad[p] = "lengths do not sum to the source size"
        elif r["bytes_literal"] > g:
            bad[p] = "literal bytes %d > textbook greedy %d" % (r["bytes_literal"], g)
        elif basis == source and r["bytes_literal"] >= bs:
            bad[p] = "identical file with %d literal bytes (block %d)" % (r["bytes_literal"], bs)
    return bad, res


def pipeline_obligations(ctx, R, prover, pid, bl, sl, bs, which):
    engine = {"C01": "sync", "C16": "sync", "C01-async": "async", "C16-async": "async", "C01-agree": "both"}[which]
    P = run_pipeline(ctx, bl, sl, bs, engine=engine)
    ex = P["ex"]
    if which == "C01-agree":
        goals = goals_engines_agree(ctx, P)
    else:
        g1, V = goals_c01(ctx, P)
        goals = g1 if which.startswith("C01") else goals_c16(ctx, P, V)
        if engine == "async":
            goals["async-ready"] = P["ready"]
    tag = "%s/%spipeline[bl=%d,sl=%d,bs=%d]" % (pid, {"sync": "", "async": "async-", "both": "engines-"}[engine], bl, sl, bs)

    def witness(name, model, neg):
        case = model_case(model, P, "async" if engine == "async" else "sync")
        bad, res = native_verdict(case)
        if not bad and engine == "both":
            c2 = dict(case)
            c2["engine"] = "async"
            r1 = native.run_cases([case], "dev")[0]
            r2 = native.run_cases([c2], "dev")[0]
            if r1.get("ops") != r2.get("ops") or r1.get("source_size") != r2.get("source_size"):
                bad = {"dev": "sync and async engines disagree: %s vs %s" % (json.dumps(r1.get("ops"))[:120], json.dumps(r2.get("ops"))[:120])}
                res = {"sync": r1, "async": r2}
        if bad:
            case["observed"] = res
            kind = "roundtrip" if any("reconstruct" in b or "patch" in b or "panic" in b for b in bad.values()) else \
                ("greedy" if any("literal" in b or "identical" in b for b in bad.values()) else "header")
            return {"confirmed": True, "replay_path": R.save_replay(tag, case), "key": "%s/%s-delta/%s" % (pid, engine, kind),
                    "detail": "delta(basis=%s, source=%s, bs=%d): native %s" % (case["basis"], case["source"], bs, bad)}
        # the model may rely on a weak-hash value the real checksum does not have: re-ask with the real digest
        try:
            st2, m2, _ = decide(ex.assumes + real_digest_axioms(ex), neg, prover.cap)
        except Inconclusive:
            st2 = "unknown"
        if st2 == "sat":
            case2 = model_case(m2, P, "async" if engine == "async" else "sync")
            bad2, res2 = native_verdict(case2)
            if bad2:
                case2["observed"] = res2
                kind = "roundtrip" if any("reconstruct" in b or "patch" in b or "panic" in b for b in bad2.values()) else \
                    ("greedy" if any("literal" in b or "identical" in b for b in bad2.values()) else "header")
                return {"confirmed": True, "replay_path": R.save_replay(tag, case2), "key": "%s/%s-delta/%s" % (pid, engine, kind),
                        "detail": "delta(basis=%s, source=%s, bs=%d): native %s" % (case2["basis"], case2["source"], bs, bad2)}
            case = case2
        if st2 == "unsat":
            return {"refined_holds": True,
                    "detail": "holds for the real weak hash at this size (exact small-window digest), not for an arbitrary weak-hash function: "
                              "the abstract counterexample needs a weak collision that windows of %d bytes cannot have" % bs}
        return {"confirmed": False,
                "detail": "native delta satisfies the property on basis=%s source=%s bs=%d (real-digest re-query: %s; the model relies on a "
                          "weak-hash collision that does not exist at this size, or on a std model)" % (case["basis"], case["source"], bs, st2)}

    fns = ["Signature::generate", "BlockSignature::compute", "SignatureTable::from_signature", "SignatureTable::has_weak_match",
           "SignatureTable::find_match", "SignatureTable::is_empty", "<CopiaSync as Sync>::delta", "Delta::with_checksum",
           "Delta::push_copy", "Delta::push_literal", "Delta::push_literal_byte", "Delta::bytes_matched", "Delta::bytes_literal",
           "DeltaOp::copy", "DeltaOp::literal", "DeltaOp::literal_from_slice"]
    return prover.prove(ex, goals, tag,
                        "basis of exactly %d and source of exactly %d symbolic bytes, block size %d; scan loop unrolled %d times with unwinding assertion; "
                        "weak hash = uninterpreted function of the window (C17 contract), strong hash = ideal (collision-free)" % (bl, sl, bs, ex.K),
                        fns, witness, extra_info={"executed": sorted(ex.executed_fns)})


# ------------------------------------------------------------------ translator validation

def validate(ctx, R, seed, count, engine="sync"):
    rnd = random.Random(seed)
    cases = []
    # shapes from the repo's own tests (scaled to small block sizes): identical, appended, prepended, modified,
    # empty basis/source, repeated blocks, shifted copies
    fixed = [(b"abcdabcd", b"abcdabcd", 4), (b"abcdefgh", b"abcdefghXY", 4), (b"abcdefgh", b"XYabcdefgh", 4),
             (b"abcdefgh", b"abcdXfgh", 2), (b"", b"abc", 2), (b"abc", b"", 2), (b"aaaaaaaa", b"aaaaaaaaaa", 2),
             (b"abcdef", b"cdefab", 2), (b"abcde", b"abcde", 2), (b"ab", b"abab", 3), (b"abcabc", b"bcabca", 3)]
    for b, s, bs in fixed:
        cases.append((list(b), list(s), bs))
    for _ in range(count):
        bs = rnd.choice([1, 2, 3, 4])
        bl, sl = rnd.randrange(0, 9), rnd.randrange(0, 9)
        alpha = rnd.choice([[0, 1], [7, 8, 9], [255, 254]])
        basis = [rnd.choice(alpha) for _ in range(bl)]
        if rnd.random() < 0.5 and bl:
            k = rnd.randrange(0, bl)
            source = (basis[k:] + basis[:k])[:sl] + [rnd.choice(alpha) for _ in range(max(0, sl - bl))]
        else:
            source = [rnd.choice(alpha) for _ in range(sl)]
        cases.append((basis, source, bs))
    njson, mine = [], []
    for basis, source, bs in cases:
        P = run_pipeline(ctx, len(basis), len(source), bs, B=lit_bytes(basis), S=lit_bytes(source), concrete=True, engine=engine)
        ex = P["ex"]
        V = delta_view(ctx, P)
        s = z3.Solver()
        s.add(ex.assumes)
        s.add(ex.exit_guards)
        if s.check() != z3.sat:
            s = z3.Solver()
            s.add(ex.assumes)
            if s.check() != z3.sat:
                raise Inconclusive("translator validation (delta): concrete run has no feasible path")
        m = s.model()
        if any(z3.is_true(m.eval(o.formula, model_completion=True)) for o in ex.obligs):
            mine.append("panic")
        elif not model_bool(m, V["ok"]):
            mine.append("err")
        else:
            n = model_int(m, V["n"])
            ops = []
            for o in V["ops"][:n]:
                if model_bool(m, o["is_copy"]):
                    ops.append({"copy": [model_int(m, o["off"]), model_int(m, o["len"])]})
                else:
                    ln = model_int(m, o["lit"].len)
                    ops.append({"lit": [model_int(m, o["lit"].at(I(k))) for k in range(ln)]})
            mine.append(ops)
        njson.append({"fn": "delta", "engine": engine, "basis": basis, "source": source, "bs": bs})
    nat = native.run_cases(njson, "dev")
    dis = 0
    for c, mn, r in zip(njson, mine, nat):
        got = "panic" if ("panic" in r or "crash" in r) else ("err" if "delta_err" in r else r["ops"])
        if got != mn:
            dis += 1
            R.validation["samples"].append({"case": c, "encoding": mn, "native": got})
    R.validation["cases"] += len(njson)
    R.validation["disagreements"] += dis
    if njson and len(R.validation["samples"]) < 3:
        R.validation["samples"].append({"case": njson[3], "encoding": mine[3], "native": nat[3].get("ops"), "agree": True})
    if dis:
        raise Inconclusive("translator validation (delta pipeline): %d/%d concrete cases disagree with the native build: %s"
                           % (dis, len(njson), json.dumps(R.validation["samples"][-1])[:400]))


# ------------------------------------------------------------------ large inputs: the parallel (> 64 KiB) signature path

def big_signature_obligation(ctx, R, prover, n, bs):
    """Signature::generate on an input of n > 65536 symbolic bytes (one array term, concrete chunk boundaries):
    block i = (i, weak(view_i), strong(view_i)) with view_i = data[i*bs .. min((i+1)*bs, n)] — the same as the
    sequential definition, for every content."""
    nb = (n + bs - 1) // bs
    ex = ctx.ex(K=4)
    deltamodels.install(ex, window_cap=4, byte_cap=8, cand_cap=1)
    ex.big_views = True
    data = z3.Array("DATA", z3.IntSort(), z3.IntSort())
    st = State()
    st.frames[0] = {"rb": VStruct("SliceReader", [VSeq(data, I(0), I(n), "u8")])}
    sres = ex.exec_fn(ctx.fn(ex, "Signature::generate"), [VRef("place", 0, "rb"), VInt(I(bs), "usize")], st)
    if sres is None or 0 not in sres.pay:
        raise Inconclusive("Signature::generate does not return Ok on a %d-byte input" % n)
    ex.exit_guards.append(st.guard)
    sig = sres.pay[0][0]
    names = ctx.struct_fields(ex, "Signature::generate", "Signature")
    f = {k: sig.f[i] for i, k in enumerate(names)}
    blocks = f["blocks"]
    bnames = ctx.struct_fields(ex, "BlockSignature::compute", "BlockSignature")
    conj = [sres.discr == 0, f["block_size"].t == bs, f["file_size"].t == n, blocks.len == nb]
    if len(blocks.items) < nb:
        conj.append(z3.BoolVal(False))
    for i in range(min(nb, len(blocks.items))):
        b = {k: blocks.items[i].f[j] for j, k in enumerate(bnames)}
        view = VSeq(data, I(i * bs), I(min(bs, n - i * bs)), "u8")
        conj.append(b["index"].t == i)
        conj.append(b["weak_hash"].t == deltamodels.weak_D(ex, view))
        sv = b["strong_hash"].f[0]
        conj.append(z3.And(sv.len == view.len, simp(sv.off) == simp(view.off), sv.arr.eq(view.arr) if hasattr(sv.arr, "eq") else z3.BoolVal(False)))
    tag = "C01/parallel-signature[n=%d,bs=%d]" % (n, bs)

    def witness(name, model, neg):
        case = {"fn": "signature_check", "n": n, "bs": bs, "seed": 12345}
        res = native.run_both(case)
        bad = {p: r for p, r in res.items() if not r.get("equal")}
        if bad:
            case["observed"] = res
            return {"confirmed": True, "replay_path": R.save_replay(tag, case), "key": "C01/parallel-signature",
                    "detail": "Signature::generate(%d bytes, bs=%d) differs from the sequential definition: %s" % (n, bs, json.dumps(bad)[:300])}
        return {"confirmed": False, "detail": "native Signature::generate agrees with the sequential definition on pseudo-random data of this size"}

    prover.prove(ex, {"blocks-equal-sequential-definition": z3.And(*conj)}, tag,
                 "input of exactly %d symbolic bytes (parallel branch: > 64 KiB), block size %d, %d blocks; rayon adaptors modelled as their sequential "
                 "counterparts (order-preserving); digests of views as uninterpreted functions" % (n, bs, nb),
                 ["Signature::generate (parallel branch)", "BlockSignature::compute"], witness)


# ------------------------------------------------------------------ AsyncCopiaSync::signature == Signature::generate (engine independence)

def async_signature_obligation(ctx, R, prover, n, bs):
    from mirsmt import patchmodels
    nb = (n + bs - 1) // bs if bs else 0
    ex = ctx.ex(K=2 * n + nb + 6)
    deltamodels.install(ex, window_cap=max(bs, 1), byte_cap=max(n, bs, 1), cand_cap=1)
    patchmodels.install(ex)
    B = sym_bytes(ex, "B", n)
    st = State()
    st.frames[0] = {"rb": VStruct("SliceReader", [VSeq(B, I(0), I(n), "u8")])}
    sres = ex.exec_fn(ctx.fn(ex, "Signature::generate"), [VRef("place", 0, "rb"), VInt(I(bs), "usize")], st)
    if sres is None or 0 not in sres.pay:
        raise Inconclusive("Signature::generate returns no Ok")
    ref_sig = sres.pay[0][0]
    key = ctx.idx.get("AsyncCopiaSync::signature")
    cfn = ex.find_fn(key + "::{closure#0}") if key else None
    if cfn is None:
        raise Inconclusive("no MIR body for the async signature state machine")
    cfg = VStruct("SyncConfig", [VInt(I(bs), "usize"), VInt(I(8), "usize"), VInt(I(65536), "usize"), VBool(z3.BoolVal(True))])
    st.frames[0]["eng"] = VStruct("Engine", [cfg])
    reader = VStruct("SliceReader", [VSeq(B, I(0), I(n), "u8")])
    st.frames[0]["co"] = VEnum("Coroutine", I(0), {-1: [VRef("place", 0, "eng"), reader]})
    poll = ex.exec_fn(cfn, [VStruct("Pin", [VRef("place", 0, "co")]), VOpaque("Context")], st)
    if poll is None or 0 not in poll.pay:
        raise Inconclusive("async signature never becomes Ready")
    ex.exit_guards.append(st.guard)
    ares = poll.pay[0][0]
    if 0 not in ares.pay:
        raise Inconclusive("async signature returns only errors")
    asig = ares.pay[0][0]
    names = ctx.struct_fields(ex, "Signature::generate", "Signature")
    fa = {k: asig.f[i] for i, k in enumerate(names)}
    fr = {k: ref_sig.f[i] for i, k in enumerate(names)}
    bnames = ctx.struct_fields(ex, "BlockSignature::compute", "BlockSignature")
    conj = [poll.discr == 0, ares.discr == 0, fa["block_size"].t == fr["block_size"].t, fa["file_size"].t == fr["file_size"].t,
            fa["blocks"].len == fr["blocks"].len]
    for i, rb in enumerate(fr["blocks"].items):
        if i >= len(fa["blocks"].items):
            conj.append(z3.BoolVal(False))
            break
        ab = fa["blocks"].items[i]
        a = {k: ab.f[j] for j, k in enumerate(bnames)}
        r = {k: rb.f[j] for j, k in enumerate(bnames)}
        conj.append(z3.And(a["index"].t == r["index"].t, a["weak_hash"].t == r["weak_hash"].t,
                           deltamodels.hash_eq_term(ex, a["strong_hash"], r["strong_hash"])))
    tag = "C01/async-signature[n=%d,bs=%d]" % (n, bs)

    def witness(name, model, neg):
        # the engine only accepts power-of-two block sizes >= 512: replay the model's delivery pattern scaled to 512
        reads = sorted(((d.name(), model[d].as_long()) for d in model.decls() if d.name().startswith("short_read")),
                       key=lambda kv: int(kv[0].split("!")[-1]) if "!" in kv[0] else 0)
        scale = 512.0 / max(bs, 1)
        fam = [[max(1, int(round(r * scale))) for _, r in reads if r > 0] or [1]]
        fam += [[1], [511], [513], [700, 100000], [256]]
        x = 12345
        data = []
        for _ in range(max(1, int(n * scale)) + 700):
            x = (x * 6364136223846793005 + 1442695040888963407) % (1 << 64)
            data.append((x >> 33) & 255)
        for chunks in fam:
            case = {"fn": "async_signature_chunked", "data": data, "bs": 512, "chunks": chunks}
            res = native.run_both(case)
            bad = {p: r for p, r in res.items() if "panic" in r or "crash" in r or r.get("equal") is False}
            if bad:
                case["observed"] = res
                return {"confirmed": True, "replay_path": R.save_replay(tag, case), "key": "C01/async-signature/short-reads",
                        "detail": "AsyncCopiaSync::signature over a reader delivering %s-byte pieces differs from Signature::generate: %s" % (chunks, json.dumps(bad)[:300])}
        return {"confirmed": False, "detail": "native async signature agrees with Signature::generate for the delivery patterns tried"}

    prover.prove(ex, {"equals-Signature::generate": z3.And(*conj)}, tag,
                 "input of %d symbolic bytes, block size %d, delivered by the reader in arbitrary pieces (every read may be short); "
                 "loops unrolled %d times with unwinding assertion" % (n, bs, ex.K),
                 ["AsyncCopiaSync::signature (coroutine)", "Signature::generate", "BlockSignature::compute"], witness,
                 covers={"completes": z3.And(poll.discr == 0, ares.discr == 0)})
