"""Native side of the bisync obligations: real `run_bisync` / `apply` / `Archive::{load,save}` in temporary directories
(through /verif/replay-hub), judged against what C02 / C06 / C07 say about histories of edits and runs."""
import json

from . import hubnative
from .hubnative import hx, run_cases


# ----------------------------------------------------------------- judging a history (property texts)

def judge_history(steps, res):
    """-> description of the first breach of C02 / C06 / C07 in the observed runs, or None"""
    if "panic" in res or "crash" in res or "error" in res:
        return "panic/crash: %s" % str(res)[:200]
    runs = res.get("runs", [])
    prev = None                  # path -> b3 both sides held at the end of the previous completed run
    damaged = False
    ri = 0
    for st in steps:
        if "archive" in st:
            damaged = True
        if "swap" in st:
            pass
        if "run" not in st:
            continue
        if ri >= len(runs):
            return "run %d produced no result" % ri
        r = runs[ri]
        ri += 1
        if st["run"] == "dry":
            if {k: v["b3"] for k, v in r["A"].items()} != {k: v["b3"] for k, v in r["before"]["A"].items()} or \
               {k: v["b3"] for k, v in r["B"].items()} != {k: v["b3"] for k, v in r["before"]["B"].items()}:
                return "run %d: a dry run changed a directory" % ri
            continue
        completed = r["ok"] or "conflict" in (r.get("err") or "")
        if not completed:
            return "run %d failed: %s" % (ri, r.get("err"))
        A = {k: v["b3"] for k, v in r["A"].items()}
        B = {k: v["b3"] for k, v in r["B"].items()}
        bA = {k: v["b3"] for k, v in r["before"]["A"].items()}
        bB = {k: v["b3"] for k, v in r["before"]["B"].items()}
        # C06: both sides hold the same paths with the same bytes; the recorded common state is exactly that tree
        if A != B:
            return "run %d: the two directories differ after the run: A=%s B=%s" % (ri, sorted(A), sorted(B))
        if sorted(r.get("archive_entries", [])) != sorted(A):
            return "run %d: the recorded common state lists %s but both directories hold %s" % (ri, sorted(r.get("archive_entries", [])), sorted(A))
        dg = r.get("archive_digests")
        if dg is not None and dg != A:
            diff = sorted(k for k in A if dg.get(k) != A[k])
            return "run %d: the recorded common state holds another digest than the tree for %s" % (ri, diff)
        import re as _re
        for p_, h in A.items():
            m = _re.search(r"\.conflict-vhost-([0-9a-f]{12})$", p_)
            if m and m.group(1) != h[:12]:
                return "run %d: conflict copy %r is named after digest %s.. but holds a version with digest %s.." % (ri, p_, m.group(1), h[:12])
        # C02 / C07: which versions may have disappeared
        base = {} if (prev is None or damaged) else prev
        for side, mine, other in (("A", bA, bB), ("B", bB, bA)):
            for p, h in mine.items():
                may_vanish = (p in base and base[p] == h and other.get(p) != h)
                if may_vanish:
                    continue
                if h not in A.values() or h not in B.values():
                    return "run %d: the version of %r that %s held before the run (blake3 %s..) no longer exists on both sides%s" % (
                        ri, p, side, h[:12], " although the archive was damaged/foreign (no delete allowed)" if damaged else "")
        prev = dict(A)
        damaged = False
    return None


def histories():
    c = lambda s: hx(s.encode())
    out = []

    def H(*steps):
        out.append({"fn": "bisync_history", "steps": list(steps)})
    S = lambda side, p, v: {"set": [side, p, (c(v) if v is not None else None)]}
    RUN = {"run": True}
    # first sync: one-sided files, identical files, divergent files
    H(S("A", "a", "1"), S("B", "b", "2"), S("A", "same", "s"), S("B", "same", "s"), S("A", "d", "x"), S("B", "d", "y"), RUN, RUN)
    # edit on one side, delete on one side, delete-vs-modify, both changed, both deleted, re-created
    H(S("A", "p", "1"), S("B", "p", "1"), S("A", "q", "1"), S("B", "q", "1"), S("A", "r", "1"), S("B", "r", "1"), RUN,
      S("A", "p", "2"), S("B", "q", None), S("A", "r", None), S("B", "r", "3"), RUN, RUN)
    H(S("A", "p", "1"), S("B", "p", "1"), RUN, S("A", "p", "2"), S("B", "p", "3"), RUN, RUN)
    H(S("A", "p", "x"), S("B", "p", "x"), RUN, S("A", "p", None), S("B", "p", None), RUN, S("A", "p", "x"), RUN)
    H(S("A", "p", "x"), S("B", "p", "x"), RUN, S("A", "p", None), S("B", "p", None), RUN, S("B", "p", "x"), RUN)
    H(S("A", "dir/p", "x"), S("B", "dir/p", "x"), S("A", "keep", "k"), RUN, S("A", "dir/p", None), RUN, S("B", "dir/p", "x"), RUN)
    # damaged / foreign / missing archive: never a delete
    for how in ("delete", "empty", "truncate", "garbage", "version", "version0", "foreign", "pair_prefix", "pair_blank"):
        H(S("A", "p", "1"), S("B", "p", "1"), S("A", "q", "1"), S("B", "q", "1"), RUN, S("A", "p", None), S("B", "q", "2"), {"archive": how}, RUN, RUN)
    # a .bak generation exists (two runs) when the main archive is lost: it must not be trusted
    H(S("A", "keep", "k"), S("B", "keep", "k"), S("A", "rep", "r"), RUN, S("B", "rep", None), RUN, S("A", "rep", "r"), {"archive": "delete"}, RUN)
    H(S("A", "f", "v1"), S("B", "f", "v1"), RUN, S("A", "f", "v2"), RUN, S("B", "f", "v1"), {"archive": "delete"}, RUN)
    # identical independent change on both sides (base must move to it), then one side reverts / the other deletes or diverges
    H(S("A", "f", "v1"), S("B", "f", "v1"), RUN, S("A", "f", "v2"), S("B", "f", "v2"), RUN, S("A", "f", "v1"), S("B", "f", None), RUN)
    H(S("A", "f", "v1"), S("B", "f", "v1"), RUN, S("A", "f", "v2"), S("B", "f", "v2"), RUN, S("A", "f", "v1"), S("B", "f", "v3"), RUN)
    # delete on A / modify on B (the survivor is B) and the mirror image; then the deleter re-creates the old bytes
    H(S("A", "f", "seed"), S("B", "f", "seed"), RUN, S("A", "f", None), S("B", "f", "edited"), RUN, RUN, S("A", "f", "seed"), RUN)
    H(S("A", "f", "seed"), S("B", "f", "seed"), RUN, S("B", "f", None), S("A", "f", "edited"), RUN, RUN, S("B", "f", "seed"), RUN)
    # two conflicts on one path with the same winner and different losers: both losers must survive
    H(S("A", "f", "seed"), S("B", "f", "seed"), RUN, S("A", "f", "L1"), S("B", "f", "zzW"), RUN, S("B", "f", "interim"), RUN, S("A", "f", "L2"), S("B", "f", "zzW"), RUN)
    H(S("A", "f", "seed"), S("B", "f", "seed"), RUN, S("B", "f", "L1"), S("A", "f", "zzW"), RUN, S("A", "f", "interim"), RUN, S("B", "f", "L2"), S("A", "f", "zzW"), RUN)
    # names that differ only in letter case are different paths: a conflict on one of them next to the other
    H(S("A", "Notes", "1"), S("B", "Notes", "1"), S("A", "notes", "1"), S("B", "notes", "1"), RUN, S("A", "notes", "2"), S("B", "notes", "3"), RUN, RUN)
    H(S("A", "d/x", "1"), S("B", "d/x", "1"), S("A", "d.x", "1"), S("B", "d.x", "1"), RUN, S("A", "d.x", "2"), S("B", "d.x", "3"), S("A", "d/x", "4"), RUN, RUN)
    # dry run, swapped roots
    H(S("A", "p", "1"), S("B", "q", "2"), {"run": "dry"}, RUN)
    H(S("A", "p", "1"), S("B", "p", "2"), {"swap": True}, RUN)
    return out


def conformance(R, oid, key, extra=()):
    cases = list(extra) + histories()
    for prof in ("dev", "release"):
        res = run_cases(cases, prof)
        for c, r in zip(cases, res):
            d = judge_history(c["steps"], r)
            if d:
                c = dict(c)
                c["observed"] = {prof: r}
                c["deviation"] = d
                return {"confirmed": True, "replay_path": R.save_replay(oid, c), "key": key,
                        "detail": "bisync history %s: native (%s) %s" % (json.dumps(c["steps"])[:300], prof, d)}
    return {"confirmed": False, "detail": "the real run_bisync keeps every version, converges and records the tree on %d histories" % len(cases)}


def history_from_model(model, U, pres, fps, loaded):
    """the solver's world (scans a, b; archive z) as a history that reaches it: establish z by a first run, then edit"""
    from mirsmt.env import model_int, model_bool

    def fpv(m, u):
        return (bytes(model_int(model, b.t) for b in fps[(m, u)][1]).hex(), model_bool(model, fps[(m, u)][2]))
    content = {}

    def data(fp):
        if fp not in content:
            content[fp] = hx(("v%d" % len(content)).encode())
        return content[fp]
    steps = []
    names = ["p%d" % u for u in range(U)]
    if model_bool(model, loaded):
        for u in range(U):
            if model_bool(model, pres[("z", u)]):
                steps += [{"set": ["A", names[u], data(fpv("z", u))]}, {"set": ["B", names[u], data(fpv("z", u))]}]
        steps.append({"run": True})
    for side, m in (("A", "a"), ("B", "b")):
        for u in range(U):
            steps.append({"set": [side, names[u], data(fpv(m, u)) if model_bool(model, pres[(m, u)]) else None]})
    steps.append({"run": True})
    return {"fn": "bisync_history", "steps": steps}


def sync_order_check(R, oid, key):
    """real system-call order of one delivery (apply PropagateAtoB): is the staged copy fsync'ed before the rename?"""
    import re
    case = {"fn": "bisync_apply", "a": {"f.txt": hx(b"new")}, "b": {"f.txt": hx(b"old")}, "rel": "f.txt", "action": "PropagateAtoB"}
    for prof in ("dev", "release"):
        ev, res = hubnative.strace_case(case, prof)
        ops = []
        for name, args, rc in ev:
            if "/bworld/" not in args:
                continue
            if name in ("fsync", "fdatasync"):
                m = re.search(r"<([^>]*)>", args)
                ops.append(("sync", m.group(1) if m else "?"))
            elif name in ("rename", "renameat", "renameat2"):
                ps = re.findall(r'"([^"]*)"', args)
                if len(ps) >= 2:
                    ops.append(("rename", ps[0]))
        ren = [i for i, o in enumerate(ops) if o[0] == "rename" and o[1].endswith(".copia-tmp")]
        if not ren:
            continue
        i = ren[0]
        if not any(o[0] == "sync" and o[1].endswith(".copia-tmp") for o in ops[:i]):
            c = dict(case)
            c["observed"] = {prof: {"syscalls": ops[:i + 1], "result": {k: v for k, v in res.items() if k != "before"}}}
            c["deviation"] = "no fsync/fdatasync of the staged copy before it is renamed into place"
            c["strace"] = True
            return {"confirmed": True, "replay_path": R.save_replay(oid, c), "key": key,
                    "detail": "real system-call order of a bisync delivery (%s): the staged `.copia-tmp` copy is renamed into place without an fsync (%s)" % (prof, ops[:i + 1])}
    return {"confirmed": False, "detail": "strace: the staged copy is fsync'ed before the rename"}


def long_name_check(R, oid, key):
    """a file name so long that `<name>.copia-tmp` does not fit NAME_MAX: there is no room for a staging sibling, and then the
    delivery must FAIL - never fall back to writing the live path in place (strace: no create/truncate/write of the live path)"""
    import re
    name = "n" * 250
    for act, a, b, side in (("PropagateAtoB", {name: hx(b"new-content")}, {}, "B"), ("PropagateAtoB", {name: hx(b"new-content")}, {name: hx(b"old")}, "B"),
                            ("PropagateBtoA", {}, {name: hx(b"new-content")}, "A")):
        case = {"fn": "bisync_apply", "a": a, "b": b, "rel": name, "action": act}
        for prof in ("dev", "release"):
            ev, res = hubnative.strace_case(case, prof)
            live = "/bworld/%s/%s" % (side, name)
            # the oracle's own world set-up creates the live file once if the initial tree has it; any FURTHER create/truncate
            # of the live path is the delivery writing in place
            allowed = 1 if name in (b if side == "B" else a) else 0
            creates = [(nm, args, rc) for nm, args, rc in ev if nm in ("openat", "open", "creat") and ('%s"' % live) in args and re.search(r"O_CREAT|O_TRUNC", args)]
            if len(creates) > allowed:
                nm, args, rc = creates[allowed]
                c = dict(case)
                c["observed"] = {prof: {"syscall": "%s(%s) = %s" % (nm, args[-120:], rc)}}
                c["deviation"] = "the live path is created/truncated in place (no staging sibling fits a %d-byte name): a kill mid-copy leaves a torn file" % len(name)
                c["strace"] = True
                return {"confirmed": True, "replay_path": R.save_replay(oid, c), "key": key,
                        "detail": "bisync %s of a %d-byte file name (%s): the destination is written in place: %s(..%s)" % (act, len(name), prof, nm, args[-60:])}
    return {"confirmed": False, "detail": "strace: a name too long for a staging sibling is never written in place"}


def stale_staging_check(R, oid, key):
    """a `.copia-tmp` left behind by an interrupted run (empty, newer than the source) must never be published"""
    for act, a, b, want_side, want in (("PropagateAtoB", {"f.txt": hx(b"new-content")}, {"f.txt": hx(b"old"), "f.txt.copia-tmp": ""}, "B", hx(b"new-content")),
                                       ("PropagateBtoA", {"f.txt": hx(b"old"), "f.txt.copia-tmp": ""}, {"f.txt": hx(b"new-content")}, "A", hx(b"new-content"))):
        case = {"fn": "bisync_apply", "a": a, "b": b, "rel": "f.txt", "action": act}
        for prof in ("dev", "release"):
            r = run_cases([case], prof)[0]
            got = r.get(want_side, {}).get("f.txt")
            if "panic" in r or (r.get("ok") and got != want):
                c = dict(case)
                c["observed"] = {prof: {k: v for k, v in r.items() if k != "before"}}
                c["deviation"] = "a stale staging file was published: %s/f.txt holds %r, expected the propagated content" % (want_side, got)
                return {"confirmed": True, "replay_path": R.save_replay(oid, c), "key": key,
                        "detail": "bisync %s with a leftover f.txt.copia-tmp (%s): %s/f.txt = %r instead of the source's bytes" % (act, prof, want_side, got)}
    return {"confirmed": False, "detail": "a leftover staging file is overwritten by a fresh copy before the rename"}


def edited_conflict_copy_check(R, oid, key):
    """history: a conflict leaves `f.conflict-<host>-<H(L)>` on both sides; the user edits that copy on one side; the same
    loser L then loses again -> the copy is named the same and overwrites the edit before it was propagated"""
    for loser_side, winner_side in (("A", "B"), ("B", "A")):
        steps = [{"set": ["A", "f", hx(b"seed")]}, {"set": ["B", "f", hx(b"seed")]}, {"run": True},
                 {"set_ranked": [loser_side, "f", 2]}, {"set_ranked": [winner_side, "f", 6]}, {"run": True},
                 {"edit_conflict": [loser_side, "f", hx(b"my edits to the preserved copy")]},
                 {"set_ranked": [loser_side, "f", 2]}, {"set_ranked": [winner_side, "f", 9]}, {"run": True}, {"run": True}]
        case = {"fn": "bisync_history", "steps": steps}
        for prof in ("dev", "release"):
            r = run_cases([case], prof)[0]
            lost = False
            runs = r.get("runs", [])
            if len(runs) >= 3:
                edited = hx(b"my edits to the preserved copy")
                after = runs[2]
                lost = not any(v.get("data") == edited for v in after["A"].values()) or not any(v.get("data") == edited for v in after["B"].values())
            if lost:
                c = dict(case)
                c["observed"] = {prof: {"A": {k: v["data"] for k, v in runs[2]["A"].items()}, "B": {k: v["data"] for k, v in runs[2]["B"].items()}}}
                c["deviation"] = "the user's edit of the conflict copy (present on %s when the run started, not the base version) exists on neither/only one side afterwards" % loser_side
                return {"confirmed": True, "replay_path": R.save_replay(oid, c), "key": key,
                        "detail": "bisync history (edit a conflict copy, then the same version loses again; loser on %s, %s): the edited copy is overwritten by the re-created conflict copy and lost" % (loser_side, prof)}
    return {"confirmed": False, "detail": "an edited conflict copy survives a repeated conflict with the same loser"}


def conflict_name_reuse_check(R, oid, key):
    """C06's naming clause over a history in which a conflict-copy NAME comes up twice: a conflict leaves `f.conflict-<host>-<H(L)>`,
    the user edits that copy and syncs (the edit is an ordinary change and reaches both sides), then the same version L loses again.
    Whatever else happens, a file called `..conflict-<host>-<12 hex>` must hold content whose BLAKE3 starts with those 12 digits,
    on both sides (what becomes of the user's edit is C02's question and its known finding, not judged here)"""
    for loser_side, winner_side in (("A", "B"), ("B", "A")):
        steps = [{"set": ["A", "f", hx(b"seed")]}, {"set": ["B", "f", hx(b"seed")]}, {"run": True},
                 {"set_ranked": [loser_side, "f", 2]}, {"set_ranked": [winner_side, "f", 6]}, {"run": True},
                 {"edit_conflict": [loser_side, "f", hx(b"merge notes written into the preserved copy")]}, {"run": True},
                 {"set_ranked": [loser_side, "f", 2]}, {"set_ranked": [winner_side, "f", 9]}, {"run": True}]
        case = {"fn": "bisync_history", "steps": steps}
        for prof in ("dev", "release"):
            r = run_cases([case], prof)[0]
            runs = r.get("runs", [])
            if len(runs) < 4:
                continue
            last = runs[-1]
            for side in ("A", "B"):
                for name, v in last[side].items():
                    if ".conflict-" in name and not v.get("b3", "").startswith(name.rsplit("-", 1)[1]):
                        c = dict(case)
                        c["observed"] = {prof: {side: {k: {"b3": x.get("b3", "")[:16], "data": x.get("data")} for k, x in last[side].items()}}}
                        c["deviation"] = "%s/%s holds content with BLAKE3 %s.. - a conflict copy is named after the first 12 hex digits of ITS OWN hash" % (side, name, v.get("b3", "")[:12])
                        return {"confirmed": True, "replay_path": R.save_replay(oid, c), "key": key,
                                "detail": "bisync history (a conflict-copy name comes up a second time; loser on %s, %s): %s" % (loser_side, prof, c["deviation"])}
    return {"confirmed": False, "detail": "a conflict-copy name that comes up a second time still names a file holding that very content"}


def rename_source_check(R, oid, key):
    """real system calls of one both-changed conflict step and one propagation: every rename must move a `.copia-tmp`
    staging file; a live path is never renamed away or unlinked"""
    import re
    cases = [{"fn": "bisync_apply", "a": {"f.txt": hx(b"aaaa")}, "b": {"f.txt": hx(b"bbbb")}, "rel": "f.txt", "action": "Conflict(BothChanged)"},
             {"fn": "bisync_apply", "a": {"f.txt": hx(b"zzzz")}, "b": {"f.txt": hx(b"bbbb")}, "rel": "f.txt", "action": "Conflict(BothChanged)"},
             {"fn": "bisync_apply", "a": {"f.txt": hx(b"new")}, "b": {"f.txt": hx(b"old")}, "rel": "f.txt", "action": "PropagateAtoB"},
             {"fn": "bisync_apply", "a": {"f.txt": hx(b"new")}, "b": {}, "rel": "f.txt", "action": "Conflict(DeleteVsModify)"}]
    for prof in ("dev", "release"):
        for case in cases:
            ev, res = hubnative.strace_case(case, prof)
            for name, args, rc in ev:
                if name == "write" and args.startswith("1<") and '"{\\"' in args:
                    break                     # the result line has been printed: what follows is the oracle's own clean-up
                if "/bworld/" not in args:
                    continue
                breach = None
                if name in ("rename", "renameat", "renameat2"):
                    ps = re.findall(r'"([^"]*)"', args)
                    if len(ps) >= 2 and not ps[0].endswith(".copia-tmp"):
                        breach = "rename(%s -> %s): a live path is renamed away instead of being replaced by a staged copy" % (ps[0].split("/bworld/")[-1], ps[1].split("/bworld/")[-1])
                elif name in ("unlink", "unlinkat"):
                    ps = re.findall(r'"([^"]*)"', args)
                    if ps and "/bworld/" in ps[-1] and not ps[-1].endswith(".copia-tmp") and rc == "0":
                        breach = "unlink(%s) during a %s step" % (ps[-1].split("/bworld/")[-1], case["action"])
                if breach:
                    c = dict(case)
                    c["observed"] = {prof: {"syscall": [name, args[:200], rc]}}
                    c["deviation"] = breach
                    c["strace"] = True
                    return {"confirmed": True, "replay_path": R.save_replay(oid, c), "key": key,
                            "detail": "real system calls of a bisync %s step (%s): %s" % (case["action"], prof, breach)}
    return {"confirmed": False, "detail": "strace: every rename of an apply step moves a `.copia-tmp` staging file; no live path is unlinked"}


def record_order_check(R, oid, key):
    """real system calls of a run with deliveries AND mirrored deletes: once `<archive>.tmp` has been renamed over the
    archive, no file under A/ or B/ may be renamed, unlinked or written any more (the record never runs ahead of the data)"""
    import re
    c = lambda s_: hx(s_.encode())
    steps = [{"set": ["A", "keep", c("k")]}, {"set": ["B", "keep", c("k")]}, {"set": ["A", "g", c("g")]}, {"set": ["B", "g", c("g")]},
             {"set": ["A", "h", c("h")]}, {"set": ["B", "h", c("h")]}, {"set": ["A", "m", c("m")]}, {"set": ["B", "m", c("m")]}, {"run": True},
             {"set": ["A", "g", None]}, {"set": ["B", "h", None]}, {"set": ["A", "m", c("m2")]}, {"run": True}]
    case = {"fn": "bisync_history", "steps": steps}
    for prof in ("dev", "release"):
        ev, res = hubnative.strace_case(case, prof)
        saved = 0
        for name, args, rc in ev:
            if name == "write" and args.startswith("1<") and '"{\\"' in args:
                break                     # the oracle's JSON result line: what follows is its own clean-up
            if name in ("rename", "renameat", "renameat2"):
                ps = re.findall(r'"([^"]*)"', args)
                if len(ps) >= 2 and ps[0].endswith(".json.tmp") and ps[1].endswith(".json"):
                    saved += 1
                    continue
            if saved >= 2 and "/hworld/" in args and re.search(r"/hworld/[AB]/", args) and name in ("rename", "renameat", "renameat2", "unlink", "unlinkat") and rc == "0":
                cc = dict(case)
                cc["observed"] = {prof: {"syscall": [name, args[:200], rc]}}
                cc["deviation"] = "a data file is changed AFTER the new archive was renamed into place: %s(%s)" % (name, args[:120])
                cc["strace"] = True
                return {"confirmed": True, "replay_path": R.save_replay(oid, cc), "key": key,
                        "detail": "real system calls of a bisync run (%s): the archive of the second run is on disk before %s(%s) - the record runs ahead of the data" % (prof, name, args.split("/hworld/")[-1][:80])}
    return {"confirmed": False, "detail": "strace: nothing under A/ or B/ changes after the new archive is renamed into place"}


def type_clash_check(R, oid, key):
    """a name that is a regular file on one side and a directory on the other (A replaced the synced directory d/ by a file d while
    B created d/new and edited d/x): whatever the run does - it may well stop with an error - the one-sided creation and the edit
    must still exist on at least one side afterwards"""
    steps = [{"set": ["A", "d/x", hx(b"x-v1")]}, {"set": ["B", "d/x", hx(b"x-v1")]}, {"set": ["A", "keep", hx(b"k")]}, {"set": ["B", "keep", hx(b"k")]}, {"run": True},
             {"dir_to_file": ["A", "d", hx(b"d-is-a-file-now-on-A")]}, {"set": ["B", "d/new", hx(b"created-on-B-only")]}, {"set": ["B", "d/x", hx(b"x-v2-edited-on-B")]}, {"run": True}]
    case = {"fn": "bisync_history", "steps": steps}
    for prof in ("dev", "release"):
        r = run_cases([case], prof)[0]
        if "panic" in r or "crash" in r:
            c = dict(case)
            c["observed"] = {prof: str(r)[:300]}
            return {"confirmed": True, "replay_path": R.save_replay(oid, c), "key": key, "detail": "bisync over a file-vs-directory name clash (%s): panic/crash %s" % (prof, str(r)[:160])}
        runs = r.get("runs", [])
        if len(runs) < 2:
            continue
        last = runs[-1]
        have = {v.get("data") for side in ("A", "B") for v in last[side].values()}
        lost = [t for t in (b"created-on-B-only", b"x-v2-edited-on-B", b"d-is-a-file-now-on-A") if hx(t) not in have]
        if lost:
            c = dict(case)
            c["observed"] = {prof: {side: {k: v.get("data") for k, v in last[side].items()} for side in ("A", "B")}}
            c["deviation"] = "after the run these versions exist on NEITHER side: %s" % [t.decode() for t in lost]
            return {"confirmed": True, "replay_path": R.save_replay(oid, c), "key": key,
                    "detail": "bisync over a file-vs-directory name clash (%s, run %s): %s" % (prof, "ok" if last.get("ok") else "failed: %s" % last.get("err"), c["deviation"])}
    return {"confirmed": False, "detail": "a file-vs-directory name clash loses no version (the run may stop with an error)"}


def archive_write_order_check(R, oid, key):
    """real system calls of Archive::save inside a bisync run: every byte of the new record is written to `<archive>.tmp` and the
    file is fsync'ed BEFORE `<archive>.tmp` is renamed over the archive - nothing is written to the archive after that rename
    (a record that is renamed first and filled afterwards is, at a kill in between, a torn record under the live name)"""
    import re
    c = lambda s_: hx(s_.encode())
    steps = [{"set": ["A", "keep", c("k")]}, {"set": ["B", "keep", c("k")]}, {"set": ["A", "g", c("g")]}, {"set": ["B", "g", c("g")]}, {"run": True},
             {"set": ["A", "g", None]}, {"run": True}]
    case = {"fn": "bisync_history", "steps": steps}
    for prof in ("dev", "release"):
        ev, res = hubnative.strace_case(case, prof)
        renamed, synced_since_write, wrote = False, False, False
        for name, args, rc in ev:
            if name == "write" and args.startswith("1<") and '"{\\"' in args:
                break
            fdpath = re.match(r"\d+<([^>]*)>", args)
            fdpath = fdpath.group(1) if fdpath else ""
            breach = None
            if name == "write" and fdpath.endswith(".json.tmp"):
                wrote, synced_since_write = True, False
            elif name in ("fsync", "fdatasync") and fdpath.endswith(".json.tmp"):
                synced_since_write = True
            elif name in ("rename", "renameat", "renameat2"):
                ps = re.findall(r'"([^"]*)"', args)
                if len(ps) >= 2 and ps[0].endswith(".json.tmp") and ps[1].endswith(".json"):
                    if not wrote:
                        breach = "the new record is renamed into place before anything was written to it"
                    elif not synced_since_write:
                        breach = "the new record is renamed into place with bytes written after its last fsync (or never fsync'ed)"
                    renamed, wrote, synced_since_write = True, False, False
            elif name == "write" and renamed and re.search(r"copia[^>]*\.json$", fdpath):
                breach = "the archive is written to AFTER it was renamed into place: write(%s)" % args[:80]
            if breach:
                cc = dict(case)
                cc["observed"] = {prof: {"syscall": [name, args[:200], rc]}}
                cc["deviation"] = breach
                cc["strace"] = True
                return {"confirmed": True, "replay_path": R.save_replay(oid, cc), "key": key, "detail": "real system calls of Archive::save (%s): %s" % (prof, breach)}
    return {"confirmed": False, "detail": "strace: the new record is completely written and fsync'ed before it is renamed over the archive, and never written afterwards"}


def make_witness(R, pid, what):
    def w(name, model, neg):
        oid = "%s/%s" % (pid, what)
        key = "%s/%s/%s" % (pid, what, name[:60])
        if "flushed-to-stable-storage" in name:
            return sync_order_check(R, oid, key)
        if "recorded-only-if-the-losing-version-was-delivered" in name:
            r = conflict_name_reuse_check(R, oid, key)
            if r["confirmed"]:
                return r
        if "never-overwrites-a-DIFFERENT-file" in name:
            return edited_conflict_copy_check(R, oid, "%s/apply/conflict-copy-overwrites-an-edited-conflict-copy" % pid)
        if what == "apply":
            r = rename_source_check(R, oid, key)
            if r["confirmed"]:
                return r
            r = stale_staging_check(R, oid, key)
            if r["confirmed"]:
                return r
            r = long_name_check(R, oid, key)
            if r["confirmed"]:
                return r
            r = type_clash_check(R, oid, key)
            if r["confirmed"]:
                return r
        if what == "save":
            r = archive_write_order_check(R, oid, key)
            if r["confirmed"]:
                return r
        if what == "run" and "saved-only-after" in name:
            r = record_order_check(R, oid, key)
            if r["confirmed"]:
                return r
        extra = []
        hm = getattr(make_witness, "history_of_model", None)
        if what == "run" and hm is not None:
            try:
                extra = [hm(model)]
            except Exception:
                extra = []
        return conformance(R, oid, key, extra)
    return w
