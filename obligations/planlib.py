"""Obligations over src/bin/copia/plan.rs shared by C19, C15 and C14 (DESIGN §4)."""
import itertools
import json
import random
import z3

from mirsmt import env, stdmodels, native
from mirsmt.symexec import (Executor, State, VInt, VBool, VStruct, VEnum, VRef, VSeq, VList, VOpaque, UNIT, I, simp,
                            Unsupported, merge)
from mirsmt.env import decide, cross_check, model_int, model_bool, Inconclusive, now

ALPHABET = "ab*?./"
TEXT_ALPHABET = ALPHABET + "\u00e9"       # one non-ASCII character (2 bytes in UTF-8): `?` must match it as ONE character


class Ctx:
    def __init__(self):
        want = ("build_plan", "needs_transfer", "is_excluded", "glob_match", "reconcile_path", "reconcile", "cas_decide")

        def keep(n):
            return n in want or n.startswith(("needs_transfer::", "reconcile_path::", "reconcile::", "build_plan::", "is_excluded::", "glob_match::")) \
                or n.startswith(("plan::", "reconcile::"))
        self.mir, self.mir_path, self.dump_s = env.load("bin", keep)
        self.idx = env.impl_index(self.mir)
        self.enums = env.source_enums()

    def ex(self, K=8):
        e = Executor(self.mir, self.enums, K=K)
        e.impl_index = self.idx
        stdmodels.install_core(e)
        from mirsmt import itermodels
        itermodels.install(e)
        return e

    def fn(self, ex, name):
        if len(self.mir.fns.get(name, [])) > 1:
            raise Inconclusive("function name `%s` is not unique in the bin MIR dump" % name)
        f = ex.find_fn(name)
        if f is None:
            raise Inconclusive("no MIR body for `%s`" % name)
        return f


# ------------------------------------------------------------------ reference wildcard semantics (python)

def ref_glob(p, t):
    """`*` any run, `?` exactly one, everything else literal (text characters never special)"""
    lp, lt = len(p), len(t)
    D = [[False] * (lt + 1) for _ in range(lp + 1)]
    for i in range(lp, -1, -1):
        for j in range(lt, -1, -1):
            if i == lp:
                D[i][j] = (j == lt)
            elif p[i] == "*":
                D[i][j] = D[i + 1][j] or (j < lt and D[i][j + 1])
            else:
                D[i][j] = j < lt and (p[i] == "?" or p[i] == t[j]) and D[i + 1][j + 1]
    return D[0][0]


def sym_str(ex, name, maxlen, alphabet=ALPHABET):
    ln = ex.fresh_int(name + "_len", lo=0, hi=maxlen)
    cs = []
    arr = z3.K(z3.IntSort(), I(0))
    for i in range(maxlen):
        c = ex.fresh_int("%s%d" % (name, i), lo=0, hi=0x10FFFF)
        ex.assumes.append(z3.Or(*[c == ord(a) for a in alphabet]))
        cs.append(c)
        arr = z3.Store(arr, i, c)
    return VSeq(arr, I(0), ln, "char"), ln, cs


def lit_str(s):
    arr = z3.K(z3.IntSort(), I(0))
    for i, ch in enumerate(s):
        arr = z3.Store(arr, i, ord(ch))
    return VSeq(arr, I(0), I(len(s)), "char")


def glob_spec(pl, pc, tl, tc, P, T):
    """D[0][0] of the wildcard definition as a z3 term over symbolic lengths/chars"""
    STAR, Q = ord("*"), ord("?")
    D = [[None] * (T + 1) for _ in range(P + 1)]
    for i in range(P, -1, -1):
        for j in range(T, -1, -1):
            end_p = (pl <= i)
            if i == P:
                D[i][j] = (tl <= j)
                continue
            more_t = (tl > j) if j < T else z3.BoolVal(False)
            star = z3.Or(D[i + 1][j], z3.And(more_t, D[i][j + 1])) if j < T else D[i + 1][j]
            lit = z3.And(more_t, z3.Or(pc[i] == Q, pc[i] == tc[j]), D[i + 1][j + 1]) if j < T else z3.BoolVal(False)
            D[i][j] = z3.If(end_p, tl <= j, z3.If(pc[i] == STAR, star, lit))
    return D[0][0]


def model_str(model, ln, cs):
    n = model_int(model, ln)
    return "".join(chr(model_int(model, c)) for c in cs[:n])


from mirsmt.prove import Prover  # noqa: E402


# ------------------------------------------------------------------ glob_match

def glob_obligation(ctx, prover, pid, P, T, direction="iff"):
    """direction: 'iff' (C19: result == definition) or 'protect' (C15: definition-match => recognised)"""
    R = prover.R
    ex = ctx.ex(K=(T + 1) * (P + 2) + P + 3)
    stdmodels.install_strings(ex, max(P, T))
    pv, pl, pc = sym_str(ex, "p", P)
    tv, tl, tc = sym_str(ex, "t", T, TEXT_ALPHABET)
    st = State()
    fn = ctx.fn(ex, "glob_match")
    r = ex.exec_fn(fn, [VRef("val", val=pv), VRef("val", val=tv)], st)
    if r is None:
        raise Inconclusive("glob_match never returns")
    ex.exit_guards.append(st.guard)
    spec = glob_spec(pl, pc, tl, tc, P, T)
    if direction == "iff":
        goals = {"equals-definition": r.t == spec}
    else:
        goals = {"excluded-name-recognised": z3.Implies(spec, r.t)}

    def role(p, t, got, want):
        # key by the *kind* of disagreement, so another model of the same defect matches a listed finding
        lit_meta = any(ch in "*?" for ch in t)
        return "%s/glob_match/%s/%s" % (pid, "text-with-metachar" if lit_meta else "plain-text",
                                        "false-negative" if want and not got else "false-positive")

    def witness(name, model, neg=None):
        p, t = model_str(model, pl, pc), model_str(model, tl, tc)
        case = {"fn": "glob_match", "pat": p, "text": t}
        want = ref_glob(p, t)
        res = native.run_both(case)
        bad = {k: v for k, v in res.items() if v.get("result") != want}
        if bad:
            case["expected"] = want
            case["observed"] = res
            path = R.save_replay("%s/glob_match" % pid, case)
            got = list(bad.values())[0].get("result")
            return {"confirmed": True, "replay_path": path, "key": role(p, t, got, want),
                    "detail": "glob_match(%r, %r): native %s, wildcard definition %s" % (p, t, bad, want)}
        return {"confirmed": False, "detail": "glob_match(%r, %r): native agrees with the definition (%s) — encoding problem" % (p, t, want)}

    return prover.prove(ex, goals, "%s/glob_match" % pid,
                        "all patterns of length <= %d and texts of length <= %d over the alphabet %r; loop unrolled %d times with unwinding assertion"
                        % (P, T, TEXT_ALPHABET, ex.K), ["glob_match"], witness)


def validate_glob(ctx, R, seed, count):
    rnd = random.Random(seed)
    pairs = [("*.tmp", "foo.tmp"), ("*.tmp", ".tmp"), ("*.tmp", "foo.txt"), ("a?c", "abc"), ("a?c", "ac"), ("target", "target"),
             ("*", "anything"), ("a*b*c", "axxbyyc"), ("a*b*c", "axxbyy"), ("", ""), ("", "x")]
    for _ in range(count):
        p = "".join(rnd.choice("ab*?.") for _ in range(rnd.randrange(0, 6)))
        t = "".join(rnd.choice("ab.x") for _ in range(rnd.randrange(0, 7)))
        pairs.append((p, t))
    mine, cases = [], []
    for p, t in pairs:
        ex = ctx.ex(K=(len(t) + 1) * (len(p) + 2) + len(p) + 3)
        st = State()
        r = ex.exec_fn(ctx.fn(ex, "glob_match"), [VRef("val", val=lit_str(p)), VRef("val", val=lit_str(t))], st)
        mine.append(None if r is None else z3.is_true(simp(r.t)))
        cases.append({"fn": "glob_match", "pat": p, "text": t})
    nat = native.run_cases(cases, "dev")
    dis = 0
    for c, m, r in zip(cases, mine, nat):
        if r.get("result") != m:
            dis += 1
            R.validation["samples"].append({"case": c, "encoding": m, "native": r})
    R.validation["cases"] += len(cases)
    R.validation["disagreements"] += dis
    if cases and len(R.validation["samples"]) < 3:
        R.validation["samples"].append({"case": cases[0], "encoding": mine[0], "native": nat[0], "agree": True})
    if dis:
        raise Inconclusive("translator validation (glob_match): %d/%d concrete cases disagree with the native build" % (dis, len(cases)))


# ------------------------------------------------------------------ needs_transfer

def sym_meta(ex, name):
    return VStruct("FileMeta", [VInt(ex.fresh_int(name + "_size", ty="u64"), "u64"), VInt(ex.fresh_int(name + "_mtime", ty="i64"), "i64")])


def needs_transfer_obligation(ctx, prover, pid):
    R = prover.R
    ex = ctx.ex()
    s = sym_meta(ex, "s")
    d = sym_meta(ex, "d")
    present = ex.fresh_bool("dst_present")
    dst = VEnum("Option", simp(z3.If(present, I(1), I(0))), {0: [], 1: [d]})
    st = State()
    r = ex.exec_fn(ctx.fn(ex, "needs_transfer"), [s, dst], st)
    ex.exit_guards.append(st.guard)
    spec = z3.Or(z3.Not(present), s.f[0].t != d.f[0].t, s.f[1].t != d.f[1].t)

    def witness(name, model, neg=None):
        sv = [model_int(model, s.f[0].t), model_int(model, s.f[1].t)]
        dv = [model_int(model, d.f[0].t), model_int(model, d.f[1].t)] if model_bool(model, present) else None
        case = {"fn": "needs_transfer", "src": sv, "dst": dv}
        want = dv is None or sv != dv
        res = native.run_both(case)
        bad = {k: v for k, v in res.items() if v.get("result") != want}
        if bad:
            case["expected"] = want
            case["observed"] = res
            return {"confirmed": True, "replay_path": R.save_replay("%s/needs_transfer" % pid, case),
                    "detail": "needs_transfer(%s, %s): native %s, definition %s" % (sv, dv, bad, want)}
        return {"confirmed": False, "detail": "native agrees with the definition — encoding problem"}

    return prover.prove(ex, {"equals-definition": r.t == spec}, "%s/needs_transfer" % pid,
                        "all (size: u64, mtime: i64) pairs and both presence states; full width",
                        ["needs_transfer", "needs_transfer::{closure#0}"], witness)


# ------------------------------------------------------------------ build_plan

def ref_build_plan(src, dst, excluded, with_delete):
    """set definition; src/dst: {name: (size, mtime)}, excluded: set of names"""
    transfer = sorted(p for p, m in src.items() if p not in excluded and (p not in dst or dst[p] != m))
    skipped = len([p for p in src if p not in excluded]) - len(transfer)
    delete = sorted(p for p in dst if p not in src and p not in excluded) if with_delete else []
    return transfer, skipped, delete


def build_plan_setup(ctx, U):
    ex = ctx.ex(K=2 * U + 4)
    stdmodels.install_collections(ex, U, 2 * U + 4)
    exv = [ex.fresh_bool("ex%d" % u) for u in range(U)]

    def is_excluded_summary(ex_, st, args, dest_ty, func, where):
        v = args[0]
        while isinstance(v, VRef):
            v = ex_.deref(st, v)
        return VBool(simp(z3.Or(*[z3.And(v.t == u, exv[u]) for u in range(U)])))
    ex.summaries["is_excluded"] = is_excluded_summary
    sp, dp, sm, dm = [], [], [], []
    for u in range(U):
        sp.append(ex.fresh_bool("src_has%d" % u))
        dp.append(ex.fresh_bool("dst_has%d" % u))
        sm.append(sym_meta(ex, "s%d" % u))
        dm.append(sym_meta(ex, "d%d" % u))
    src = stdmodels.mk_map([VStruct("entry", [VBool(sp[u]), sm[u]]) for u in range(U)])
    dst = stdmodels.mk_map([VStruct("entry", [VBool(dp[u]), dm[u]]) for u in range(U)])
    wd = ex.fresh_bool("with_delete")
    st = State()
    excl = VRef("val", val=VOpaque("excludes"))
    plan = ex.exec_fn(ctx.fn(ex, "build_plan"), [VRef("val", val=src), VRef("val", val=dst), excl, VBool(wd)], st)
    if plan is None:
        raise Inconclusive("build_plan never returns")
    ex.exit_guards.append(st.guard)
    return ex, plan, dict(exv=exv, sp=sp, dp=dp, sm=sm, dm=dm, wd=wd, U=U)


def _seq_is(seq, member, U):
    """seq (VSeq of ids) == ascending list of {u | member[u]}"""
    cnt = sum([z3.If(member[u], 1, 0) for u in range(U)])
    parts = [seq.len == cnt]
    for u in range(U):
        rank = sum([z3.If(member[v], 1, 0) for v in range(u)]) if u else I(0)
        parts.append(z3.Implies(member[u], seq.at(rank) == u))
    return z3.And(*parts)


def _contains(seq, u, cap):
    return z3.Or(*[z3.And(i < seq.len, seq.at(I(i)) == u) for i in range(cap)])


def plan_fields(ctx):
    """field order of SyncPlan from its Default impl is not printed; use the struct declaration order from the
    source-independent MIR field projections in build_plan: (_5.0) transfer, (_5.1) skipped, (_5.2) delete"""
    return {"transfer": 0, "skipped": 1, "delete": 2}


def build_plan_goals(plan, v, which):
    U = v["U"]
    sp, dp, sm, dm, exv, wd = v["sp"], v["dp"], v["sm"], v["dm"], v["exv"], v["wd"]
    transfer, skipped, delete = plan.f[0], plan.f[1], plan.f[2]
    differs = [z3.Or(z3.Not(dp[u]), sm[u].f[0].t != dm[u].f[0].t, sm[u].f[1].t != dm[u].f[1].t) for u in range(U)]
    in_t = [z3.And(sp[u], z3.Not(exv[u]), differs[u]) for u in range(U)]
    considered = sum([z3.If(z3.And(sp[u], z3.Not(exv[u])), 1, 0) for u in range(U)])
    in_d = [z3.And(wd, dp[u], z3.Not(sp[u]), z3.Not(exv[u])) for u in range(U)]
    cap = 2 * U + 4
    goals = {}
    if which == "C19":
        goals["transfer-equals-definition"] = _seq_is(transfer, in_t, U)
        goals["skipped-equals-definition"] = skipped.t == considered - sum([z3.If(in_t[u], 1, 0) for u in range(U)])
        goals["delete-equals-definition"] = _seq_is(delete, in_d, U)
    elif which == "C15":
        goals["excluded-never-transferred"] = z3.And(*[z3.Implies(exv[u], z3.Not(_contains(transfer, u, cap))) for u in range(U)])
        goals["excluded-never-deleted"] = z3.And(*[z3.Implies(exv[u], z3.Not(_contains(delete, u, cap))) for u in range(U)])
        goals["delete-is-opt-in"] = z3.Implies(z3.Not(wd), delete.len == 0)
        goals["delete-only-absent-from-source"] = z3.And(*[z3.Implies(sp[u], z3.Not(_contains(delete, u, cap))) for u in range(U)])
    elif which == "C14":
        same = z3.And(*[z3.Implies(z3.And(sp[u], z3.Not(exv[u])), z3.Not(differs[u])) for u in range(U)])
        goals["unchanged-tree-transfers-nothing"] = z3.Implies(same, transfer.len == 0)
        goals["unchanged-tree-deletes-nothing-without-flag"] = z3.Implies(z3.And(same, z3.Not(wd)), delete.len == 0)
        goals["sent-only-if-absent-or-differs"] = z3.And(*[z3.Implies(_contains(transfer, u, cap), z3.And(sp[u], differs[u])) for u in range(U)])
        extra_only = z3.And(*[z3.Implies(dp[u], sp[u]) for u in range(U)])
        goals["mirror-deletes-nothing"] = z3.Implies(extra_only, delete.len == 0)
    return goals


def build_plan_case(model, v):
    U = v["U"]
    names = ["p%d" % u for u in range(U)]
    src = [[names[u], model_int(model, v["sm"][u].f[0].t), model_int(model, v["sm"][u].f[1].t)] for u in range(U) if model_bool(model, v["sp"][u])]
    dst = [[names[u], model_int(model, v["dm"][u].f[0].t), model_int(model, v["dm"][u].f[1].t)] for u in range(U) if model_bool(model, v["dp"][u])]
    excl = [names[u] for u in range(U) if model_bool(model, v["exv"][u])]
    return {"fn": "build_plan", "src": src, "dst": dst, "excludes": excl, "with_delete": model_bool(model, v["wd"])}


def native_plan_ok(case):
    src = {e[0]: (e[1], e[2]) for e in case["src"]}
    dst = {e[0]: (e[1], e[2]) for e in case["dst"]}
    want = ref_build_plan(src, dst, set(case["excludes"]), case["with_delete"])
    res = native.run_both(case)
    bad = {}
    for prof, r in res.items():
        got = (r.get("transfer"), r.get("skipped"), r.get("delete"))
        if got != (want[0], want[1], want[2]):
            bad[prof] = r
    return want, res, bad


def build_plan_obligation(ctx, prover, pid, U, seed):
    R = prover.R
    ex, plan, v = build_plan_setup(ctx, U)
    goals = build_plan_goals(plan, v, pid)

    def witness(name, model, neg=None):
        case = build_plan_case(model, v)
        want, res, bad = native_plan_ok(case)
        if bad:
            case["expected"] = {"transfer": want[0], "skipped": want[1], "delete": want[2]}
            case["observed"] = res
            return {"confirmed": True, "replay_path": R.save_replay("%s/build_plan" % pid, case),
                    "detail": "build_plan %s: native %s, set definition %s" % (json.dumps(case)[:300], json.dumps(bad)[:300], want)}
        return {"confirmed": False, "detail": "native build_plan agrees with the set definition on the model (encoding or std-model problem): %s" % json.dumps(case)[:300]}

    return prover.prove(ex, goals, "%s/build_plan" % pid,
                        "path universe of %d ordered paths; presence, size (u64), mtime (i64) of every path on both sides symbolic; "
                        "with_delete symbolic; is_excluded abstracted as an arbitrary predicate on paths; loops unrolled %d times" % (U, ex.K),
                        ["build_plan", "needs_transfer", "<SyncPlan as Default>::default"], witness)


def validate_build_plan(ctx, R, seed, count):
    """concrete-mode executor vs native on seeded maps (includes the repo's unit-test shapes)"""
    rnd = random.Random(seed)
    U = 4
    cases, mine = [], []
    for k in range(count):
        ex = ctx.ex(K=2 * U + 4)
        stdmodels.install_collections(ex, U, 2 * U + 4)
        exb = [rnd.random() < 0.3 for _ in range(U)]

        def summ(ex_, st, args, dest_ty, func, where, exb=exb):
            vv = args[0]
            while isinstance(vv, VRef):
                vv = ex_.deref(st, vv)
            return VBool(z3.BoolVal(exb[simp(vv.t).as_long()]))
        ex.summaries["is_excluded"] = summ
        sp = [rnd.random() < 0.7 for _ in range(U)]
        dp = [rnd.random() < 0.6 for _ in range(U)]
        sm = [(rnd.choice([1, 2]), rnd.choice([100, 200])) for _ in range(U)]
        dm = [sm[u] if rnd.random() < 0.5 else (rnd.choice([1, 2]), rnd.choice([100, 200])) for u in range(U)]
        wd = rnd.random() < 0.5

        def mk(pres, metas):
            return stdmodels.mk_map([VStruct("entry", [VBool(z3.BoolVal(pres[u])),
                                                       VStruct("FileMeta", [VInt(I(metas[u][0]), "u64"), VInt(I(metas[u][1]), "i64")])]) for u in range(U)])
        st = State()
        plan = ex.exec_fn(ctx.fn(ex, "build_plan"), [VRef("val", val=mk(sp, sm)), VRef("val", val=mk(dp, dm)),
                                                     VRef("val", val=VOpaque("excludes")), VBool(z3.BoolVal(wd))], st)
        s = z3.Solver()
        s.add(ex.assumes)
        s.add(st.guard)
        if s.check() != z3.sat:
            raise Inconclusive("translator validation (build_plan): inconsistent concrete run")
        m = s.model()

        def seq_vals(q):
            n = model_int(m, q.len)
            return ["p%d" % model_int(m, q.at(I(i))) for i in range(n)]
        mine.append((seq_vals(plan.f[0]), model_int(m, plan.f[1].t), seq_vals(plan.f[2])))
        names = ["p%d" % u for u in range(U)]
        cases.append({"fn": "build_plan", "src": [[names[u], sm[u][0], sm[u][1]] for u in range(U) if sp[u]],
                      "dst": [[names[u], dm[u][0], dm[u][1]] for u in range(U) if dp[u]],
                      "excludes": [names[u] for u in range(U) if exb[u]], "with_delete": wd})
    nat = native.run_cases(cases, "dev")
    dis = 0
    for c, mn, r in zip(cases, mine, nat):
        if (r.get("transfer"), r.get("skipped"), r.get("delete")) != (mn[0], mn[1], mn[2]):
            dis += 1
            R.validation["samples"].append({"case": c, "encoding": mn, "native": r})
    R.validation["cases"] += len(cases)
    R.validation["disagreements"] += dis
    if dis:
        raise Inconclusive("translator validation (build_plan): %d/%d concrete cases disagree with the native build" % (dis, len(cases)))


# ------------------------------------------------------------------ is_excluded (dispatch glue between glob_match and build_plan)

PATH_ALPHABET = "ab*."


def ref_is_excluded(rel, pats):
    for p in pats:
        p = p.rstrip("/")
        if not p:
            continue
        if "/" in p:
            if ref_glob(p, rel):
                return True
        else:
            for comp in rel.split("/"):
                if comp and ref_glob(p, comp):
                    return True
    return False


def is_excluded_setup(ctx, npat, P, L):
    ex = ctx.ex(K=npat * ((L + 1) // 2 + 2) + npat + 3)
    stdmodels.install_strings(ex, max(P, L))
    ex.k_by_fn["glob_match"] = (L + 1) * (P + 2) + P + 3
    pats = []
    for i in range(npat):
        pv, pl, pc = sym_str(ex, "pat%d_" % i, P, alphabet="ab*?./")
        pats.append((pv, pl, pc))
    rv, rl, rc = sym_str(ex, "rel", L, alphabet=PATH_ALPHABET + "/")
    SL, DOT = ord("/"), ord(".")
    # relative path as produced by a directory walk: no leading '/', no "." / ".." components
    ex.assumes.append(z3.Or(rl == 0, rc[0] != SL))
    for a in range(L):
        for b in range(a + 1, min(a + 2, L) + 1):
            is_comp = z3.And(b <= rl, (rc[a - 1] == SL) if a > 0 else z3.BoolVal(True), z3.Or(b == rl, rc[b] == SL) if b < L else (b == rl),
                             *[rc[k] != SL for k in range(a, b)])
            ex.assumes.append(z3.Not(z3.And(is_comp, *[rc[k] == DOT for k in range(a, b)])))
    st = State()
    plist = VList([p[0] for p in pats], I(npat), "String")
    r = ex.exec_fn(ctx.fn(ex, "is_excluded"), [VRef("val", val=rv), VRef("val", val=plist)], st)
    if r is None:
        raise Inconclusive("is_excluded never returns")
    ex.exit_guards.append(st.guard)
    return ex, r, pats, (rv, rl, rc)


def is_excluded_spec(pats, rel, P, L):
    rv, rl, rc = rel
    SL = ord("/")
    out = []
    for (pv, pl, pc) in pats:
        # trimmed length
        tl = I(0)
        for i in range(P):
            tl = z3.If(z3.And(i < pl, pc[i] != SL), I(i + 1), tl)
        has_slash = z3.Or(*[z3.And(i < tl, pc[i] == SL) for i in range(P)])
        whole = glob_spec(tl, pc, rl, rc, P, L)
        comp_any = []
        for a in range(L):
            for b in range(a + 1, L + 1):
                is_comp = z3.And(b <= rl, (rc[a - 1] == SL) if a > 0 else z3.BoolVal(True), z3.Or(b == rl, rc[b] == SL) if b < L else (b == rl),
                                 *[rc[k] != SL for k in range(a, b)])
                comp_any.append(z3.And(is_comp, glob_spec(tl, pc, I(b - a), rc[a:b], P, b - a)))
        out.append(z3.And(tl > 0, z3.If(has_slash, whole, z3.Or(*comp_any) if comp_any else z3.BoolVal(False))))
    return z3.Or(*out) if out else z3.BoolVal(False)


def is_excluded_obligation(ctx, prover, pid, npat, P, L):
    R = prover.R
    ex, r, pats, rel = is_excluded_setup(ctx, npat, P, L)
    spec = is_excluded_spec(pats, rel, P, L)
    if pid == "C15":
        goals = {"matching-path-is-excluded": z3.Implies(spec, r.t)}
    else:
        goals = {"equals-definition": r.t == spec}

    def witness(name, model, neg):
        ps = [model_str(model, pl, pc) for (_, pl, pc) in pats]
        rs = model_str(model, rel[1], rel[2])
        case = {"fn": "is_excluded", "path": rs, "excludes": ps}
        want = ref_is_excluded(rs, ps)
        res = native.run_both(case)
        bad = {k: v for k, v in res.items() if v.get("result") != want}
        if bad:
            case["expected"] = want
            case["observed"] = res
            return {"confirmed": True, "replay_path": R.save_replay("%s/is_excluded" % pid, case), "key": "%s/is_excluded" % pid,
                    "detail": "is_excluded(%r, %r): native %s, definition %s" % (rs, ps, bad, want)}
        return {"confirmed": False, "detail": "is_excluded(%r, %r): native agrees with the definition (%s) — encoding or std-model problem" % (rs, ps, want)}

    return prover.prove(ex, goals, "%s/is_excluded" % pid,
                        "%d pattern(s) of length <= %d over 'ab*?./' and a relative path of length <= %d over %r plus '/', no leading '/', "
                        "no '.'/'..' components; loops unrolled with unwinding assertions" % (npat, P, L, PATH_ALPHABET),
                        ["is_excluded", "glob_match"], witness)


def validate_is_excluded(ctx, R, seed, count):
    rnd = random.Random(seed)
    fixed = [("target/debug/app", ["target", "*.tmp"]), ("crate/target/x", ["target"]), ("build/out.tmp", ["*.tmp"]), ("src/main.rs", ["target", "*.tmp"]),
             ("node_modules/x/y", ["node_modules/"]), ("a/b/c.log", ["a/*/c.log"]), ("a/b/c.log", ["a/c.log"]), ("x", ["", "/"])]
    cases = list(fixed)
    for _ in range(count):
        rel = "/".join("".join(rnd.choice("ab*.") for _ in range(rnd.randrange(1, 3))) for _ in range(rnd.randrange(1, 4)))
        rel = "/".join(c for c in rel.split("/") if c not in (".", ".."))
        pats = ["".join(rnd.choice("ab*?./") for _ in range(rnd.randrange(0, 4))) for _ in range(rnd.randrange(1, 3))]
        if rel:
            cases.append((rel, pats))
    mine, nj = [], []
    for rel, pats in cases:
        L = max(len(rel), 1)
        P = max([len(p) for p in pats] + [1])
        ex = ctx.ex(K=len(pats) * (L + 3) + len(pats) + 3)
        stdmodels.install_strings(ex, max(P, L))
        ex.k_by_fn["glob_match"] = (L + 1) * (P + 2) + P + 3
        st = State()
        plist = VList([lit_str(p) for p in pats], I(len(pats)), "String")
        r = ex.exec_fn(ctx.fn(ex, "is_excluded"), [VRef("val", val=lit_str(rel)), VRef("val", val=plist)], st)
        mine.append(None if r is None else z3.is_true(simp(r.t)))
        nj.append({"fn": "is_excluded", "path": rel, "excludes": pats})
    nat = native.run_cases(nj, "dev")
    dis = 0
    for c, m, r in zip(nj, mine, nat):
        if r.get("result") != m:
            dis += 1
            R.validation["samples"].append({"case": c, "encoding": m, "native": r})
    R.validation["cases"] += len(nj)
    R.validation["disagreements"] += dis
    if dis:
        raise Inconclusive("translator validation (is_excluded): %d/%d concrete cases disagree with the native build: %s"
                           % (dis, len(nj), json.dumps(R.validation["samples"][-1])[:300]))
