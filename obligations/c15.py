"""C15 — excludes protect, deletes are opt-in (planner level; dry-run clause outside the claim: DESIGN §4 C15)."""
from mirsmt.env import Inconclusive
from mirsmt.symexec import Unsupported
from . import planlib
from .c19 import replay  # noqa: F401


def run(R, tier, seed):
    R.trusted += ["rustc nightly MIR dump of the copia binary crate", "mirsmt encoder + std models (validated in concrete mode vs native)",
                  "z3 5.1 (deciding), cvc5 / z3 4.8.12 (re-deciding)"]
    R.assumptions += ["decided at the level of the plan the run executes: `is never transferred / deleted` means `is not in plan.transfer / plan.delete`",
                      "is_excluded's dispatch (slash-free pattern per component vs whole path, trailing '/' trim, empty pattern ignored) is decided from MIR for relative "
                      "paths of '/'-separated plain names (no '.'/'..' components): every path the definition excludes is reported excluded",
                      "the --dry-run clause (no file, mtime or recorded state changes; printed == performed) is a file-system observation and is NOT covered",
                      "strings are sequences of one-byte chars over the alphabet " + repr(planlib.ALPHABET)]
    from . import planjobs
    steps = ["validate-glob", "glob_match", "build_plan", "is_excluded", "is_excluded-2"]
    if tier != "quick":
        steps += ["is_excluded-long"]
    planjobs.run(R, "C15", tier, seed, steps)
