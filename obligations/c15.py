"""C15 — excludes protect, deletes are opt-in (planner level; dry-run clause outside the claim: DESIGN §4 C15)."""
from mirsmt.env import Inconclusive
from mirsmt.symexec import Unsupported
from . import planlib
from .c19 import replay  # noqa: F401


def run(R, tier, seed):
    R.trusted += ["rustc nightly MIR dump of the copia binary crate", "mirsmt encoder + std models (validated in concrete mode vs native)",
                  "z3 5.1 (deciding), cvc5 / z3 4.8.12 (re-deciding)"]
    R.assumptions += ["decided at the level of the plan the run executes: `is never transferred / deleted` means `is not in plan.transfer / plan.delete`",
                      "is_excluded's own dispatch (slash-free pattern per component vs whole path, trailing '/' trim) is read, not decided",
                      "the --dry-run clause (no file, mtime or recorded state changes; printed == performed) is a file-system observation and is NOT covered",
                      "strings are sequences of one-byte chars over the alphabet " + repr(planlib.ALPHABET)]
    ctx = planlib.Ctx()
    R.extra["mir_dump"] = {"file": ctx.mir_path, "seconds": round(ctx.dump_s, 2)}
    prover = planlib.Prover(R, tier)
    steps = [
        ("validate", lambda: planlib.validate_glob(ctx, R, seed, 30 if tier == "quick" else 150)),
        ("glob_match", lambda: planlib.glob_obligation(ctx, prover, "C15", *((4, 5) if tier == "quick" else (6, 7)), direction="protect")),
        ("validate-build_plan", lambda: planlib.validate_build_plan(ctx, R, seed, 10 if tier == "quick" else 60)),
        ("build_plan", lambda: planlib.build_plan_obligation(ctx, prover, "C15", 3 if tier == "quick" else 5, seed)),
    ]
    for name, f in steps:
        try:
            f()
        except (Unsupported, Inconclusive) as e:
            R.add("C15/%s/encoding" % name, "inconclusive", detail=str(e)[:400])
