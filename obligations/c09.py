"""C09 — one-way delivery is atomic under a crash: the ORDER of requests for the local and pull directions, from MIR.
Kill points themselves are not explored; what is decided is the shape the argument rests on: bytes reach a destination
path only through a rename of its `.copia-tmp` sibling, requested only after the copy / remote stream succeeded, and
removals of stale files come after every delivery.  Push: the remote command line is decided as TEXT (obligations/shellcmd.py):
for every remote path it is `cat > $'T' && mv -f $'T' $'D'[ && touch ..]` with T = D + ".copia-tmp" - the destination name
appears only as the target of a `mv` conditioned on `cat` having exited 0.  What the remote shell then does is its contract."""
from mirsmt.env import Inconclusive
from mirsmt.symexec import Unsupported
from mirsmt.prove import Prover
from . import c04
from .c04 import replay  # noqa: F401


def run(R, tier, seed):
    R.trusted += ["rustc nightly MIR dump of the copia binary crate", "mirsmt encoder + std models + the file-system effect recorder", "z3 5.1 (deciding), cvc5 / z3 4.8.12 (re-deciding)",
                  "native oracle: the real copia binary under strace"]
    R.assumptions += ["kill points are NOT explored: atomicity of rename(2) is the kernel's; a killed process leaves at worst a `.copia-tmp` staging file (a reserved name) — "
                      "ARGUED from the decided order, not decided",
                      "push: only the command line handed to ssh is decided (as text, remote path of 0..2/3 characters, any code points) together with the streaming loop; the remote shell "
                      "executing `cat > T && mv -f T D` (mv only after cat exited 0; bash's reading of $'..') is a CONTRACT, validated natively through the stand-in for ssh; the pull transport is decided with the ssh child, its pipe and "
                      "exit status as arbitrary inputs, and validated natively through a two-line local stand-in for ssh (no sshd in the sandbox)",
                      "one schedule (futures complete at their await)"]
    ctx = c04.Ctx()
    prover = Prover(R, tier)

    def rename_pid(f):
        def g():
            n0 = len(R.results)
            f()
            for r in R.results[n0:]:
                r["id"] = r["id"].replace("C04/", "C09/", 1)
                if r.get("key"):
                    r["key"] = r["key"].replace("C04/", "C09/", 1)
        return g
    for what, f in (("deliver_local", rename_pid(lambda: c04.deliver_obligation(ctx, R, prover))), ("deliver_pull", lambda: c04.deliver_pull_obligation(ctx, R, prover, "C09")),
                    ("transfer_file_from_remote", lambda: c04.pull_stream_obligation(ctx, R, prover, "C09")),
                    ("run_local", rename_pid(lambda: c04.run_local_obligation(ctx, R, prover, 2 if tier == "quick" else 3)))):
        try:
            f()
        except (Inconclusive, Unsupported) as e:
            R.add("C09/%s/encoding" % what, "inconclusive", detail=str(e)[:400])
    # the real pull through a local stand-in for ssh (validation each run)
    try:
        w = c04.native_pull_witness(R, "C09")("validation", None, None)
        if w["confirmed"]:
            R.add("C09/native-pull", "violated", confirmed=True, replay_path=w["replay_path"], key=w["key"], detail=w["detail"])
        else:
            R.add("C09/native-pull", "holds", queries=0, solver_s=0.0, detail=w["detail"] + " (validation, not the deciding step)")
    except Exception as e:  # noqa: BLE001
        R.add("C09/native-pull", "inconclusive", detail=str(e)[:300])
    c04.remote_commands(R, tier, "C09", ("push",))
    o = c04.order_witness(R, "C09")
    if o["confirmed"]:
        R.add("C09/native-order", "violated", confirmed=True, replay_path=o["replay_path"], key=o["key"], detail=o["detail"])
    else:
        R.add("C09/native-order", "holds", queries=0, solver_s=0.0, detail=o["detail"] + " (validation, not the deciding step)")
