"""Run independent obligation instances in worker processes (16 cores) and fold their results into the Runner."""
import multiprocessing as mp
import os
import traceback


def _worker(job):
    modname, fname, args = job
    import importlib
    from mirsmt.report import Runner
    from mirsmt import env
    from mirsmt.env import Inconclusive
    from mirsmt.symexec import Unsupported
    import io
    import contextlib
    R = Runner(args.get("pid", "?"), args.get("tier", "quick"), "model_checking", args.get("seed", 1))
    buf = io.StringIO()
    try:
        with contextlib.redirect_stdout(buf):
            mod = importlib.import_module(modname)
            getattr(mod, fname)(R, **args)
    except (Inconclusive, Unsupported) as e:
        R.results.append({"id": "%s/%s/encoding" % (args.get("pid", "?"), args.get("tag", fname)), "status": "inconclusive",
                          "detail": str(e)[:400]})
    except Exception as e:
        R.results.append({"id": "%s/%s/crash" % (args.get("pid", "?"), args.get("tag", fname)), "status": "inconclusive",
                          "detail": "%s: %s | %s" % (type(e).__name__, str(e)[:200], traceback.format_exc()[-400:])})
    st = env.STATS
    return {"results": R.results, "validation": R.validation, "extra": R.extra,
            "stats": {"queries": st.queries, "time": st.time, "cross": st.cross}}


def run_jobs(R, jobs, procs=None):
    from mirsmt import env
    procs = procs or min(len(jobs), max(1, (os.cpu_count() or 4) - 2))
    if not jobs:
        return
    # warm the shared caches in the parent (MIR dumps, replay binaries) so that workers only read them
    from mirsmt import native
    env.dump_mir("lib")
    for prof in ("dev", "release"):
        native.build(prof)
    ctx = mp.get_context("fork")
    with ctx.Pool(procs, maxtasksperchild=1) as pool:
        for out in pool.imap_unordered(_worker, jobs):
            for r in out["results"]:
                st = r.pop("status")
                oid = r.pop("id")
                R.add(oid, st, **r)
            R.validation["cases"] += out["validation"]["cases"]
            R.validation["disagreements"] += out["validation"]["disagreements"]
            R.validation["samples"] += out["validation"]["samples"][:2]
            for k, v in out["extra"].items():
                if isinstance(v, int):
                    R.extra[k] = R.extra.get(k, 0) + v
            env.STATS.queries += out["stats"]["queries"]
            for k, v in out["stats"]["time"].items():
                env.STATS.time[k] += v
            for k, v in out["stats"]["cross"].items():
                env.STATS.cross[k] += v
