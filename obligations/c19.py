"""C19 — the one-way planner and its pattern matcher equal their set definitions (DESIGN §4 C19)."""
import json
from mirsmt import native
from mirsmt.env import Inconclusive
from mirsmt.symexec import Unsupported
from . import planlib


def run(R, tier, seed):
    R.trusted += ["rustc nightly MIR dump of the copia binary crate", "mirsmt encoder + std models (validated in concrete mode vs native)",
                  "z3 5.1 (deciding), cvc5 / z3 4.8.12 (re-deciding)"]
    R.assumptions += ["strings are sequences of one-byte chars over the stated alphabet (str::chars == bytes)",
                      "is_excluded's std::path / string dispatch and parse_remote_meta_output are NOT covered (DESIGN §4 C19)"]
    ctx = planlib.Ctx()
    R.extra["mir_dump"] = {"file": ctx.mir_path, "seconds": round(ctx.dump_s, 2)}
    prover = planlib.Prover(R, tier)
    steps = [
        ("validate", lambda: planlib.validate_glob(ctx, R, seed, 40 if tier == "quick" else 200)),
        ("needs_transfer", lambda: planlib.needs_transfer_obligation(ctx, prover, "C19")),
        ("glob_match", lambda: planlib.glob_obligation(ctx, prover, "C19", *((4, 5) if tier == "quick" else (6, 7)))),
    ]
    steps.append(("validate-build_plan", lambda: planlib.validate_build_plan(ctx, R, seed, 10 if tier == "quick" else 60)))
    steps.append(("build_plan", lambda: planlib.build_plan_obligation(ctx, prover, "C19", 3 if tier == "quick" else 5, seed)))
    for name, f in steps:
        try:
            f()
        except (Unsupported, Inconclusive) as e:
            R.add("C19/%s/encoding" % name, "inconclusive", detail=str(e)[:400])


def replay(path):
    case = json.load(open(path))["case"]
    case = {k: v for k, v in case.items() if k not in ("observed", "expected")}
    print(json.dumps(native.run_both(case), indent=1))
    return 0
