"""C19 — the one-way planner and its pattern matcher equal their set definitions (DESIGN §4 C19)."""
import json
from mirsmt import native
from mirsmt.env import Inconclusive
from mirsmt.symexec import Unsupported
from . import planlib


def run(R, tier, seed):
    R.trusted += ["rustc nightly MIR dump of the copia binary crate", "mirsmt encoder + std models (validated in concrete mode vs native)",
                  "z3 5.1 (deciding), cvc5 / z3 4.8.12 (re-deciding)"]
    R.assumptions += ["strings are sequences of one-byte chars over the stated alphabet (str::chars == bytes)",
                      "is_excluded is decided from MIR for relative paths made of '/'-separated plain names (no '.'/'..' components, no leading '/'): "
                      "Path::components is modelled only on that domain",
                      "parse_remote_meta_output: decided on a symbolic two-record listing (sizes / seconds of 1..2 (quick) or 1..3 (thorough) digits, optional sign and fraction, "
                      "names of 1..2/3 characters over {a . / TAB NEWLINE -}); std's text routines (slice::split, from_utf8_lossy on ASCII, splitn, split, parse::<u64/i64>, "
                      "strip_prefix) are contract models validated each run against the native function; non-ASCII names and real `find` output are not covered"]
    from . import planjobs
    steps = ["validate-glob", "needs_transfer", "glob_match", "build_plan", "is_excluded", "is_excluded-2"]
    if tier != "quick":
        steps += ["is_excluded-long"]
    planjobs.run(R, "C19", tier, seed, steps)
    from . import remotelist
    remotelist.run(R, tier, seed, "C19")
    # independent re-decision of needs_transfer on the compiled code (Kani, byte-identical copy of plan.rs)
    from . import kanilib
    try:
        kanilib.run_harnesses(R, "C19", "bin", [dict(h="gen_plan::verif_c19::c19_needs_transfer_exact", functions=["needs_transfer"],
                                                      bound="all (size: u64, mtime: i64) pairs and both presence states (Kani/CBMC, full width)",
                                                      witness=None)], timeout_s=600)
    except Inconclusive as e:
        R.add("C19/kani/encoding", "inconclusive", detail=str(e)[:300])


def replay(path):
    case = json.load(open(path))["case"]
    case = {k: v for k, v in case.items() if k not in ("observed", "expected")}
    print(json.dumps(native.run_both(case), indent=1))
    return 0
