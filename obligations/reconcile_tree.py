"""C18 (tree level): `reconcile` over BTreeMaps from MIR, with an ordered path universe (E1)."""
import json
import z3

from mirsmt import stdmodels, deltamodels, native
from mirsmt.symexec import State, VInt, VBool, VStruct, VEnum, VRef, VSeq, VList, I, simp, Unsupported
from mirsmt.env import model_int, model_bool, Inconclusive
from mirsmt.prove import Prover
from . import planlib
from .c18 import ref_table


def sym_fp(ex, name, enums):
    bs = [VInt(ex.fresh_int("%s_h%d" % (name, i), lo=0, hi=255), "u8") for i in range(32)]
    ft = ex.fresh_bool(name + "_is_symlink")
    return VStruct("Fingerprint", [VStruct("[array]", bs), VEnum("FileType", simp(z3.If(ft, I(enums["FileType"]["Symlink"]), I(enums["FileType"]["File"]))),
                                                                  {enums["FileType"]["File"]: [], enums["FileType"]["Symlink"]: []})]), bs, ft


def fp_eq(x, y):
    return z3.And(*[a.t == b.t for a, b in zip(x[1], y[1])] + [x[2] == y[2]])


def table_term(enums, pa, pb, pz, eab, eaz, ebz):
    """(action discriminant, conflict kind) of the documented table as z3 terms"""
    A, K = enums["Action"], enums["ConflictKind"]
    both = z3.If(eab, z3.If(z3.And(pz, eaz), A["Noop"], A["ConvergeIdentical"]),
                 z3.If(z3.And(pz, ebz), A["PropagateAtoB"], z3.If(z3.And(pz, eaz), A["PropagateBtoA"], A["Conflict"])))
    only_a = z3.If(z3.Not(pz), A["PropagateAtoB"], z3.If(eaz, A["DeleteA"], A["Conflict"]))
    only_b = z3.If(z3.Not(pz), A["PropagateBtoA"], z3.If(ebz, A["DeleteB"], A["Conflict"]))
    act = z3.If(z3.And(pa, pb), both, z3.If(pa, only_a, z3.If(pb, only_b, A["Noop"])))
    kind = z3.If(z3.And(pa, pb), K["BothChanged"], K["DeleteVsModify"])
    return act, kind


def obligations(R, tier, seed):
    ctx = planlib.Ctx()
    prover = Prover(R, tier)
    U = 2 if tier == "quick" else 3
    ex = ctx.ex(K=2 * U + 3)
    stdmodels.install_collections(ex, U, 2 * U + 2)
    ex.models.insert(0, (__import__("re").compile(r"^Vec::<\(PathBuf, Action\)>::new$"), deltamodels._vlist_new, "Vec<(PathBuf, Action)>::new"))
    ex.models.insert(0, (__import__("re").compile(r"^Vec::<\(PathBuf, Action\)>::push$"), deltamodels._vlist_push, "Vec<(PathBuf, Action)>::push"))
    enums = ctx.enums
    maps, fps, pres = {}, {}, {}
    for m in ("a", "b", "z"):
        entries = []
        for u in range(U):
            p = ex.fresh_bool("%s_has%d" % (m, u))
            fp = sym_fp(ex, "%s%d" % (m, u), enums)
            pres[(m, u)], fps[(m, u)] = p, fp
            entries.append(VStruct("entry", [VBool(p), fp[0]]))
        maps[m] = stdmodels.mk_map(entries)
    trust = ex.fresh_bool("trust_base")
    st = State()
    out = ex.exec_fn(ctx.fn(ex, "reconcile"), [VRef("val", val=maps["a"]), VRef("val", val=maps["b"]), VRef("val", val=maps["z"]), VBool(trust)], st)
    if out is None:
        raise Inconclusive("reconcile never returns")
    ex.exit_guards.append(st.guard)
    A = enums["Action"]
    exp, emit = [], []
    for u in range(U):
        pa, pb = pres[("a", u)], pres[("b", u)]
        pz = z3.And(trust, pres[("z", u)])
        act, kind = table_term(enums, pa, pb, pz, fp_eq(fps[("a", u)], fps[("b", u)]), fp_eq(fps[("a", u)], fps[("z", u)]),
                               fp_eq(fps[("b", u)], fps[("z", u)]))
        exp.append((act, kind))
        emit.append(z3.And(z3.Or(pa, pb), act != A["Noop"]))
    cnt = sum([z3.If(e, 1, 0) for e in emit])
    conj = [out.len == cnt]
    for u in range(U):
        rank = sum([z3.If(emit[v], 1, 0) for v in range(u)]) if u else I(0)
        items = out.items
        for i, it in enumerate(items):
            here = z3.And(emit[u], rank == i)
            path, action = it.f[0], it.f[1]
            ok = z3.And(path.t == u, action.discr == exp[u][0])
            if A["Conflict"] in action.pay:
                ok = z3.And(ok, z3.Implies(action.discr == A["Conflict"], action.pay[A["Conflict"]][0].discr == exp[u][1]))
            conj.append(z3.Implies(here, ok))
        conj.append(z3.Implies(emit[u], rank < len(items)))
    goals = {"equals-per-path-table-over-union": z3.And(*conj),
             "untrusted-base-never-deletes": z3.Implies(z3.Not(trust), z3.And(*[z3.Implies(i < out.len, z3.And(it.f[1].discr != A["DeleteA"], it.f[1].discr != A["DeleteB"]))
                                                                                for i, it in enumerate(out.items)]))}

    # the model's paths are abstract ids with one order; a counterexample is tried under several NAMINGS of the ids (each list
    # ascending in Path order, as the model assumes): plain names, names differing only in case, a name that is a prefix of
    # the next, names around a separator - a defect may depend on what the names look like
    NAMINGS = [["p%d" % u for u in range(4)], ["A", "a", "b", "c"], ["N", "n", "n.x", "o"], ["d/x", "d.x", "e", "f"], ["Ab", "aB", "ab", "b"], ["x y", "x'y", "x\\y", "y"]]

    def witness(name, model, neg):
        last = None
        for names in NAMINGS:
            r = witness_named(model, names[:U])
            if r["confirmed"]:
                return r
            last = r
        return last

    def witness_named(model, names):
        def fpv(m, u):
            return [bytes(model_int(model, b.t) for b in fps[(m, u)][1]).hex(), 1 if model_bool(model, fps[(m, u)][2]) else 0]
        case = {"fn": "reconcile", "trust_base": model_bool(model, trust)}
        for m, key in (("a", "a"), ("b", "b"), ("z", "base")):
            case[key] = [[names[u], fpv(m, u)] for u in range(U) if model_bool(model, pres[(m, u)])]
        want = []
        da, db, dz = (dict((k, tuple(v)) for k, v in case[x]) for x in ("a", "b", "base"))
        for n in sorted(set(da) | set(db), key=lambda p_: p_.split("/")):
            act = ref_table(da.get(n), db.get(n), dz.get(n) if case["trust_base"] else None)
            if act != "Noop":
                want.append([n, act])
        res = native.run_both(case)
        bad = {p: r for p, r in res.items() if r.get("result") != want}
        if bad:
            case["expected"] = want
            case["observed"] = res
            return {"confirmed": True, "replay_path": R.save_replay("C18/reconcile-tree", case), "key": "C18/reconcile-tree",
                    "detail": "reconcile(%s): native %s, per-path table over the union %s" % (json.dumps(case)[:200], json.dumps(bad)[:200], want)}
        return {"confirmed": False, "detail": "native reconcile agrees with the per-path table on the model under %d namings of the paths (encoding/std-model problem)" % len(NAMINGS)}

    prover.prove(ex, goals, "C18/reconcile-tree",
                 "universe of %d ordered paths; presence and full 32-byte fingerprints + entry types of a, b, base symbolic; trust_base symbolic; loop unrolled %d times" % (U, ex.K),
                 ["reconcile", "reconcile_path", "Fingerprint::same", "<Action as PartialEq>::eq"], witness)
