"""C06 — bisync, step level (see bisynccheck.py / bisynclib.py)."""
from mirsmt.prove import Prover
from . import bisynccheck, hexname
from .bisynccheck import replay as _replay


def run(R, tier, seed):
    bisynccheck.run(R, "C06", tier, seed)
    # the conflict-copy NAME: `<path>.conflict-<host>-<first 12 hex of its hash>` - the helper producing those 12 digits, for every digest
    R.assumptions += ["bidir::short_hex is decided on all 2^256 digests (write!(\"{b:02x}\") decoded from its template); in the apply / run obligations it is a summary"]
    hexname.run(R, Prover(R, tier), "C06", "short_hex")


def replay(path):
    import json
    case = json.load(open(path))["case"]
    if case.get("fn") == "short_names":
        from . import hubnative
        c = {k: v for k, v in case.items() if k not in ("observed", "expected")}
        for prof in ("dev", "release"):
            print(prof, hubnative.run_cases([c], prof)[0], "expected", case.get("expected"))
        return 0
    return _replay(path)
