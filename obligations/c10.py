"""C10 — hub daemon, one request at a time (see hubcheck.py / hublib.py)."""
from . import hubcheck
from .hubcheck import replay  # noqa: F401


def run(R, tier, seed):
    hubcheck.run(R, "C10", tier, seed)
