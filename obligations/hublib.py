"""Hub daemon (serve.rs / wire.rs), one request at a time, from MIR with the file system as an EFFECT RECORDER
(mirsmt/fsmodels.py).  Shared by C03 (compare-and-swap step), C10 (publish only verified bytes by rename),
C11 (no effect outside safe_join's result; safe_join itself) and C12 (framing, bounded allocation, stream in step).

What is decided is the SEQUENTIAL behaviour of one handler call from an arbitrary state of the world: which file-system
operations it requests, on which paths, in which order, under which conditions, what it consumes from the stream and
what it replies.  Interleavings of several server processes and crash points are NOT explored (stated in every
evidence file); the obligations establish the shape those arguments rest on (read-compare-write inside one critical
section; content reaches a served path only by rename of a synced, hash-verified staging file).
"""
import json
import z3

from mirsmt import env, stdmodels, patchmodels, codecmodels, deltamodels, fsmodels, itermodels, native
from mirsmt.fsmodels import PJ, PS, PP, lit_id, pathv, strv
from mirsmt.symexec import (Executor, State, VInt, VBool, VStruct, VEnum, VRef, VSeq, VList, VOpaque, UNIT, I, simp, Unsupported)
from mirsmt.env import model_int, model_bool, Inconclusive
from mirsmt.stdmodels import opt_sym

MAX_FRAME = 1 << 20            # property text: 1 MiB bound on a control frame

WANT = ("handle_put", "handle_delete", "handle_get", "with_commit_lock", "cas_decide", "tmp_of", "safe_join", "current_hash",
        "read_frame", "read_magic", "write_frame", "write_magic", "short_hash")


def source_fns(*files):
    """names of all functions defined in the given src/bin/copia files (a refactor may add helpers)"""
    import re as _re
    out = set()
    for f in files:
        try:
            src = open(env.REPO + "/src/bin/copia/" + f).read()
        except OSError:
            continue
        src = src.split("#[cfg(test)]")[0]
        out |= set(_re.findall(r"\bfn\s+(\w+)", src))
    return out


class Ctx:
    def __init__(self):
        want = set(WANT) | source_fns("serve.rs", "wire.rs")

        def keep(n):
            return n in want or n.startswith(tuple(w + "::" for w in want)) or n.startswith(("wire::", "serve::"))
        self.mir, self.mir_path, self.dump_s = env.load("bin", keep)
        self.idx = env.impl_index(self.mir)
        self.enums = env.source_enums()

    def ex(self, K=6, byte_cap=4):
        e = Executor(self.mir, self.enums, K=K)
        e.impl_index = self.idx
        stdmodels.install_core(e)
        stdmodels.install_time_fs(e)
        itermodels.install(e)
        e.byte_cap = byte_cap
        e.hash_cap = byte_cap
        e.hash_model = "bytes"
        patchmodels.install(e)
        codecmodels.install(e)
        fsmodels.install(e)
        return e

    def fn(self, ex, name):
        if len(self.mir.fns.get(name, [])) > 1:
            raise Inconclusive("function name `%s` is not unique in the bin MIR dump" % name)
        f = ex.find_fn(name)
        if f is None:
            raise Inconclusive("no MIR body for `%s`" % name)
        return f

    def variant(self, enum, name):
        e = self.enums.get(enum)
        if not e or name not in e:
            raise Inconclusive("enum %s::%s not found in the source" % (enum, name))
        return e[name]


# ----------------------------------------------------------------- shared world

def sym_hash(ex, name):
    bs = [ex.fresh_int("%s%d" % (name, i), lo=0, hi=255) for i in range(32)]
    return VStruct("[array]", [VInt(b, "u8") for b in bs]), bs


def sym_opt_hash(ex, name):
    present = ex.fresh_bool(name + "_present")
    arr, bs = sym_hash(ex, name)
    return opt_sym(present, arr), present, bs


def opt_eq(pa, ba, pb, bb):
    """equality of two Option<[u8;32]> given (present, bytes)"""
    return z3.Or(z3.And(z3.Not(pa), z3.Not(pb)), z3.And(pa, pb, *[x == y for x, y in zip(ba, bb)]))


class World:
    """summaries for the pieces that touch the real file system or are decided separately"""

    def __init__(self, ctx, ex):
        self.ctx, self.ex = ctx, ex
        self.ROOT, self.LOCKDIR, self.REL = z3.Int("ROOT"), z3.Int("LOCKDIR"), z3.Int("REL")
        self.refused = ex.fresh_bool("safe_join_refuses")
        self.dst = PJ(self.ROOT, self.REL)
        self.reads = []          # current_hash reads: (effect, present, bytes)
        self.replies = []        # (guard, seq, Response value, ok)
        S = ex.summaries
        S["safe_join"] = self._safe_join
        S["current_hash"] = self._current_hash
        S["write_frame"] = self._write_frame
        S["short_hash"] = self._short_hash
        S["mtime_secs"] = lambda ex_, st, args, dest_ty, func, where: VInt(ex_.fresh_int("mtime_secs", ty="i64"), "i64")
        S["meta::mtime_secs"] = S["mtime_secs"]
        self.finals = []

    def install_hash_recorder(self):
        """blake3::Hasher::finalize is additionally recorded in the trace (the code after a loop is replicated per
        iteration count, so there are several finalisations with mutually exclusive guards)"""
        ex = self.ex

        def fin(ex_, st, args, dest_ty, func, where):
            h = patchmodels.deep(ex_, st, args[0])
            out = patchmodels._hasher_finalize(ex_, st, args, dest_ty, func, where)
            e = fsmodels.record(ex_, st, "hash-finalize", path=I(0), ok=z3.BoolVal(True), stream=h.f[0], out=[x.t for x in out.f[0].f])
            self.finals.append(e)
            return out
        import re as _re
        ex.models = [(_re.compile(r"^blake3::Hasher::finalize$"), fin, "blake3::Hasher::finalize (32 uninterpreted functions of the stream; recorded)")] + ex.models

    def _safe_join(self, ex, st, args, dest_ty, func, where):
        root, rel = fsmodels.path_term(ex, st, args[0]), fsmodels.text_term(ex, st, args[1])
        return opt_sym(z3.Not(self.refused), pathv(PJ(root, rel)))

    def _current_hash(self, ex, st, args, dest_ty, func, where):
        p = fsmodels.path_term(ex, st, args[0])
        val, present, bs = sym_opt_hash(ex, "cur")
        e = fsmodels.record(ex, st, "read-current-hash", path=p, ok=present)
        self.reads.append((e, present, bs))
        return val

    def _write_frame(self, ex, st, args, dest_ty, func, where):
        msg = fsmodels._deep(ex, st, args[1])
        ok = ex.fresh_bool("reply_ok")
        e = fsmodels.record(ex, st, "reply", path=I(0), ok=ok, msg=msg)
        self.replies.append((e, msg, ok))
        return fsmodels.io_result(ex, ok)

    def _short_hash(self, ex, st, args, dest_ty, func, where):
        h = fsmodels._deep(ex, st, args[0])
        return strv(fsmodels.SHORTHASH(*[x.t for x in h.f[:6]]))

    # ---- helpers over the effect trace
    def fs_effects(self):
        return [e for e in fsmodels.effects(self.ex) if e["call"] not in ("reply", "flush", "hash-finalize")]

    def before(self, e, call):
        return [x for x in fsmodels.effects(self.ex) if x["call"] == call and x["seq"] < e["seq"]]

    def after(self, e, call):
        return [x for x in fsmodels.effects(self.ex) if x["call"] == call and x["seq"] > e["seq"]]


def distinct_names(W, extra=()):
    """ASSUMED naming facts (the path constructors are otherwise uninterpreted): a name with a suffix appended, the
    parent of a name and the lock file are different files from the name itself, and suffixed siblings made with
    different texts are different files"""
    ex = W.ex
    lockp = PJ(W.LOCKDIR, lit_id("commit.lock"))
    facts = [PP(W.dst) != W.dst, lockp != W.dst, PP(W.dst) != lockp]
    sufs = set()
    for e in fsmodels.effects(ex):
        for k in ("path", "to"):
            t = e.get(k)
            if t is not None:
                t = simp(t)
                if z3.is_app(t) and t.decl().name() == "path_suffix":
                    sufs.add(t)
    sufs = list(sufs)
    for t in sufs:
        facts += [t != t.arg(0), t != lockp, t != PP(W.dst)]
    for i, a in enumerate(sufs):
        for b in sufs[i + 1:]:
            if a.arg(0).eq(b.arg(0)):
                facts.append(z3.Implies(a.arg(1) != b.arg(1), a != b))
    # a formatted text is never the literal staging suffix
    for t in sufs:
        if z3.is_app(t.arg(1)) and t.arg(1).decl().name() == "fmt_text":
            facts.append(t.arg(1) != lit_id(".copia-tmp"))
    ex.assumes += facts
    return ["path naming: name+suffix, parent(name) and the lock file are files different from the name; siblings with different suffix texts differ; "
            "a formatted conflict suffix is not the staging suffix (the client-supplied path is assumed not to be the hub's own lock file)"]


def make_witness(R, pid, what):
    """counterexample confirmation for handler obligations: (1) the scenario family run natively against the sequential
    reference semantics; (2) for ORDER goals, the real system-call order of a commit / conflict / delete observed with strace"""
    from . import hubnative

    def w(name, model, neg):
        oid = "%s/%s" % (pid, what)
        key = "%s/%s/%s" % (pid, what, name.split("=>")[0][:60])
        if what == "serve":
            p_ = hubnative.serve_prologue_check(R, oid, key)
            if p_["confirmed"]:
                return p_
            p_ = hubnative.serve_session_check(R, oid, key)
            if p_["confirmed"]:
                return p_
        only = {"handle_put": lambda c: c["op"] == "put", "handle_delete": lambda c: c["op"] == "delete", "handle_get": lambda c: c["op"] == "get"}.get(what)
        r = hubnative.conformance(R, pid, oid, key, only)
        if r["confirmed"]:
            return r
        o = hubnative.order_check(R, oid, key, what)
        if o["confirmed"]:
            return o
        if "joined-path" in name or "outside" in name or pid == "C11":
            x = hubnative.outside_check(R, oid, key, only)
            if x["confirmed"]:
                return x
            return {"confirmed": False, "detail": r["detail"] + "; " + o["detail"] + "; " + x["detail"]}
        return {"confirmed": False, "detail": r["detail"] + "; " + o["detail"]}
    return w


def _any(fs):
    fs = list(fs)
    return z3.Or(*fs) if fs else z3.BoolVal(False)


def _all(fs):
    fs = list(fs)
    return z3.And(*fs) if fs else z3.BoolVal(True)


def in_critical_section(W, e):
    """effect e happens after a successful lock of LOCKDIR/commit.lock and before an unlock on the same path"""
    lockp = PJ(W.LOCKDIR, lit_id("commit.lock"))
    locked = _any(z3.And(l["guard"], l["ok"], l["path"] == lockp) for l in W.before(e, "lock"))
    no_unlock_before = _all(z3.Not(u["guard"]) for u in W.before(e, "unlock"))
    unlocked_after = _any(z3.And(u["guard"], u["path"] == lockp) for u in W.after(e, "unlock"))
    return z3.Implies(e["guard"], z3.And(locked, no_unlock_before, unlocked_after))


def reply_is(W, ctx, variant):
    v = ctx.variant("Response", variant)
    return [(e, m, ok) for (e, m, ok) in W.replies], v


def expected_arg(ex):
    val, present, bs = sym_opt_hash(ex, "expected")
    return val, present, bs


# ----------------------------------------------------------------- handle_delete

def delete_obligations(ctx, R, prover, pid):
    ex = ctx.ex()
    W = World(ctx, ex)
    exp_val, exp_p, exp_b = expected_arg(ex)
    st = State()
    st.frames[0] = {"w": VStruct("RecordingWriter", [])}
    res = ex.exec_fn(ctx.fn(ex, "handle_delete"),
                     [VRef("val", val=pathv(W.ROOT)), VRef("val", val=pathv(W.LOCKDIR)), VRef("val", val=strv(W.REL)), exp_val,
                      VRef("place", 0, "w")], st)
    if res is None:
        raise Inconclusive("handle_delete never returns")
    ex.exit_guards.append(st.guard)
    ok = simp(res.discr == 0)
    R.assumptions += [a for a in distinct_names(W) if a not in R.assumptions]
    removes = [e for e in fsmodels.effects(ex) if e["call"] == "remove_file"]
    lockp = PJ(W.LOCKDIR, lit_id("commit.lock"))
    vE, vD = ctx.variant("Response", "Error"), ctx.variant("Response", "DeleteResult")
    goals = {}
    if pid in ("C11", "C03"):
        goals["refused-path=>no-file-system-request-and-an-error-reply"] = z3.Implies(
            W.refused, z3.And(_all(z3.Not(e["guard"]) for e in W.fs_effects()),
                              _all(z3.Implies(e["guard"], m.discr == vE) for e, m, _ in W.replies),
                              z3.Implies(ok, _any(e["guard"] for e, m, _ in W.replies))))
        goals["every-file-system-request-is-on-the-joined-path-or-the-lock-file"] = _all(
            z3.Implies(e["guard"], z3.Or(e["path"] == W.dst, e["path"] == lockp)) for e in W.fs_effects())
    if pid == "C03":
        conds = []
        for rm in removes:
            # the compare that allows the removal uses a hash read INSIDE the same critical section, before the removal
            ok_reads = [z3.And(e["guard"], e["path"] == W.dst, opt_eq(p, b, exp_p, exp_b), in_critical_section(W, e))
                        for (e, p, b) in W.reads if e["seq"] < rm["seq"]]
            conds.append(z3.Implies(rm["guard"], z3.And(rm["path"] == W.dst, _any(ok_reads))))
            conds.append(in_critical_section(W, rm))
        goals["removal-only-when-current-hash-equals-expected,-read-and-removal-in-one-critical-section"] = _all(conds)
        goals["the-lock-file-is-only-opened,-locked-and-unlocked-(never-removed,-renamed-or-written)"] = _all(
            z3.Implies(z3.And(e["guard"], z3.Or(e["path"] == lockp, *([e["to"] == lockp] if "to" in e else []))), z3.BoolVal(e["call"] in ("open-options", "lock", "unlock")))
            for e in W.fs_effects())
        goals["at-most-one-removal-request"] = _all(z3.Not(z3.And(a["guard"], b["guard"])) for i, a in enumerate(removes) for b in removes[i + 1:])
        # reply tells the truth: deleted <=> a removal was requested <=> CAS equal; on conflict it carries the hash that was read
        rep = []
        for (e, m, _) in W.replies:
            if vD in m.pay:
                deleted, current = m.pay[vD][0], m.pay[vD][1]
                cur_is_read = _any(z3.And(re_["guard"], opt_eq(p, b, current.discr == 1, _opt_bytes(ex, current)))
                                   for (re_, p, b) in W.reads if re_["seq"] < e["seq"])
                cas_eq = _any(z3.And(re_["guard"], opt_eq(p, b, exp_p, exp_b)) for (re_, p, b) in W.reads if re_["seq"] < e["seq"])
                rep.append(z3.Implies(z3.And(e["guard"], m.discr == vD), z3.And(
                    deleted.t == _any(rm["guard"] for rm in removes if rm["seq"] < e["seq"]),
                    deleted.t == cas_eq,
                    z3.Implies(deleted.t, current.discr == 0),
                    z3.Implies(z3.Not(deleted.t), cur_is_read))))
        goals["reply-reports-the-decision-taken"] = _all(rep)
        goals["an-acknowledged-delete-really-happened-(the-removal-succeeded-or-the-path-was-already-absent)"] = _all(
            z3.Implies(z3.And(e["guard"], m.discr == vD, m.pay[vD][0].t),
                       _any(z3.And(rm["guard"], z3.Or(rm["ok"], rm["errkind"] == fsmodels.ERRKIND["NotFound"])) for rm in removes if rm["seq"] < e["seq"]))
            for (e, m, _) in W.replies if vD in m.pay)
        goals["accepted-path-and-working-lock=>a-DeleteResult-reply"] = z3.Implies(
            z3.And(z3.Not(W.refused), ok, _all(z3.Implies(rm["guard"], z3.Or(rm["ok"], rm["errkind"] == fsmodels.ERRKIND["NotFound"])) for rm in removes)),
            _any(z3.And(e["guard"], m.discr == vD) for e, m, _ in W.replies))
    covers = {"removal-reachable": _any(rm["guard"] for rm in removes), "conflict-reachable": z3.And(ok, z3.Not(_any(rm["guard"] for rm in removes)), z3.Not(W.refused))}
    prover.prove(ex, goals, "%s/handle_delete" % pid,
                 "one Delete request from an arbitrary state: any root/path names, any expected hash (absent or 32 arbitrary bytes), "
                 "any current hash, every file-system and stream operation may fail; sequential (no interleaving, no crash point)",
                 ["handle_delete", "handle_delete::{closure#0}", "with_commit_lock", "cas_decide"], make_witness(R, pid, "handle_delete"), covers=covers)


def _opt_bytes(ex, opt):
    if 1 in opt.pay:
        arr = opt.pay[1][0]
        while isinstance(arr, VRef):
            arr = arr.val
        return [x.t for x in arr.f]
    return [I(0)] * 32


# ----------------------------------------------------------------- handle_put

def _sum(ts):
    ts = list(ts)
    return simp(z3.Sum(ts)) if ts else I(0)


def put_obligations(ctx, R, prover, pid, ncap=3):
    ex = ctx.ex(K=ncap + 3, byte_cap=ncap)
    W = World(ctx, ex)
    W.install_hash_recorder()
    exp_val, exp_p, exp_b = expected_arg(ex)
    claimed, claimed_b = sym_hash(ex, "claimed")
    LEN = ex.fresh_int("put_len", ty="u64")
    WIRE = z3.Array("CONTENT", z3.IntSort(), z3.IntSort())
    N = ex.fresh_int("stream_len", lo=0, hi=ncap)
    for i in range(ncap):
        ex.assumes += [z3.Select(WIRE, i) >= 0, z3.Select(WIRE, i) <= 255]
    st = State()
    st.frames[0] = {"w": VStruct("RecordingWriter", []), "rd": patchmodels.cursor(VSeq(WIRE, I(0), N, "u8"))}
    res = ex.exec_fn(ctx.fn(ex, "handle_put"),
                     [VRef("val", val=pathv(W.ROOT)), VRef("val", val=pathv(W.LOCKDIR)), VRef("val", val=strv(W.REL)), exp_val,
                      VInt(LEN, "u64"), claimed, VRef("place", 0, "rd"), VRef("place", 0, "w")], st)
    if res is None:
        raise Inconclusive("handle_put never returns")
    ex.exit_guards.append(st.guard)
    ok = simp(res.discr == 0)
    R.assumptions += [a for a in distinct_names(W) if a not in R.assumptions]
    pos_after = st.frames[0]["rd"].f[1].t
    want_consumed = z3.If(LEN < N, LEN, N)
    eff = fsmodels.effects(ex)
    tmp = PS(W.dst, lit_id(".copia-tmp"))
    lockp = PJ(W.LOCKDIR, lit_id("commit.lock"))
    creates = [e for e in eff if e["call"] in ("create", "open", "open-options") and e["path"] is not None]
    writes = [e for e in eff if e["call"] == "write"]
    syncs = [e for e in eff if e["call"] == "sync_all"]
    renames = [e for e in eff if e["call"] == "rename"]
    removes = [e for e in eff if e["call"] == "remove_file"]
    vE, vP = ctx.variant("Response", "Error"), ctx.variant("Response", "PutResult")
    # the hash(es) the code computed
    if not W.finals:
        raise Inconclusive("handle_put never finalises a hash")

    def h_match(h):
        return z3.And(*[o == c for o, c in zip(h["out"], claimed_b)])

    def h_stream_ok(h):
        sq = h["stream"]
        return z3.And(sq.len == want_consumed, *[z3.Implies(k < sq.len, sq.at(I(k)) == z3.Select(WIRE, k)) for k in range(ncap)])
    hash_matches = _any(z3.And(h["guard"], h_match(h)) for h in W.finals)
    hash_differs = _any(z3.And(h["guard"], z3.Not(h_match(h))) for h in W.finals)
    goals = {}
    # ---- C12: the stream stays in step
    if pid in ("C12", "C10"):
        goals["Ok=>exactly-min(len,available)-content-bytes-consumed"] = z3.Implies(ok, pos_after == want_consumed)
    # ---- C11: nothing outside the joined path
    conflict_targets = [r for r in renames]
    if pid in ("C11", "C10", "C03"):
        goals["refused-path=>no-file-system-request,-an-error-reply,-content-drained"] = z3.Implies(
            W.refused, z3.And(_all(z3.Not(e["guard"]) for e in W.fs_effects()),
                              _all(z3.Implies(e["guard"], m.discr == vE) for e, m, _ in W.replies),
                              z3.Implies(ok, z3.And(pos_after == want_consumed, _any(e["guard"] for e, m, _ in W.replies)))))
        allowed = lambda p: z3.Or(p == W.dst, p == tmp, p == PP(W.dst), p == lockp)
        conds = []
        for e in W.fs_effects():
            if e["call"] == "rename":
                conds.append(z3.Implies(e["guard"], z3.And(e["path"] == tmp, z3.Or(e["to"] == W.dst, _is_conflict_name(e["to"], W.dst, claimed_b)))))
            else:
                conds.append(z3.Implies(e["guard"], allowed(e["path"])))
        goals["every-file-system-request-is-on-the-joined-path,-its-staging/conflict-sibling,-its-parent-or-the-lock-file"] = _all(conds)
    # ---- C10: only complete, hash-verified bytes reach a served path, and only by rename
    if pid == "C10":
        goals["the-staging-file-is-opened-truncating-(no-bytes-of-an-earlier,-unverified-write-survive-in-it)"] = _all(
            z3.Implies(z3.And(e["guard"], e["path"] == tmp), z3.And(e["flags"]["truncate"], e["flags"]["write"], z3.Not(e["flags"]["append"])))
            for e in creates if "flags" in e)
        goals["content-is-written-only-to-the-staging-file"] = z3.And(
            _all(z3.Implies(e["guard"], e["path"] == tmp) for e in writes),
            _all(z3.Implies(e["guard"], z3.Or(e["path"] == tmp, e["path"] == lockp)) for e in creates))
        # written stream == hashed stream == the first min(len, N) bytes of the content
        offs, conds = I(0), []
        for e in writes:
            b = e["bytes"]
            conds.append(z3.Implies(e["guard"], z3.And(*[z3.Implies(k < b.len, b.at(I(k)) == z3.Select(WIRE, offs + k)) for k in range(ncap)])))
            offs = simp(offs + z3.If(e["guard"], b.len, 0))
        pub = [r for r in renames]
        written_total = offs
        goals["bytes-written-to-staging-are-the-streamed-content-in-order"] = _all(conds)
        def _pub(name, f):
            goals[name] = _all(z3.Implies(r["guard"], f(r)) for r in pub)
        _pub("rename=>source-is-the-staging-file", lambda r: r["path"] == tmp)
        _pub("rename=>every-consumed-byte-was-written", lambda r: written_total == want_consumed)
        _pub("rename=>the-stream-delivered-exactly-the-declared-length", lambda r: want_consumed == LEN)
        _pub("rename=>the-hashed-stream-is-the-whole-consumed-content-and-its-hash-equals-the-claim", lambda r: _any(
            z3.And(h["guard"], h_stream_ok(h), h_match(h)) for h in W.finals if h["seq"] < r["seq"]))
        _pub("rename=>all-writes-succeeded-and-came-first;-staging-file-synced-before", lambda r: z3.And(
            _all(z3.Implies(w_["guard"], z3.And(w_["ok"], z3.BoolVal(w_["seq"] < r["seq"]))) for w_ in writes),
            _any(z3.And(s_["guard"], s_["ok"], s_["path"] == tmp) for s_ in syncs if s_["seq"] < r["seq"])))
        goals["hash-mismatch=>staging-removed,-error-reply,-no-rename"] = z3.Implies(
            z3.And(ok, hash_differs),
            z3.And(_any(z3.And(e["guard"], e["path"] == tmp) for e in removes), _all(z3.Not(r["guard"]) for r in renames),
                   _any(z3.And(e["guard"], m.discr == vE) for e, m, _ in W.replies),
                   _all(z3.Implies(e["guard"], m.discr == vE) for e, m, _ in W.replies)))
        goals["no-removal-of-anything-but-the-staging-file"] = _all(z3.Implies(e["guard"], e["path"] == tmp) for e in removes)
    # ---- C03: compare-and-swap step
    if pid == "C03":
        conds = []
        commit_renames, conflict_renames = [], []
        for r in renames:
            eq_reads = [z3.And(e["guard"], e["path"] == W.dst, opt_eq(p, b, exp_p, exp_b), in_critical_section(W, e))
                        for (e, p, b) in W.reads if e["seq"] < r["seq"]]
            ne_reads = [z3.And(e["guard"], e["path"] == W.dst, z3.Not(opt_eq(p, b, exp_p, exp_b)), in_critical_section(W, e))
                        for (e, p, b) in W.reads if e["seq"] < r["seq"]]
            conds.append(in_critical_section(W, r))
            conds.append(z3.Implies(z3.And(r["guard"], r["to"] == W.dst), _any(eq_reads)))
            conds.append(z3.Implies(z3.And(r["guard"], r["to"] != W.dst), z3.And(_any(ne_reads), _is_conflict_name(r["to"], W.dst, claimed_b))))
        goals["live-path-replaced-only-when-current==expected;-otherwise-the-bytes-go-to-a-conflict-sibling;-both-inside-the-critical-section-that-read-the-hash"] = _all(conds)
        goals["the-lock-file-is-only-opened,-locked-and-unlocked-(never-removed,-renamed-or-written)"] = _all(
            z3.Implies(z3.And(e["guard"], z3.Or(e["path"] == lockp, *([e["to"] == lockp] if "to" in e else []))), z3.BoolVal(e["call"] in ("open-options", "lock", "unlock")))
            for e in W.fs_effects())
        goals["at-most-one-rename"] = _all(z3.Not(z3.And(a["guard"], b["guard"])) for i, a in enumerate(renames) for b in renames[i + 1:])
        goals["no-other-request-touches-the-live-path"] = _all(
            z3.Implies(z3.And(e["guard"], e["path"] == W.dst), False) for e in W.fs_effects()
            if e["call"] not in ("read-current-hash", "rename"))
        rep = []
        for (e, m, _) in W.replies:
            if vP in m.pay:
                committed, current = m.pay[vP][0], m.pay[vP][1]
                cas_eq = _any(z3.And(re_["guard"], opt_eq(p, b, exp_p, exp_b)) for (re_, p, b) in W.reads if re_["seq"] < e["seq"])
                cur_is_read = _any(z3.And(re_["guard"], opt_eq(p, b, current.discr == 1, _opt_bytes(ex, current)))
                                   for (re_, p, b) in W.reads if re_["seq"] < e["seq"])
                cur_is_claim = z3.And(current.discr == 1, *[x == y for x, y in zip(_opt_bytes(ex, current), claimed_b)])
                rep.append(z3.Implies(z3.And(e["guard"], m.discr == vP), z3.And(
                    committed.t == cas_eq,
                    committed.t == _any(z3.And(r["guard"], r["to"] == W.dst) for r in renames if r["seq"] < e["seq"]),
                    z3.Implies(committed.t, cur_is_claim), z3.Implies(z3.Not(committed.t), cur_is_read))))
        goals["reply-reports-the-decision-taken"] = _all(rep)
        ack = []
        for (e, m, _) in W.replies:
            if vP in m.pay:
                committed = m.pay[vP][0]
                ack.append(z3.Implies(z3.And(e["guard"], m.discr == vP, committed.t),
                                      _any(z3.And(r["guard"], r["ok"], r["to"] == W.dst) for r in renames if r["seq"] < e["seq"])))
                ack.append(z3.Implies(z3.And(e["guard"], m.discr == vP, z3.Not(committed.t)),
                                      _any(z3.And(r["guard"], r["ok"], r["to"] != W.dst) for r in renames if r["seq"] < e["seq"])))
        goals["an-acknowledged-commit-/-conflict-copy-really-happened-(the-rename-succeeded)"] = _all(ack)
        goals["verified-content,-accepted-path,-no-I/O-failure=>a-PutResult-reply"] = z3.Implies(
            z3.And(ok, z3.Not(W.refused), hash_matches, _all(z3.Implies(r["guard"], r["ok"]) for r in renames)),
            _any(z3.And(e["guard"], m.discr == vP) for e, m, _ in W.replies))
    covers = {"commit-reachable": _any(z3.And(r["guard"], r["to"] == W.dst) for r in renames),
              "conflict-reachable": _any(z3.And(r["guard"], r["to"] != W.dst) for r in renames),
              "mismatch-reachable": z3.And(ok, hash_differs),
              "refusal-reachable": z3.And(ok, W.refused)}
    prover.prove(ex, goals, "%s/handle_put" % pid,
                 "one Put request from an arbitrary state: any names, any declared length (u64), any claimed / expected / current hash, "
                 "a content stream of 0..%d symbolic bytes delivered in arbitrary pieces (short reads), every file-system and stream "
                 "operation may fail; BLAKE3 = 32 uninterpreted functions of the content; sequential (no interleaving, no crash point)" % ncap,
                 ["handle_put", "handle_put::{closure#0}", "with_commit_lock", "cas_decide", "tmp_of"], make_witness(R, pid, "handle_put"), covers=covers)


def _is_conflict_name(to, dst, claimed_b):
    """to == suffix(dst, format(<template>, short_hash(claimed), _)) for the template the code uses"""
    t = simp(to)
    if z3.is_app(t) and t.decl().name() == "path_suffix" and t.num_args() == 2:
        base, text = t.arg(0), t.arg(1)
        if z3.is_app(text) and text.decl().name() == "fmt_text":
            tid = text.arg(0)
            want = PS(dst, fsmodels.FMT(tid, fsmodels.SHORTHASH(*list(claimed_b[:6])), I(0)))
            tmpl = fsmodels.lit_name(tid.as_long()) if z3.is_int_value(tid) else None
            okform = tmpl is not None and tmpl.startswith("tmpl:")
            return z3.And(to == want, z3.BoolVal(bool(okform)))
    # not syntactically a formatted suffix of something: compare with every formatted suffix of dst is impossible -> false
    return z3.BoolVal(False)


# ----------------------------------------------------------------- handle_get

def get_obligations(ctx, R, prover, pid):
    ex = ctx.ex()
    W = World(ctx, ex)
    st = State()
    st.frames[0] = {"w": VStruct("RecordingWriter", [])}
    res = ex.exec_fn(ctx.fn(ex, "handle_get"), [VRef("val", val=pathv(W.ROOT)), VRef("val", val=strv(W.REL)), VRef("place", 0, "w")], st)
    if res is None:
        raise Inconclusive("handle_get never returns")
    ex.exit_guards.append(st.guard)
    ok = simp(res.discr == 0)
    R.assumptions += [a for a in distinct_names(W) if a not in R.assumptions]
    eff = fsmodels.effects(ex)
    vE, vC = ctx.variant("Response", "Error"), ctx.variant("Response", "Content")
    metas = [e for e in eff if e["call"] == "metadata"]
    streams = [e for e in eff if e["call"] == "stream-to-writer"]
    goals = {
        "refused-path=>no-file-system-request-and-an-error-reply": z3.Implies(
            W.refused, z3.And(_all(z3.Not(e["guard"]) for e in W.fs_effects()),
                              _all(z3.Implies(e["guard"], m.discr == vE) for e, m, _ in W.replies),
                              z3.Implies(ok, _any(e["guard"] for e, m, _ in W.replies)))),
        "only-read-requests,-only-on-the-joined-path": _all(
            z3.Implies(e["guard"], z3.And(e["path"] == W.dst, z3.BoolVal(e["call"] in ("metadata", "read-current-hash", "open", "stream-to-writer"))))
            for e in W.fs_effects()),
    }
    if pid == "C10":
        rep = []
        for (e, m, _) in W.replies:
            if vC in m.pay:
                ln, hs = m.pay[vC][0], m.pay[vC][1]
                hb = [x.t for x in fsmodels._deep(ex, st, hs).f]
                rep.append(z3.Implies(z3.And(e["guard"], m.discr == vC), z3.And(
                    _any(z3.And(me["guard"], me["ok"], me["len"] == ln.t) for me in metas if me["seq"] < e["seq"]),
                    _any(z3.And(re_["guard"], p, *[x == y for x, y in zip(b, hb)]) for (re_, p, b) in W.reads if re_["seq"] < e["seq"]))))
        goals["a-Content-reply-announces-the-length-and-hash-that-were-read"] = _all(rep)
        goals["content-is-streamed-only-after-a-Content-reply,-from-the-joined-path"] = _all(
            z3.Implies(s_["guard"], z3.And(s_["path"] == W.dst, _any(z3.And(e["guard"], ok_, m.discr == vC) for e, m, ok_ in W.replies if e["seq"] < s_["seq"])))
            for s_ in streams)
        goals["missing-file=>an-error-reply-and-nothing-streamed"] = z3.Implies(
            z3.And(ok, z3.Not(W.refused), z3.Or(_any(z3.And(me["guard"], z3.Not(me["ok"])) for me in metas), _any(z3.And(re_["guard"], z3.Not(p)) for (re_, p, b) in W.reads))),
            z3.And(_all(z3.Not(s_["guard"]) for s_ in streams), _all(z3.Implies(e["guard"], m.discr == vE) for e, m, _ in W.replies)))
    prover.prove(ex, goals, "%s/handle_get" % pid,
                 "one Get request from an arbitrary state: any names, any metadata / hash read outcome, every operation may fail; sequential",
                 ["handle_get"], make_witness(R, pid, "handle_get"), covers={"content-reachable": _any(z3.And(e["guard"], m.discr == vC) for e, m, _ in W.replies)})


# ----------------------------------------------------------------- wire framing (C12)

def _install_frame_models(ex):
    import re as _re

    def from_elem(ex_, st, args, dest_ty, func, where):
        codecmodels.effects(ex_).append({"guard": st.guard, "call": "alloc", "size": args[1].t, "what": "vec![0u8; n]", "seq": len(codecmodels.effects(ex_))})
        return patchmodels._from_elem(ex_, st, args, dest_ty, func, where)

    def cbor_decode(ex_, st, args, dest_ty, func, where):
        s = codecmodels.as_seq(ex_, st, args[0])
        okd = ex_.fresh_bool("cbor_decode_ok")
        codecmodels.effects(ex_).append({"guard": st.guard, "call": "cbor-decode", "bytes": s, "ok": okd, "seq": len(codecmodels.effects(ex_))})
        return VEnum("Result", simp(z3.If(okd, I(0), I(1))), {0: [VOpaque("decoded message")], 1: [VOpaque("ciborium::de::Error")]})

    def cbor_encode(ex_, st, args, dest_ty, func, where):
        oke = ex_.fresh_bool("cbor_encode_ok")
        ln = ex_.fresh_int("encoded_len", lo=0, hi=(1 << 40))
        arr = z3.Array("ENC", z3.IntSort(), z3.IntSort())
        ex_.inputs = getattr(ex_, "inputs", {})
        ex_.inputs["encode"] = (oke, ln, arr)
        ref = args[1]
        inner = ex_.deref(st, ref)
        tgt = ref
        if isinstance(inner, VRef):
            tgt = inner
        # the writer is an (empty) Vec<u8>: on success it holds the encoding; on failure its content is unspecified
        ex_.store_ref(st, tgt, VSeq(arr, I(0), simp(z3.If(oke, ln, ex_.fresh_int("partial_len", lo=0, hi=(1 << 40)))), "u8"))
        return VEnum("Result", simp(z3.If(oke, I(0), I(1))), {0: [UNIT], 1: [VOpaque("ciborium::ser::Error")]})

    def err_kind(ex_, st, args, dest_ty, func, where):
        e = fsmodels._deep(ex_, st, args[0])
        eof = isinstance(e, VOpaque) and "UnexpectedEof" in str(e.what)
        return VStruct("ErrorKind", [VBool(z3.BoolVal(bool(eof)))])

    def kind_eq(ex_, st, args, dest_ty, func, where):
        a, b = fsmodels._deep(ex_, st, args[0]), fsmodels._deep(ex_, st, args[1])

        def is_eof(v):
            if isinstance(v, VStruct) and v.name == "ErrorKind":
                return v.f[0].t
            return z3.BoolVal("UnexpectedEof" in str(getattr(v, "what", v)))
        return VBool(simp(is_eof(a) == is_eof(b)))
    ex.models = [(_re.compile(r"^(std|alloc)::vec::from_elem::<u8>$"), from_elem, "vec![0u8; n] (allocation request recorded)"),
                 (_re.compile(r"^ciborium::(de::)?from_reader::<"), cbor_decode, "ciborium::from_reader (CONTRACT: arbitrary result on exactly the slice it is given)"),
                 (_re.compile(r"^(ciborium::(ser::)?)?into_writer::<"), cbor_encode, "ciborium::into_writer (CONTRACT: arbitrary encoding of any length, or an error)"),
                 (_re.compile(r"^std::io::Error::kind$"), err_kind, "io::Error::kind (in-memory reader: UnexpectedEof is the only failure)"),
                 (_re.compile(r"^<std::io::ErrorKind as PartialEq>::eq$"), kind_eq, "ErrorKind == (UnexpectedEof vs anything else)"),
                 ] + ex.models


def frame_obligations(ctx, R, prover, pid="C12"):
    # ---- read_frame
    ex = ctx.ex()
    _install_frame_models(ex)
    data = z3.Array("WIRE", z3.IntSort(), z3.IntSort())
    N = ex.fresh_int("wire_len", lo=0, hi=(1 << 40))
    for i in range(4):
        ex.assumes += [z3.Select(data, i) >= 0, z3.Select(data, i) <= 255]
    st = State()
    st.frames[0] = {"rd": patchmodels.cursor(VSeq(data, I(0), N, "u8"))}
    res = ex.exec_fn(ctx.fn(ex, "read_frame"), [VRef("place", 0, "rd")], st)
    if res is None:
        raise Inconclusive("read_frame never returns")
    ex.exit_guards.append(st.guard)
    eff = codecmodels.effects(ex)
    b = [z3.Select(data, i) for i in range(4)]
    be = b[3] + 256 * b[2] + 65536 * b[1] + 16777216 * b[0]
    ok = simp(res.discr == 0)
    some = z3.And(ok, res.pay[0][0].discr == 1) if 0 in res.pay else z3.BoolVal(False)
    nonev = z3.And(ok, res.pay[0][0].discr == 0) if 0 in res.pay else z3.BoolVal(False)
    allocs = [e for e in eff if e["call"] == "alloc"]
    decs = [e for e in eff if e["call"] == "cbor-decode"]
    pos_after = st.frames[0]["rd"].f[1].t
    goals = {
        "no-allocation-request-above-1MiB": _all(z3.Implies(e["guard"], e["size"] <= MAX_FRAME) for e in allocs),
        "oversize-prefix-is-an-error-before-any-allocation": z3.Implies(z3.And(N >= 4, be > MAX_FRAME), z3.And(z3.Not(ok), _all(z3.Not(e["guard"]) for e in allocs))),
        "end-of-input-at-a-frame-boundary-is-None": z3.Implies(N == 0, nonev),
        "a-message-is-returned-only-for-a-complete-frame,-decoded-from-exactly-its-payload,-leaving-the-stream-at-the-next-frame": z3.Implies(
            some, z3.And(N >= 4, be <= MAX_FRAME, N >= 4 + be, pos_after == 4 + be,
                         _any(z3.And(e["guard"], e["ok"], e["bytes"].len == be, simp(e["bytes"].off) == 4, e["bytes"].arr == data) for e in decs))),
        "complete-frame=>decoded-exactly-once;-result-follows-the-decoder;-stream-in-step-even-when-decoding-fails": z3.Implies(
            z3.And(N >= 4, be <= MAX_FRAME, N >= 4 + be),
            z3.And(pos_after == 4 + be, _any(z3.And(e["guard"], e["ok"] == some, z3.Not(nonev)) for e in decs))),
        "truncated-frame-is-not-a-message": z3.Implies(z3.And(N >= 4, be <= MAX_FRAME, N < 4 + be), z3.Not(ok)),
        "short-prefix-is-not-a-message": z3.Implies(N < 4, z3.Not(some)),
    }
    def rf_witness(name, model, neg):
        from . import hubnative
        pre = [model_int(model, x) % 256 for x in b]
        n = model_int(model, N)
        declared = int.from_bytes(bytes(pre), "big")
        fam = []
        if n < 4:
            fam.append({"fn": "frame_read", "prefix": pre[:n], "body_len": 0})
        for body in sorted({max(0, min(n - 4, 1 << 16)), min(declared, 1 << 16), 0}):
            for chunk in (1 << 20, 3):
                fam.append({"fn": "frame_read", "prefix": pre, "body_len": body, "fill": 0xf6, "chunk": chunk})
        for slack in (1, 64):
            fam.append({"fn": "frame_read", "what": "inflated", "slack": slack, "prefix": [], "body_len": 0})
        fam.append({"fn": "frame_roundtrip", "chunk": 1})
        fam.append({"fn": "frame_roundtrip", "chunk": 5})
        # end of input inside the 4-byte prefix / inside the body: must return (None or an error), not spin
        for cut in (1, 2, 3):
            fam.insert(0, {"fn": "frame_read", "prefix": [0, 0, 0, 9][:cut], "body_len": 0})
        for case in fam:
            res_n = {p: hubnative.run_cases([case], p, timeout=20)[0] for p in ("dev", "release")}
            bad = {}
            for p, r in res_n.items():
                if "hang" in r:
                    bad[p] = "read_frame does not return after its input is closed (%s)" % r["hang"]
                elif "panic" in r or "crash" in r:
                    bad[p] = "panic: %s" % str(r)[:160]
                elif case.get("what") == "inflated":
                    if str(r.get("result", "")).startswith("Some"):
                        bad[p] = "a frame whose prefix announces %d more bytes than arrive before EOF was DECODED AND RETURNED: %s" % (case["slack"], r["result"][:80])
                elif case["fn"] == "frame_roundtrip":
                    if not r.get("equal"):
                        bad[p] = "frames written by write_frame are not read back: %s" % r.get("mismatches")
                else:
                    wl = r.get("wire_len", 0)
                    dec = int.from_bytes(bytes(case["prefix"][:4]), "big") if len(case["prefix"]) >= 4 else None
                    if r.get("max_alloc", 0) > MAX_FRAME + 65536:
                        bad[p] = "allocation request of %d bytes (> 1 MiB) for a %d-byte input" % (r["max_alloc"], wl)
                    elif dec is not None and dec > MAX_FRAME and not r["result"].startswith("Err"):
                        bad[p] = "oversize prefix %d accepted: %s" % (dec, r["result"][:60])
                    elif dec is not None and dec <= MAX_FRAME and wl >= 4 + dec and r.get("consumed") != 4 + dec:
                        bad[p] = "consumed %s bytes of a complete %d-byte frame" % (r.get("consumed"), 4 + dec)
                    elif dec is not None and dec <= MAX_FRAME and wl < 4 + dec and r["result"].startswith("Some"):
                        bad[p] = "a truncated frame produced a message"
                    elif wl == 0 and r["result"] != "None":
                        bad[p] = "empty input is %s, not None" % r["result"][:60]
            if bad:
                case = dict(case)
                case["observed"] = res_n
                return {"confirmed": True, "replay_path": R.save_replay("%s/read_frame" % pid, case), "key": "%s/read_frame/%s" % (pid, "alloc" if any("alloc" in v for v in bad.values()) else "framing"),
                        "detail": "read_frame on prefix %s + %d body bytes: native %s" % (case.get("prefix"), case.get("body_len", 0), bad)}
        return {"confirmed": False, "detail": "native read_frame behaves as specified on the hostile frame family behind prefix %s" % pre}

    prover.prove(ex, goals, "%s/read_frame" % pid,
                 "ANY wire input (length up to 2^40, all 2^32 length prefixes); the CBOR decoder is an arbitrary function of the slice it is given",
                 ["read_frame"], rf_witness, covers={"message-reachable": some, "oversize-reachable": z3.And(z3.Not(ok), N >= 4, be > MAX_FRAME)})
    # ---- read_magic
    ex = ctx.ex()
    _install_frame_models(ex)
    data = z3.Array("WIRE", z3.IntSort(), z3.IntSort())
    N = ex.fresh_int("wire_len", lo=0, hi=(1 << 40))
    for i in range(6):
        ex.assumes += [z3.Select(data, i) >= 0, z3.Select(data, i) <= 255]
    st = State()
    st.frames[0] = {"rd": patchmodels.cursor(VSeq(data, I(0), N, "u8"))}
    res = ex.exec_fn(ctx.fn(ex, "read_magic"), [VRef("place", 0, "rd")], st)
    if res is None:
        raise Inconclusive("read_magic never returns")
    ex.exit_guards.append(st.guard)
    ok = simp(res.discr == 0)
    is_magic = z3.And(*[z3.Select(data, i) == c for i, c in enumerate(b"COPIA1")])
    val = res.pay[0][0].t if 0 in res.pay else z3.BoolVal(False)
    goals = {
        "true-exactly-for-the-6-byte-prologue-COPIA1": z3.Implies(ok, z3.And(N >= 6, val == is_magic, st.frames[0]["rd"].f[1].t == 6)),
        "short-input-is-an-error": z3.Implies(N < 6, z3.Not(ok)),
    }
    def rm_witness(name, model, neg):
        from . import hubnative
        pre = [model_int(model, z3.Select(data, i)) % 256 for i in range(6)]
        n = min(model_int(model, N), 6)
        fam = [{"fn": "frame_read", "what": "magic", "prefix": pre[:n] if n < 6 else pre, "body_len": 0, "chunk": c} for c in (1 << 20, 1)]
        fam += [{"fn": "frame_read", "what": "magic", "prefix": list(b"COPIA1"), "body_len": 2, "chunk": 2}]
        for case in fam:
            res_n = {p: hubnative.run_cases([case], p)[0] for p in ("dev", "release")}
            want = "Ok(true)" if bytes(case["prefix"]) == b"COPIA1" else ("Ok(false)" if len(case["prefix"]) >= 6 else "Err")
            bad = {p: r for p, r in res_n.items() if "panic" in r or not str(r.get("result", "")).startswith(want) or (want.startswith("Ok") and r.get("consumed") != 6)}
            if bad:
                case = dict(case)
                case["observed"] = res_n
                return {"confirmed": True, "replay_path": R.save_replay("%s/read_magic" % pid, case), "key": "%s/read_magic" % pid,
                        "detail": "read_magic(%s): native %s, expected %s" % (bytes(case["prefix"]), json.dumps(bad)[:200], want)}
        return {"confirmed": False, "detail": "native read_magic behaves as specified"}

    prover.prove(ex, goals, "%s/read_magic" % pid, "ANY wire input (length up to 2^40, all 2^48 prefixes)", ["read_magic"], rm_witness,
                 covers={"accept-reachable": z3.And(ok, val)})
    # ---- write_frame
    ex = ctx.ex()
    _install_frame_models(ex)
    st = State()
    st.frames[0] = {"w": VStruct("RecordingWriter", []), "m": VOpaque("message")}
    res = ex.exec_fn(ctx.fn(ex, "write_frame"), [VRef("place", 0, "w"), VRef("place", 0, "m")], st)
    if res is None:
        raise Inconclusive("write_frame never returns")
    ex.exit_guards.append(st.guard)
    ok = simp(res.discr == 0)
    enc_ok, L, ENC = ex.inputs["encode"]
    writes = [e for e in codecmodels.effects(ex) if e["call"] == "write_all"]
    flushes = [e for e in codecmodels.effects(ex) if e["call"] == "flush"]
    goals = {"Ok=>encodable-and-at-most-1MiB": z3.Implies(ok, z3.And(enc_ok, L <= MAX_FRAME)),
             "too-large-or-unencodable=>error-and-nothing-written": z3.Implies(z3.Or(z3.Not(enc_ok), L > MAX_FRAME), z3.And(z3.Not(ok), _all(z3.Not(e["guard"]) for e in writes)))}
    if len(writes) == 2:
        h, p = writes[0]["bytes"], writes[1]["bytes"]
        hb = [h.at(I(i)) for i in range(4)]
        goals["Ok=>big-endian-length-prefix-then-exactly-the-encoding"] = z3.Implies(ok, z3.And(
            writes[0]["guard"], writes[1]["guard"], h.len == 4, hb[3] + 256 * hb[2] + 65536 * hb[1] + 16777216 * hb[0] == L,
            p.len == L, simp(p.off) == 0, p.arr == ENC))
    else:
        goals["exactly-two-writes(prefix,payload)"] = z3.BoolVal(False)
    prover.prove(ex, goals, "%s/write_frame" % pid, "any message; the CBOR encoder yields an arbitrary byte string of any length, or an error; writer records what it is given (and may not fail)",
                 ["write_frame"], rf_witness, covers={"ok-reachable": ok})


# ----------------------------------------------------------------- safe_join (C11): the path guard itself, on strings

SJ_ALPHABET = "a./\\"      # a plain letter, the two characters std::path gives meaning to on Unix, and one it does not (a backslash is an ordinary name byte)


def _install_unix_path_models(ex, cap):
    """std::path on Unix, on strings of at most `cap` chars (VSeq of chars):
       is_absolute  = starts with '/'
       components() = [RootDir if it starts with '/'] ++ for each non-empty '/'-separated piece:
                      '..' -> ParentDir, '.' -> CurDir only as the very first component of a relative path (otherwise
                      skipped), anything else -> Normal(piece)
    (validated every run against the native std implementation through the real safe_join)"""
    import re as _re
    from mirsmt.stdmodels import COMPONENT, _str_of
    from mirsmt import textmodels
    SL, DOT = ord("/"), ord(".")
    ex.enums.setdefault("Component", dict(COMPONENT))

    def replace_char(ex_, st, args, dest_ty, func, where):
        s_, to = _str_of(ex_, st, args[0]), _str_of(ex_, st, args[2])
        return VStruct("String", [textmodels.replace_char(ex_, s_, args[1].t, to, cap, where, st)])
    ex.models.insert(0, (_re.compile(r"^(std|alloc)::str::<impl str>::replace::<char>$"), replace_char, "str::replace(char, &str) on a bounded symbolic string"))

    def path_new(ex_, st, args, dest_ty, func, where):
        return VRef("val", val=_str_of(ex_, st, args[0]))

    def is_abs(ex_, st, args, dest_ty, func, where):
        s = _str_of(ex_, st, args[0])
        return VBool(simp(z3.And(s.len > 0, s.at(I(0)) == SL)))

    def comps(ex_, st, args, dest_ty, func, where):
        s = _str_of(ex_, st, args[0])
        ex_.oblig("model-bound", where, "path longer than the model capacity %d" % cap, z3.And(st.guard, s.len > cap))
        return VStruct("ComponentsU", [s, VInt(I(0), "usize"), VBool(z3.BoolVal(True))])

    def nxt(ex_, st, args, dest_ty, func, where):
        ref = args[0]
        it = ex_.deref(st, ref)
        s, pos, front = it.f[0], it.f[1].t, it.f[2].t
        ch = lambda j: s.at(I(j))

        def is_start(j):
            return z3.And(j < s.len, ch(j) != SL, (z3.BoolVal(True) if j == 0 else ch(j - 1) == SL))

        def piece_is(j, text):
            n = len(text)
            return z3.And(is_start(j), *[z3.And(j + k < s.len, ch(j + k) == ord(c)) for k, c in enumerate(text)],
                          z3.Or(j + n == s.len, z3.And(j + n < s.len, ch(j + n) == SL)))
        has_root = z3.And(s.len > 0, ch(0) == SL)
        lead_dot = z3.And(z3.Not(has_root), piece_is(0, "."))
        # next real piece at or after pos: a start that is not a '.' piece
        start = s.len
        for j in reversed(range(cap)):
            start = z3.If(z3.And(j >= pos, is_start(j), z3.Not(piece_is(j, "."))), I(j), start)
        start = simp(start)
        end = s.len
        for j in reversed(range(cap)):
            end = z3.If(z3.And(j > start, j < s.len, ch(j) == SL), I(j), end)
        end = simp(end)
        has_piece = simp(start < s.len)
        is_parent = z3.Or(*[z3.And(start == j, piece_is(j, "..")) for j in range(cap)]) if cap else z3.BoolVal(False)
        first_root = z3.And(front, has_root)
        first_cur = z3.And(front, lead_dot)
        has = simp(z3.Or(first_root, first_cur, has_piece))
        kind = simp(z3.If(first_root, I(COMPONENT["RootDir"]), z3.If(first_cur, I(COMPONENT["CurDir"]),
                    z3.If(is_parent, I(COMPONENT["ParentDir"]), I(COMPONENT["Normal"])))))
        newpos = simp(z3.If(first_root, pos, z3.If(first_cur, I(1), z3.If(has_piece, end, s.len))))
        ex_.store_ref(st, ref, VStruct("ComponentsU", [s, VInt(newpos, "usize"), VBool(z3.BoolVal(False))]))
        piece = VRef("val", val=VSeq(s.arr, simp(s.off + start), simp(end - start), s.elem))
        item = VEnum("Component", kind, {COMPONENT["Prefix"]: [VOpaque("prefix")], COMPONENT["RootDir"]: [], COMPONENT["CurDir"]: [],
                                         COMPONENT["ParentDir"]: [], COMPONENT["Normal"]: [piece]})
        return opt_sym(has, item)

    def join(ex_, st, args, dest_ty, func, where):
        return VStruct("Joined", [fsmodels._deep(ex_, st, args[0]), _str_of(ex_, st, args[1])])

    def ident(ex_, st, args, dest_ty, func, where):
        return args[0]
    ex.models = [(_re.compile(r"^Path::new::<(str|(std::string::)?String)>$"), path_new, "Path::new (the same characters)"),
                 (_re.compile(r"^Path::is_absolute$"), is_abs, "Path::is_absolute (Unix: starts with '/')"),
                 (_re.compile(r"^Path::components$"), comps, "Path::components (Unix definition, bounded length)"),
                 (_re.compile(r"^<Components<'_> as IntoIterator>::into_iter$"), ident, "Components::into_iter"),
                 (_re.compile(r"^<(std::path::)?Components<'_> as Iterator>::next$"), nxt, "Components::next (Unix definition)"),
                 (_re.compile(r"^Path::join::<"), join, "Path::join (recorded)"),
                 ] + ex.models


def _sj_run(ctx, ex, s_val):
    st = State()
    res = ex.exec_fn(ctx.fn(ex, "safe_join"), [VRef("val", val=pathv(z3.Int("ROOT"))), VRef("val", val=s_val)], st)
    if res is None:
        raise Inconclusive("safe_join never returns")
    return res, st


def safe_join_obligation(ctx, R, prover, pid, maxlen):
    from .planlib import sym_str, lit_str
    # ---- validation of the path models + translation on concrete strings against the native safe_join
    import itertools
    from . import hubnative
    strs = [""] + ["".join(t) for n in range(1, 5) for t in itertools.product(SJ_ALPHABET, repeat=n)]
    strs += ["a/../b", "a/./..", "./..", ".../a", "a/...", "..a/b", "a/..b", "/..", "./a/..", "a//..//b"]
    nat = hubnative.run_cases([{"fn": "hub_step", "op": "safe_join", "path": s, "tree": {}} for s in strs], "dev")
    dis = []
    for s, r in zip(strs, nat):
        ex = ctx.ex(K=len(s) + 3)
        stdmodels.install_strings(ex, max(len(s), 1))
        _install_unix_path_models(ex, max(len(s), 1))
        res, st = _sj_run(ctx, ex, lit_str(s))
        got_none = z3.is_true(simp(res.discr == 0))
        if got_none != (r.get("result") is None):
            dis.append((s, "model: %s native: %s" % ("None" if got_none else "Some", r.get("result"))))
    R.validation["cases"] += len(strs)
    R.validation["disagreements"] += len(dis)
    R.validation["samples"] += dis[:3]
    if dis:
        R.add("%s/safe_join/encoding" % pid, "inconclusive", detail="translator/model validation: %d/%d concrete paths disagree with the native safe_join: %s" % (len(dis), len(strs), dis[:3]))
        return
    # ---- the obligation
    ex = ctx.ex(K=maxlen + 3)
    stdmodels.install_strings(ex, maxlen)
    _install_unix_path_models(ex, maxlen)
    s_val, ln, cs = sym_str(ex, "rel", maxlen, SJ_ALPHABET)
    res, st = _sj_run(ctx, ex, s_val)
    ex.exit_guards.append(st.guard)
    SL, DOT = ord("/"), ord(".")
    ch = lambda j: cs[j]
    absolute = z3.And(ln > 0, ch(0) == SL)
    dd = []
    for j in range(maxlen - 1):
        startj = z3.BoolVal(True) if j == 0 else ch(j - 1) == SL
        endj = z3.Or(ln == j + 2, z3.And(j + 2 < ln, ch(j + 2) == SL)) if j + 2 < maxlen else (ln == j + 2)
        dd.append(z3.And(j + 1 < ln, startj, ch(j) == DOT, ch(j + 1) == DOT, endj))
    has_dotdot = z3.Or(*dd) if dd else z3.BoolVal(False)
    refused = simp(res.discr == 0)
    goals = {"refused<=>absolute-or-has-a-'..'-component": refused == z3.Or(absolute, has_dotdot)}
    if 1 in res.pay:
        j = fsmodels._deep(ex, st, res.pay[1][0])
        if isinstance(j, VStruct) and j.name == "Joined":
            goals["accepted=>the-result-is-root.join(the-same-relative-path)"] = z3.Implies(
                z3.Not(refused), z3.And(j.f[0].f[0].t == z3.Int("ROOT"), j.f[1].len == ln, *[z3.Implies(k < ln, j.f[1].at(I(k)) == cs[k]) for k in range(maxlen)]))
        else:
            goals["accepted=>the-result-is-root.join(the-same-relative-path)"] = z3.BoolVal(False)

    def witness(name, model, neg):
        n = model_int(model, ln)
        s = "".join(chr(model_int(model, c)) for c in cs[:n])
        res_n = {p: hubnative.run_cases([{"fn": "hub_step", "op": "safe_join", "path": s, "tree": {}}], p)[0] for p in ("dev", "release")}
        want_refused = hubnative.refused(s)
        bad = {p: r for p, r in res_n.items() if "panic" in r or (r.get("result") is None) != want_refused or (r.get("result") is not None and r["result"] != "/srv/hub/" + s and s != "")}
        if bad:
            case = {"fn": "hub_step", "op": "safe_join", "path": s, "tree": {}, "observed": res_n, "expected_refused": want_refused}
            return {"confirmed": True, "replay_path": R.save_replay("%s/safe_join" % pid, case), "key": "%s/safe_join/%s" % (pid, "accepts-escape" if want_refused else "refuses-valid"),
                    "detail": "safe_join('/srv/hub', %r): native %s, the property says %s" % (s, json.dumps(bad)[:200], "refused" if want_refused else "accepted")}
        return {"confirmed": False, "detail": "native safe_join(%r) behaves as specified" % s}
    prover.prove(ex, goals, "%s/safe_join" % pid,
                 "every relative-path string of length <= %d over {a . /} (all placements of '.', '..' and '/'); loop unrolled with unwinding assertion" % maxlen,
                 ["safe_join"], witness, covers={"accept-reachable": z3.Not(refused), "dotdot-refusal-reachable": z3.And(refused, z3.Not(absolute))})


# ----------------------------------------------------------------- serve(): the dispatch loop

def serve_obligation(ctx, R, prover, pid="C12", n_req=2):
    """serve(root) from MIR: read_magic / read_frame / write_frame and the three handlers are summaries that RECORD their call and
    return arbitrary outcomes (each is decided on its own); a frame is an arbitrary Request (Hello / Get / Put / Delete / Bye -
    the List arm's iterator chain is C13's list-filter obligation and is left out of the symbolic variants).  Sessions of up to
    n_req frames (the frame after that is assumed to be the end of input)."""
    import re as _re
    ex = ctx.ex(K=n_req + 2)
    ROOT = z3.Int("ROOT")
    RQ = ctx.enums.get("Request") or {}
    if not {"Hello", "List", "Get", "Put", "Delete", "Bye"} <= set(RQ):
        raise Inconclusive("enum Request variants not found")
    calls = []

    def rec(st, call, **kw):
        e = fsmodels.record(ex, st, "call:" + call, path=I(0), ok=kw.get("ok", z3.BoolVal(True)))
        d = {"guard": st.guard, "call": call, "seq": e["seq"]}
        d.update(kw)
        calls.append(d)
        return d

    def opaque(ex_, st, args, dest_ty, func, where):
        return VOpaque(func[:30])

    def s_magic(ex_, st, args, dest_ty, func, where):
        okio, good = ex_.fresh_bool("magic_read_ok"), ex_.fresh_bool("magic_good")
        rec(st, "read_magic", ok=okio, good=good)
        return fsmodels.io_result(ex_, okio, VBool(good))

    def s_read(ex_, st, args, dest_ty, func, where):
        k = len([c for c in calls if c["call"] == "read_frame"])
        okio, some = ex_.fresh_bool("frame_read_ok"), ex_.fresh_bool("frame_present")
        if k >= n_req:
            ex_.assumes.append(z3.Implies(st.guard, z3.And(okio, z3.Not(some))))      # BOUND: the input ends after n_req frames
        variants = [RQ[v] for v in ("Hello", "Get", "Put", "Delete", "Bye")]
        d = ex_.fresh_int("request_kind%d" % k, lo=min(RQ.values()), hi=max(RQ.values()))
        ex_.assumes.append(z3.Or(*[d == v for v in variants]))
        path = strv(z3.Int("REQ_PATH%d" % k))
        exp_some = ex_.fresh_bool("expected_given%d" % k)
        exp = opt_sym(exp_some, VStruct("[array]", [VInt(ex_.fresh_int("exp%d_%d" % (k, i), ty="u8"), "u8") for i in range(32)]))
        hsh = VStruct("[array]", [VInt(ex_.fresh_int("hash%d_%d" % (k, i), ty="u8"), "u8") for i in range(32)])
        ln = VInt(ex_.fresh_int("put_len%d" % k, ty="u64"), "u64")
        req = VEnum("Request", d, {RQ["Hello"]: [VInt(ex_.fresh_int("version%d" % k, ty="u32"), "u32")], RQ["List"]: [], RQ["Get"]: [path],
                                   RQ["Put"]: [path, exp, ln, hsh], RQ["Delete"]: [path, exp], RQ["Bye"]: []})
        rec(st, "read_frame", ok=okio, some=some, kind=d, path=path.f[0].t, exp=exp, len=ln.t, hash=hsh, k=k)
        return fsmodels.io_result(ex_, okio, opt_sym(some, req))

    def s_write(ex_, st, args, dest_ty, func, where):
        okio = ex_.fresh_bool("reply_ok")
        rec(st, "write_frame", ok=okio, msg=fsmodels._deep(ex_, st, args[1]))
        return fsmodels.io_result(ex_, okio)

    def handler(name, npath):
        def h(ex_, st, args, dest_ty, func, where):
            okio = ex_.fresh_bool(name + "_ok")
            kw = {"root": fsmodels.path_term(ex_, st, args[0]), "ok": okio}
            if name == "get":
                kw["path"] = fsmodels.text_term(ex_, st, args[1])
            else:
                kw["lockdir"] = fsmodels.path_term(ex_, st, args[1])
                kw["path"] = fsmodels.text_term(ex_, st, args[2])
                kw["exp"] = fsmodels._deep(ex_, st, args[3])
                if name == "put":
                    kw["len"], kw["hash"] = args[4].t, fsmodels._deep(ex_, st, args[5])
            rec(st, "handle_" + name, **kw)
            return fsmodels.io_result(ex_, okio)
        return h
    S = ex.summaries
    S["read_magic"], S["wire::read_magic"], S["read_frame"], S["wire::read_frame"], S["write_frame"], S["wire::write_frame"] = s_magic, s_magic, s_read, s_read, s_write, s_write
    S["handle_get"], S["handle_put"], S["handle_delete"] = handler("get", 1), handler("put", 2), handler("delete", 2)
    S["discover_local_fingerprints"] = lambda ex_, st, a, d, f, w: (rec(st, "scan"), VEnum("Result", I(1), {0: [VOpaque("map")], 1: [VOpaque("err")]}))[1]
    ex.models = [(_re.compile(r"^(std::io::)?(stdin|stdout)$|^Stdin::lock$|^Stdout::lock$|^std::io::Buf(Reader|Writer)::<.*>::new$"), opaque, "stdin / stdout plumbing (opaque)"),
                 (_re.compile(r"^<&str as Into<Box<dyn StdError>>>::into$|^<Box<dyn StdError> as From<.*>>::from$"), opaque, "error boxing (opaque)"),
                 (_re.compile(r"^Result::<BTreeMap<PathBuf, Fingerprint>, Box<dyn StdError>>::unwrap_or_default$|^<BTreeMap<PathBuf, Fingerprint> as IntoIterator>::into_iter$|"
                              r"^<std::collections::btree_map::IntoIter<PathBuf, Fingerprint> as Iterator>::filter::<|^<std::iter::Filter<.*> as Iterator>::map::<|"
                              r"^<std::iter::Map<std::iter::Filter<.*> as Iterator>::collect::<"), opaque, "the List arm's iterator chain (opaque here: the arm is excluded from the symbolic frames; see C13)"),
                 (_re.compile(r"^<(std::string::)?String as Deref>::deref$"), lambda ex_, st, a, d, f, w: VRef("val", val=fsmodels._deep(ex_, st, a[0])), "String deref (same text)"),
                 ] + ex.models
    st = State()
    res = ex.exec_fn(ctx.fn(ex, "serve"), [VRef("val", val=pathv(ROOT))], st)
    if res is None:
        raise Inconclusive("serve never returns")
    ex.exit_guards.append(st.guard)
    ok = simp(res.discr == 0)
    eff = [e for e in fsmodels.effects(ex) if not e["call"].startswith("call:")]
    LOCKDIR = PJ(ROOT, lit_id(".copia"))
    magics = [c for c in calls if c["call"] == "read_magic"]
    reads = [c for c in calls if c["call"] == "read_frame"]
    handlers = [c for c in calls if c["call"].startswith("handle_")]
    writes = [c for c in calls if c["call"] == "write_frame"]
    first_magic = min([c["seq"] for c in magics]) if magics else 10 ** 9
    accepted = _any(z3.And(c["guard"], c["ok"], c["good"]) for c in magics)

    def served(r):
        """the frame read r was dispatched: exactly one matching handler / reply, carrying the frame's fields, before the next read"""
        nxt = min([x["seq"] for x in reads if x["seq"] > r["seq"]] or [10 ** 9])
        mine = [h for h in handlers + writes if r["seq"] < h["seq"] < nxt]
        def one(call, cond):
            hs = [h for h in mine if h["call"] == call]
            return z3.And(_any(z3.And(h["guard"], cond(h)) for h in hs), _all(z3.Not(z3.And(a["guard"], b["guard"])) for i, a in enumerate(hs) for b in hs[i + 1:]))
        same_exp = lambda h: z3.BoolVal(h.get("exp") is r["exp"] or (isinstance(h.get("exp"), VEnum) and z3.eq(simp(h["exp"].discr), simp(r["exp"].discr))))
        base = lambda h: z3.And(h["root"] == ROOT, h["path"] == r["path"])
        return z3.And(
            z3.Implies(r["kind"] == RQ["Get"], one("handle_get", base)),
            z3.Implies(r["kind"] == RQ["Put"], one("handle_put", lambda h: z3.And(base(h), h["lockdir"] == LOCKDIR, h["len"] == r["len"], same_exp(h), z3.BoolVal(h.get("hash") is not None)))),
            z3.Implies(r["kind"] == RQ["Delete"], one("handle_delete", lambda h: z3.And(base(h), h["lockdir"] == LOCKDIR, same_exp(h)))),
            z3.Implies(r["kind"] == RQ["Hello"], one("write_frame", lambda h: z3.BoolVal(True))),
            # nothing of another kind is invoked for this frame
            _all(z3.Implies(h["guard"], z3.Or(z3.And(h["call"] == "handle_get", r["kind"] == RQ["Get"]) if h["call"] == "handle_get" else z3.BoolVal(False),
                                               r["kind"] == RQ["Put"] if h["call"] == "handle_put" else z3.BoolVal(False),
                                               r["kind"] == RQ["Delete"] if h["call"] == "handle_delete" else z3.BoolVal(False),
                                               r["kind"] == RQ["Hello"] if h["call"] == "write_frame" else z3.BoolVal(False))) for h in mine))
    goals = {
        "before-the-prologue-is-accepted-only-the-served-directory-and-its-.copia-directory-are-created:-nothing-else-is-touched,-read-or-dispatched": z3.And(
            z3.BoolVal(all(e["call"] == "create_dir_all" for e in eff if e["seq"] < first_magic)),
            _all(z3.Implies(e["guard"], z3.Or(e["path"] == ROOT, e["path"] == LOCKDIR)) for e in eff if e["call"] == "create_dir_all"),
            z3.BoolVal(all(e["call"] == "create_dir_all" for e in eff)),
            _all(z3.Implies(c["guard"], accepted) for c in reads + handlers + writes)),
        "a-bad-or-unreadable-prologue-ends-the-session-with-an-error-and-nothing-dispatched": z3.Implies(z3.Not(accepted), z3.And(z3.Not(ok), _all(z3.Not(c["guard"]) for c in reads + handlers + writes))),
        "every-frame-is-dispatched-to-exactly-its-handler-with-its-own-fields,-the-served-root-and-the-.copia-lock-directory": _all(
            z3.Implies(z3.And(r["guard"], r["ok"], r["some"], r["kind"] != RQ["Bye"]), served(r)) for r in reads),
        "after-the-end-of-input,-a-read-error,-a-failed-handler-or-Bye-nothing-more-is-read-or-dispatched-(no-spinning)": _all(
            z3.Implies(z3.And(r["guard"], z3.Or(z3.Not(r["ok"]), z3.Not(r["some"]), r["kind"] == RQ["Bye"])), _all(z3.Not(c["guard"]) for c in reads + handlers + writes if c["seq"] > r["seq"]))
            for r in reads) if reads else z3.BoolVal(False),
        "a-failed-handler-or-reply-ends-the-session-with-an-error": z3.And(
            _all(z3.Implies(z3.And(h["guard"], z3.Not(h["ok"])), z3.And(z3.Not(ok), _all(z3.Not(c["guard"]) for c in reads + handlers + writes if c["seq"] > h["seq"]))) for h in handlers + writes)),
        "exit-0-only-after-the-end-of-input-or-Bye": z3.Implies(ok, _any(z3.And(r["guard"], r["ok"], z3.Or(z3.Not(r["some"]), r["kind"] == RQ["Bye"])) for r in reads)),
    }
    prover.prove(ex, goals, "%s/serve" % pid,
                 "sessions of up to %d frames, each an arbitrary Hello / Get / Put / Delete / Bye with symbolic fields (List: see C13's list-filter obligation); the prologue, "
                 "every frame read, every handler and every reply may fail; read_magic, read_frame, write_frame and the handlers are summaries (each decided on its own)" % n_req,
                 ["serve"], make_witness(R, pid, "serve"), covers={"two-frames-served": _any(z3.And(h["guard"], r["guard"]) for h in handlers for r in reads if r["seq"] > h["seq"])})
