"""C13 — hub-sync lands the local tree on the hub and skips what is already there: the CLIENT step, from MIR.

Decided: (1) hub_sync's orchestration over an ordered universe of paths — listing and local scan symbolic, HubClient's
methods summarised (list = the symbolic listing, put = recorded with an arbitrary outcome): exactly the local files whose
hash differs from the listed one (or that the hub does not list) are Put, once, in order, with expected = the LISTED hash;
nothing else is requested; the exit status tells whether every Put committed.  (2) HubClient::put itself with the pipe
as a recorder: a Put frame carrying the file's length and the given hash/expected, then the file streamed, flushed, then
the reply read; Ok(committed) only for a PutResult reply.
NOT explored: the server process on the other end of the pipe (decided separately, C03/C10/C11/C12), the directory scan,
a second client between the List and the Puts (that is C03's compare-and-swap: a stale expected hash cannot commit).
"""
import json
import re
import z3

from mirsmt import env, stdmodels, patchmodels, codecmodels, fsmodels, itermodels
from mirsmt.fsmodels import PJ, pathv, strv
from mirsmt.symexec import (Executor, State, VInt, VBool, VStruct, VEnum, VRef, VSeq, VList, VOpaque, UNIT, I, simp, Unsupported)
from mirsmt.env import model_int, model_bool, Inconclusive
from mirsmt.stdmodels import opt_sym
from mirsmt.prove import Prover
from .hublib import _any, _all
from .reconcile_tree import sym_fp
from . import hubnative


class Ctx:
    def __init__(self):
        from .hublib import source_fns
        want = {"hub_sync"} | source_fns("hub.rs")

        def keep(n):
            return n in want or n.startswith(tuple(w + "::" for w in want)) or n.startswith("hub::")
        self.mir, self.mir_path, self.dump_s = env.load("bin", keep)
        self.idx = env.impl_index(self.mir)
        self.enums = env.source_enums()


def sync_obligation(ctx, R, prover, U, inline_put=False):
    ex = Executor(ctx.mir, ctx.enums, K=U + 3)
    ex.impl_index = ctx.idx
    stdmodels.install_core(ex)
    stdmodels.install_time_fs(ex)
    itermodels.install(ex)
    ex.byte_cap = 4
    patchmodels.install(ex)
    codecmodels.install(ex)
    fsmodels.install(ex)
    stdmodels.install_collections(ex, U, 2 * U + 2)
    hub_p, loc_p, hub_fp, loc_fp = {}, {}, {}, {}
    he, le = [], []
    for u in range(U):
        hub_p[u], loc_p[u] = ex.fresh_bool("hub_has%d" % u), ex.fresh_bool("local_has%d" % u)
        hub_fp[u], loc_fp[u] = sym_fp(ex, "hub%d" % u, ctx.enums), sym_fp(ex, "loc%d" % u, ctx.enums)
        he.append(VStruct("entry", [VBool(hub_p[u]), hub_fp[u][0]]))
        le.append(VStruct("entry", [VBool(loc_p[u]), loc_fp[u][0]]))
    hub_map, loc_map = stdmodels.mk_map(he), stdmodels.mk_map(le)
    ROOT = z3.Int("LOCAL_ROOT")
    puts, other = [], []
    order = [0]

    def rec(lst, st, **kw):
        e = {"guard": st.guard, "seq": order[0]}
        order[0] += 1
        e.update(kw)
        lst.append(e)
        return e

    def s_connect(ex_, st, args, dest_ty, func, where):
        okc = ex_.fresh_bool("connect_ok")
        rec(other, st, call="connect", ok=okc)
        return fsmodels.io_result(ex_, okc, VStruct("HubClient", []))

    def s_list(ex_, st, args, dest_ty, func, where):
        okl = ex_.fresh_bool("list_ok")
        n_before = len([e for e in other if e["call"] == "list"])
        rec(other, st, call="list", ok=okl)
        if n_before == 0:
            return fsmodels.io_result(ex_, okl, hub_map)
        # a LATER listing is whatever the hub holds by then (other clients may have committed): unrelated to the first one
        later = stdmodels.mk_map([VStruct("entry", [VBool(ex_.fresh_bool("hub_later_has%d" % u)), sym_fp(ex_, "hublater%d_%d" % (n_before, u), ctx.enums)[0]]) for u in range(U)])
        return fsmodels.io_result(ex_, okl, later)

    def s_scan(ex_, st, args, dest_ty, func, where):
        return VEnum("Result", I(0), {0: [loc_map]})

    def s_put(ex_, st, args, dest_ty, func, where):
        rel = stdmodels._key_id(ex_, st, args[1])
        exp = fsmodels._deep(ex_, st, args[2])
        local = fsmodels._deep(ex_, st, args[3])
        h = fsmodels._deep(ex_, st, args[4])
        okp = ex_.fresh_bool("put_ok")
        committed = ex_.fresh_bool("committed")
        rec(puts, st, rel=rel, expected=exp, local=local, hash=[x.t for x in h.f], ok=okp, committed=committed)
        return fsmodels.io_result(ex_, okp, VBool(committed))

    def s_bye(ex_, st, args, dest_ty, func, where):
        rec(other, st, call="bye", ok=z3.BoolVal(True))
        return UNIT
    S = ex.summaries
    S["HubClient::connect"], S["HubClient::list"], S["HubClient::put"], S["HubClient::bye"] = s_connect, s_list, s_put, s_bye
    S["discover_local_fingerprints"] = s_scan
    sends, recvs = [], []
    if inline_put:
        # HubClient::put is NOT summarised: its MIR body runs inside hub_sync's loop, the pipe is a recorder, the reply is ANY Response
        del S["HubClient::put"]

        def s_send(ex_, st, args, dest_ty, func, where):
            oks = ex_.fresh_bool("send_ok")
            rec(sends, st, ok=oks, msg=fsmodels._deep(ex_, st, args[1]))
            return fsmodels.io_result(ex_, oks)

        def s_recv(ex_, st, args, dest_ty, func, where):
            okr = ex_.fresh_bool("recv_ok")
            R_ = ctx.enums["Response"]
            d = ex_.fresh_int("reply_kind", lo=0, hi=len(R_) - 1)
            cm = ex_.fresh_bool("reply_committed")
            pay = {v: [VOpaque("field")] * 2 for v in R_.values()}
            pay[R_["PutResult"]] = [VBool(cm), VOpaque("current")]
            rec(recvs, st, ok=okr, kind=d, committed=cm)
            return fsmodels.io_result(ex_, okr, VEnum("Response", d, pay))
        S["HubClient::send"], S["HubClient::recv"] = s_send, s_recv

        def s_connect_i(ex_, st, args, dest_ty, func, where):
            okc = ex_.fresh_bool("connect_ok")
            rec(other, st, call="connect", ok=okc)
            return fsmodels.io_result(ex_, okc, VStruct("HubClient", [VOpaque("child"), VStruct("Pipe", []), VOpaque("reader")]))
        S["HubClient::connect"] = s_connect_i

        def io_copy_to_pipe(ex_, st, args, dest_ty, func, where):
            return fsmodels.io_result(ex_, ex_.fresh_bool("stream_ok"), VInt(ex_.fresh_int("streamed", ty="u64"), "u64"))

        def flush(ex_, st, args, dest_ty, func, where):
            return fsmodels.io_result(ex_, ex_.fresh_bool("flush_ok"))

        def str_to_string(ex_, st, args, dest_ty, func, where):
            return fsmodels._deep(ex_, st, args[0])
        ex.models = [(re.compile(r"^std::io::copy::<std::fs::File, (std::io::)?BufWriter<(std::process::)?ChildStdin>>$"), io_copy_to_pipe, "io::copy(File -> pipe) (any outcome)"),
                     (re.compile(r"^<(std::io::)?BufWriter<(std::process::)?ChildStdin> as (std::io::)?Write>::flush$"), flush, "BufWriter::flush (any outcome)"),
                     (re.compile(r"^<str as ToString>::to_string$|^str::<impl str>::to_string$|^(alloc::)?string::<impl ToString for str>::to_string$"), str_to_string, "str::to_string"),
                     ] + ex.models

    def ident(ex_, st, args, dest_ty, func, where):
        return fsmodels._deep(ex_, st, args[0])

    def identref(ex_, st, args, dest_ty, func, where):
        return VRef("val", val=fsmodels._deep(ex_, st, args[0]))

    def join_id(ex_, st, args, dest_ty, func, where):
        if inline_put:
            return pathv(PJ(fsmodels.path_term(ex_, st, args[0]), stdmodels._key_id(ex_, st, args[1])))
        return VStruct("JoinedId", [VInt(fsmodels.path_term(ex_, st, args[0]), "usize"), VInt(stdmodels._key_id(ex_, st, args[1]), "usize")])

    def unit(ex_, st, args, dest_ty, func, where):
        return UNIT
    ex.models = [(re.compile(r"^Path::to_string_lossy$|^Cow::<'_, str>::into_owned$|^<(std::string::)?String as Into<Box<dyn StdError>>>::into$"), ident, "path <-> string (ids)"),
                 (re.compile(r"^<(std::string::)?String as Deref>::deref$"), identref, "String deref (ids)"),
                 (re.compile(r"^Path::join::<&PathBuf>$"), join_id, "Path::join(root, rel) (recorded)"),
                 (re.compile(r"^std::io::_e?print$"), unit, "print!/eprintln!"),
                 (re.compile(r"^<&BTreeMap<PathBuf, Fingerprint> as IntoIterator>::into_iter$"), stdmodels._map_iter, "<&BTreeMap>::into_iter (ascending key order)"),
                 ] + ex.models
    st = State()
    res = ex.exec_fn(ex.find_fn("hub_sync"), [VRef("val", val=pathv(ROOT)), VRef("val", val=strv(z3.Int("TARGET")))], st)
    if res is None:
        raise Inconclusive("hub_sync never returns")
    ex.exit_guards.append(st.guard)
    ok = simp(res.discr == 0)
    setup_ok = z3.And(*[e["ok"] for e in other if e["call"] in ("connect", "list")])

    def need(u):
        same = z3.And(hub_p[u], *[x.t == y.t for x, y in zip(hub_fp[u][1], loc_fp[u][1])])
        return z3.And(loc_p[u], z3.Not(same))

    if inline_put:
        RQ, RS = ctx.enums["Request"], ctx.enums["Response"]
        frames = []
        for s_ in sends:
            m = s_["msg"]
            if RQ["Put"] not in m.pay:
                continue
            later = [r for r in recvs if r["seq"] > s_["seq"]]
            r = min(later, key=lambda r_: r_["seq"]) if later else None
            answered = z3.And(s_["ok"], r["guard"], r["ok"], r["kind"] == RS["PutResult"], r["committed"]) if r else z3.BoolVal(False)
            frames.append({"guard": z3.And(s_["guard"], m.discr == RQ["Put"]), "rel": stdmodels._key_id(ex, st, m.pay[RQ["Put"]][0]), "answered": answered})
        bye = _any(e["guard"] for e in other if e["call"] == "bye")
        goals = {
            "exit-0-only-if-the-run-completed-and-every-Put-frame-it-sent-was-answered-PutResult{committed:true}": z3.Implies(
                ok, z3.And(bye, _all(z3.Implies(f["guard"], f["answered"]) for f in frames))),
            "exit-0-only-if-a-Put-frame-went-out-for-every-local-file-the-hub-did-not-already-hold": z3.Implies(
                ok, _all(z3.Implies(need(u), _any(z3.And(f["guard"], f["rel"] == u) for f in frames)) for u in range(U))),
        }

        def witness_i(name, model, neg):
            # a reply other than PutResult{committed:true} with exit 0: natively, the hub holds a DIRECTORY where a local file must land
            return conformance(R, [], "C13/hub_sync", "C13/hub_sync+put/%s" % name[:50], only_refusing=True)
        prover.prove(ex, goals, "C13/hub_sync+put",
                     "universe of %d ordered paths; HubClient::put executed from MIR inside hub_sync's loop: every pipe/file operation may fail and every reply is ANY Response" % U,
                     ["hub_sync", "HubClient::put"], witness_i, covers={"put-frame-reachable": _any(f["guard"] for f in frames), "exit-0-reachable": ok})
        return

    def exp_is_listed(p, u):
        e = p["expected"]
        eb = [x.t for x in fsmodels._deep(ex, st, e.pay[1][0]).f] if 1 in e.pay else [I(0)] * 32
        return z3.And((e.discr == 1) == hub_p[u], z3.Implies(hub_p[u], z3.And(*[x == y.t for x, y in zip(eb, hub_fp[u][1])])))
    goals = {
        "every-Put-is-for-a-local-file-the-hub-does-not-already-hold,-carries-its-hash,-its-path-and-the-LISTED-hash-as-expected": _all(
            z3.Implies(p["guard"], _any(z3.And(p["rel"] == u, need(u), z3.And(*[x == y.t for x, y in zip(p["hash"], loc_fp[u][1])]), exp_is_listed(p, u),
                                               p["local"].f[0].t == ROOT, p["local"].f[1].t == u) for u in range(U)))
            for p in puts),
        "no-file-is-Put-twice-and-Puts-follow-path-order": _all(
            z3.Implies(z3.And(p["guard"], q["guard"]), p["rel"] < q["rel"]) for i, p in enumerate(puts) for q in puts[i + 1:]),
        "a-completed-run-has-Put-every-file-that-needed-it": z3.Implies(
            _any(z3.And(e["guard"], e["call"] == "bye") for e in other if e["call"] == "bye"),
            _all(z3.Implies(need(u), _any(z3.And(p["guard"], p["ok"], p["rel"] == u) for p in puts)) for u in range(U))),
        "exit-0-exactly-when-the-run-completed-and-every-Put-committed": ok == z3.And(
            _any(z3.And(e["guard"]) for e in other if e["call"] == "bye"), _all(z3.Implies(p["guard"], z3.And(p["ok"], p["committed"])) for p in puts)),
        "nothing-but-connect,-list,-put-and-bye-is-requested-of-the-hub": z3.BoolVal(all(e["call"] in ("connect", "list", "bye") for e in other)),
        # the compare-and-swap protects what OTHER clients committed only if `expected` is what this client saw BEFORE it decided:
        # one listing, taken before the first Put (a fresh listing mid-run would turn a lost race into an overwrite)
        "the-hub-is-listed-once,-before-the-first-Put": z3.And(
            _all(z3.Not(z3.And(a["guard"], b["guard"])) for i, a in enumerate([e for e in other if e["call"] == "list"]) for b in [e for e in other if e["call"] == "list"][i + 1:]),
            _all(z3.Implies(z3.And(l_["guard"], p["guard"]), z3.BoolVal(l_["seq"] < p["seq"])) for l_ in other if l_["call"] == "list" for p in puts)),
    }
    covers = {"put-reachable": _any(p["guard"] for p in puts), "skip-reachable": z3.And(ok, _any(z3.And(loc_p[u], z3.Not(need(u))) for u in range(U)))}

    def witness(name, model, neg):
        files, hubfiles = {}, {}
        content = {}

        def data(m, u):
            fp = bytes(model_int(model, b.t) for b in (hub_fp if m == "h" else loc_fp)[u][1]).hex()
            if fp not in content:
                content[fp] = hubnative.hx(("v%d" % len(content)).encode())
            return content[fp]
        for u in range(U):
            if model_bool(model, loc_p[u]):
                files["p%d" % u] = data("l", u)
            if model_bool(model, hub_p[u]):
                hubfiles["p%d" % u] = data("h", u)
        if name.startswith("the-hub-is-listed-once") or "LISTED-hash" in name:
            t = stale_listing_witness(R)
            if t["confirmed"]:
                return t
        return conformance(R, [{"fn": "hub_sync", "local": files, "hub": hubfiles}], "C13/hub_sync", "C13/hub_sync/%s" % name[:50])
    prover.prove(ex, goals, "C13/hub_sync",
                 "universe of %d ordered paths; the hub's listing and the local scan symbolic (presence + full 32-byte digests); connect/list/put may fail, a Put may lose its CAS" % U,
                 ["hub_sync"], witness, covers=covers)


def put_obligation(ctx, R, prover):
    ex = Executor(ctx.mir, ctx.enums, K=4)
    ex.impl_index = ctx.idx
    stdmodels.install_core(ex)
    stdmodels.install_time_fs(ex)
    itermodels.install(ex)
    ex.byte_cap = 4
    patchmodels.install(ex)
    codecmodels.install(ex)
    fsmodels.install(ex)
    sent, recvd = [], []

    def s_send(ex_, st, args, dest_ty, func, where):
        req = fsmodels._deep(ex_, st, args[1])
        oks = ex_.fresh_bool("send_ok")
        fsmodels.record(ex_, st, "send-frame", path=I(0), ok=oks, msg=req)
        return fsmodels.io_result(ex_, oks)

    def s_recv(ex_, st, args, dest_ty, func, where):
        okr = ex_.fresh_bool("recv_ok")
        R_ = ctx.enums["Response"]
        d = ex_.fresh_int("reply_kind", lo=0, hi=len(R_) - 1)
        committed = ex_.fresh_bool("reply_committed")
        pay = {v: [VOpaque("field")] * 2 for v in R_.values()}
        pay[R_["PutResult"]] = [VBool(committed), VOpaque("current")]
        fsmodels.record(ex_, st, "recv-frame", path=I(0), ok=okr, kind=d, committed=committed)
        return fsmodels.io_result(ex_, okr, VEnum("Response", d, pay))
    ex.summaries["HubClient::send"], ex.summaries["HubClient::recv"] = s_send, s_recv

    def io_copy_to_pipe(ex_, st, args, dest_ty, func, where):
        f = fsmodels._file_of(ex_, st, args[0])
        okc = ex_.fresh_bool("stream_ok")
        fsmodels.record(ex_, st, "stream-file-to-pipe", path=f.f[0].t, ok=okc)
        return fsmodels.io_result(ex_, okc, VInt(ex_.fresh_int("streamed", ty="u64"), "u64"))

    def flush(ex_, st, args, dest_ty, func, where):
        okf = ex_.fresh_bool("flush_ok")
        fsmodels.record(ex_, st, "flush-pipe", path=I(0), ok=okf)
        return fsmodels.io_result(ex_, okf)

    def str_to_string(ex_, st, args, dest_ty, func, where):
        return fsmodels._deep(ex_, st, args[0])
    ex.models = [(re.compile(r"^std::io::copy::<std::fs::File, (std::io::)?BufWriter<(std::process::)?ChildStdin>>$"), io_copy_to_pipe, "io::copy(File -> pipe) (recorded)"),
                 (re.compile(r"^<(std::io::)?BufWriter<(std::process::)?ChildStdin> as (std::io::)?Write>::flush$"), flush, "BufWriter::flush (recorded)"),
                 (re.compile(r"^<str as ToString>::to_string$|^str::<impl str>::to_string$|^(alloc::)?string::<impl ToString for str>::to_string$"), str_to_string, "str::to_string"),
                 ] + ex.models
    LOCAL, REL = z3.Int("LOCAL_FILE"), z3.Int("REL")
    exp_p = ex.fresh_bool("expected_present")
    exp_b = [ex.fresh_int("exp%d" % i, lo=0, hi=255) for i in range(32)]
    hb = [ex.fresh_int("hash%d" % i, lo=0, hi=255) for i in range(32)]
    st = State()
    st.frames[0] = {"cl": VStruct("HubClient", [VOpaque("child"), VStruct("Pipe", []), VOpaque("reader")])}
    key = ctx.idx.get("HubClient::put")
    fn = ex.find_fn(key) if key else None
    if fn is None:
        raise Inconclusive("no MIR body for HubClient::put")
    res = ex.exec_fn(fn, [VRef("place", 0, "cl"), VRef("val", val=strv(REL)), opt_sym(exp_p, VStruct("[array]", [VInt(b, "u8") for b in exp_b])),
                          VRef("val", val=pathv(LOCAL)), VStruct("[array]", [VInt(b, "u8") for b in hb])], st)
    if res is None:
        raise Inconclusive("HubClient::put never returns")
    ex.exit_guards.append(st.guard)
    eff = fsmodels.effects(ex)
    sends = [e for e in eff if e["call"] == "send-frame"]
    streams = [e for e in eff if e["call"] == "stream-file-to-pipe"]
    flushes = [e for e in eff if e["call"] == "flush-pipe"]
    recvs = [e for e in eff if e["call"] == "recv-frame"]
    metas = [e for e in eff if e["call"] == "metadata"]
    RQ = ctx.enums["Request"]
    ok = simp(res.discr == 0)
    conds = []
    for s in sends:
        m = s["msg"]
        if RQ["Put"] in m.pay:
            f = m.pay[RQ["Put"]]          # path, expected, len, hash
            eb = [x.t for x in fsmodels._deep(ex, st, f[1].pay[1][0]).f] if 1 in f[1].pay else [I(0)] * 32
            conds.append(z3.Implies(s["guard"], z3.And(
                m.discr == RQ["Put"], fsmodels.text_term(ex, st, f[0]) == REL, (f[1].discr == 1) == exp_p, z3.Implies(exp_p, z3.And(*[x == y for x, y in zip(eb, exp_b)])),
                _any(z3.And(me["guard"], me["ok"], me["path"] == LOCAL, me["len"] == f[2].t) for me in metas if me["seq"] < s["seq"]),
                z3.And(*[x.t == y for x, y in zip(fsmodels._deep(ex, st, f[3]).f, hb)]))))
        else:
            conds.append(z3.Not(s["guard"]))
    if 0 in res.pay and not isinstance(res.pay[0][0], VBool):
        raise Inconclusive("HubClient::put no longer returns io::Result<bool> (%s): its reply mapping is decided through hub_sync+put only" % type(res.pay[0][0]).__name__)
    goals = {
        "the-request-is-a-Put-frame-with-the-given-path,-expected-and-hash-and-the-file's-length": _all(conds),
        "the-file-is-streamed-after-the-frame,-flushed,-and-only-then-the-reply-is-read": z3.And(
            _all(z3.Implies(x["guard"], z3.And(x["path"] == LOCAL, _any(z3.And(s["guard"], s["ok"]) for s in sends if s["seq"] < x["seq"]))) for x in streams),
            _all(z3.Implies(r["guard"], z3.And(_any(z3.And(x["guard"], x["ok"]) for x in streams if x["seq"] < r["seq"]),
                                               _any(z3.And(f["guard"], f["ok"]) for f in flushes if f["seq"] < r["seq"]))) for r in recvs)),
        "Ok(committed)-exactly-for-a-PutResult-reply-with-that-flag": z3.Implies(ok, _any(z3.And(
            r["guard"], r["ok"], r["kind"] == ctx.enums["Response"]["PutResult"], res.pay[0][0].t == r["committed"]) for r in recvs)) if 0 in res.pay else z3.Not(ok),
        "exactly-one-frame-is-sent": _all(z3.Not(z3.And(a["guard"], b["guard"])) for i, a in enumerate(sends) for b in sends[i + 1:]),
    }
    prover.prove(ex, goals, "C13/HubClient::put",
                 "any path name, expected hash (absent or 32 bytes), hash, file length; every pipe and file operation may fail; the reply is ANY Response",
                 ["HubClient::put"], None, covers={"ok-reachable": ok})


def list_filter_obligation(R, prover, maxlen=8):
    """serve()'s List arm: the predicate that hides entries from the listing, from MIR, on symbolic path strings:
    hidden <=> the FIRST COMPONENT is `.copia` (the control directory) - nothing else may be hidden, or the client would
    re-send it on every run"""
    from . import hublib
    from .planlib import sym_str
    hctx = hublib.Ctx()
    ex = hctx.ex(K=maxlen + 3)
    stdmodels.install_strings(ex, maxlen)
    ex.models = [(re.compile(r"^<PathBuf as Deref>::deref$|^<(std::string::)?String as Deref>::deref$|^PathBuf::as_path$"),
                  lambda ex_, st, a, d, f, w: VRef("val", val=stdmodels._str_of(ex_, st, a[0])), "PathBuf/String deref (the same characters)")] + ex.models
    cands = []
    for name, fns in hctx.mir.fns.items():
        if name.startswith("serve::{closure#"):
            for f in fns:
                if getattr(f, "parsed", False) and f.ret.strip() == "bool" and len(f.args) == 2:
                    cands.append(f)
    if len(cands) != 1:
        raise Inconclusive("expected exactly one boolean filter closure in serve(), found %d" % len(cands))
    fn = cands[0]
    s_val, ln, cs = sym_str(ex, "rel", maxlen, ".copia/x")
    ex.assumes += [ln >= 1]
    argty = fn.args[1][1]
    key = s_val if "PathBuf" in argty.split(",")[0] else VStruct("String", [s_val])
    st = State()
    res = ex.exec_fn(fn, [VRef("val", val=VStruct("closure", [])), VRef("val", val=VStruct("(tuple)", [key, VOpaque("fingerprint")]))], st)
    if res is None:
        raise Inconclusive("the List filter never returns")
    ex.exit_guards.append(st.guard)
    lit = ".copia"
    first_is = z3.And(ln >= len(lit), *[cs[i] == ord(ch) for i, ch in enumerate(lit)], z3.Or(ln == len(lit), cs[len(lit)] == ord("/")) if maxlen > len(lit) else ln == len(lit))
    goals = {"List-hides-an-entry-exactly-when-its-first-component-is-the-.copia-control-directory": res.t == z3.Not(first_is)}

    def witness(name, model, neg):
        n = model_int(model, ln)
        rel = "".join(chr(model_int(model, c)) for c in cs[:n]).strip("/") or ".copiax"
        rel = rel.replace("//", "/")
        case = {"fn": "hub_sync", "local": {rel: hubnative.hx(b"v"), "plain": hubnative.hx(b"p")}, "hub": {}}
        return conformance(R, [case, {"fn": "hub_sync", "local": {".copiaignore": hubnative.hx(b"i"), ".copia-cache/index": hubnative.hx(b"c"), "plain": hubnative.hx(b"p")}, "hub": {}}],
                           "C13/serve-list-filter", "C13/serve-list-filter")
    prover.prove(ex, goals, "C13/serve-list-filter", "every relative path string of length 1..%d over {. c o p i a / x}" % maxlen, [fn.name], witness,
                 covers={"hidden-reachable": z3.Not(res.t), "shown-reachable": res.t})


def conformance(R, extra, oid, key, only_refusing=False):
    cases = list(extra) + scenarios()
    if only_refusing:
        cases = [c for c in cases if c.get("refusing")]
    for prof in ("dev", "release"):
        res = hubnative.run_cases(cases, prof)
        for c, r in zip(cases, res):
            d = judge(c, r)
            if d:
                c = dict(c)
                c["observed"] = {prof: r}
                c["deviation"] = d
                return {"confirmed": True, "replay_path": R.save_replay(oid, c), "key": key,
                        "detail": "hub_sync local=%s hub=%s: native (%s) %s" % (json.dumps(c["local"])[:120], json.dumps(c["hub"])[:120], prof, d)}
    return {"confirmed": False, "detail": "the real hub_sync against the real serve loop lands the tree and skips what is there on %d scenarios" % len(cases)}


def scenarios():
    c = lambda s: hubnative.hx(s.encode())
    return [{"fn": "hub_sync", "local": {"a": c("1"), "d/b": c("2")}, "hub": {}},
            {"fn": "hub_sync", "local": {"a": c("1"), "d/b": c("2")}, "hub": {"a": c("1"), "other": c("o")}},
            {"fn": "hub_sync", "local": {"a": c("1"), "b": c("2"), "c": c("3")}, "hub": {"a": c("x"), "b": c("2"), "z/keep": c("k")}},
            {"fn": "hub_sync", "local": {}, "hub": {"keep": c("k")}},
            {"fn": "hub_sync", "local": {"e": ""}, "hub": {"e": c("non-empty")}},
            # the hub holds a DIRECTORY where a local regular file must land: the Put is answered Error (rename: EISDIR)
            {"fn": "hub_sync", "local": {"a": c("1"), "notes": c("n"), "z": c("3")}, "hub": {"notes/todo": c("t")}, "refusing": True},
            {"fn": "hub_sync", "local": {".copiaignore": c("i"), ".copia-cache/index": c("x"), "sub/.copia": c("s"), "plain": c("p")}, "hub": {}}]


def judge(case, r):
    if "panic" in r or "crash" in r or "error" in r:
        return "panic/crash/error: %s" % str(r)[:200]
    first, second = r.get("first", {}), r.get("second", {})
    if case.get("refusing"):
        # the hub cannot take every file: the property only speaks about exit 0 - then EVERY local file is on the hub with its bytes
        missing = [k for k, v in case["local"].items() if (r.get("hub_after_first") or {}).get(k) != v]
        if first.get("ok") and missing:
            return "hub_sync exited 0 although %s did not land on the hub (the hub refused it)" % missing
        return None
    if not first.get("ok"):
        return "hub_sync failed on a quiet hub: %s" % first.get("err")
    want = dict(case["hub"])
    want.update(case["local"])
    if r.get("hub_after_first") != want:
        return "hub tree after the run is %s, expected %s (local files landed, other hub files untouched)" % (json.dumps(r.get("hub_after_first"))[:200], json.dumps(want)[:200])
    need = sorted(k for k, v in case["local"].items() if case["hub"].get(k) != v)
    if sorted(first.get("puts", [])) != need:
        return "the run Put %s, expected exactly %s" % (first.get("puts"), need)
    if not second.get("ok") or second.get("puts"):
        return "an immediate second run sent %s (ok=%s), expected nothing" % (second.get("puts"), second.get("ok"))
    return None


PROXY = """#!/usr/bin/env python3
# stand-in for `ssh -T host copia serve ROOT`: runs the REAL `copia serve ROOT`, lets the client's Hello and List through, then lets a
# SECOND REAL CLIENT commit (`copia hub-sync B ROOT`) before the first client's Puts reach the hub - a stale listing, deterministically
import os, struct, subprocess, sys, threading
copia, blocal = %r, %r
root = sys.argv[-1]
srv = subprocess.Popen([copia, "serve", root], stdin=subprocess.PIPE, stdout=subprocess.PIPE)
inp, out = sys.stdin.buffer, sys.stdout.buffer
def rd(f, n):
    b = b""
    while len(b) < n:
        c = f.read(n - len(b))
        if not c:
            break
        b += c
    return b
def frame(src, dst):
    h = rd(src, 4)
    b = rd(src, struct.unpack(">I", h)[0]) if len(h) == 4 else b""
    dst.write(h + b); dst.flush()
srv.stdin.write(rd(inp, 6)); srv.stdin.flush()
for _ in range(2):
    frame(inp, srv.stdin)
    frame(srv.stdout, out)
subprocess.run([copia, "hub-sync", blocal, root], stdin=subprocess.DEVNULL, stdout=subprocess.DEVNULL, stderr=subprocess.DEVNULL)
def pump(a, b):
    while True:
        c = a.read1(65536) if hasattr(a, "read1") else a.read(65536)
        if not c:
            break
        b.write(c); b.flush()
    try:
        b.close()
    except Exception:
        pass
# like ssh, the stand-in ends when the remote command ends (the client keeps its end of the pipe open while it waits for us)
threading.Thread(target=pump, args=(inp, srv.stdin), daemon=True).start()
pump(srv.stdout, out)
os._exit(srv.wait())
"""


def stale_listing_case(profile):
    """two REAL clients, one REAL hub: A lists; B commits a.txt and b.txt; A's Puts arrive with the stale listing.  Both must lose
    their compare-and-swap: the hub keeps B's bytes, A's bytes end up in conflict copies, A exits non-zero"""
    import shutil, tempfile, os, subprocess
    from . import c04
    exe = c04.build_copia(profile)
    base = tempfile.mkdtemp(prefix="copia-verif-c13s-")
    try:
        hub, a, b, home, bindir, seed = (os.path.join(base, x) for x in ("hub", "A", "B", "home", "bin", "seed"))
        for x in (hub, a, b, home, bindir, seed):
            os.makedirs(x)
        for d_, tag in ((seed, "v0"), (a, "from-A"), (b, "from-B")):
            for f in ("a.txt", "b.txt"):
                open(os.path.join(d_, f), "w").write("%s %s" % (f, tag))
        open(os.path.join(seed, "keep.txt"), "w").write("keep")
        envp = dict(os.environ, HOME=home)
        if subprocess.run([exe, "hub-sync", seed, hub], stdout=subprocess.PIPE, stderr=subprocess.PIPE, env=envp).returncode != 0:
            return {"setup_failed": True}
        with open(os.path.join(bindir, "ssh"), "w") as f:
            f.write(PROXY % (exe, b))
        os.chmod(os.path.join(bindir, "ssh"), 0o755)
        envp["PATH"] = bindir + ":" + envp["PATH"]
        p = subprocess.run([exe, "hub-sync", a, "fakehost:" + hub], stdout=subprocess.PIPE, stderr=subprocess.PIPE, env=envp, timeout=120, text=True)
        tree = {}
        for dd, dn, fs in os.walk(hub):
            if ".copia" in dd:
                continue
            for f in fs:
                tree[os.path.relpath(os.path.join(dd, f), hub)] = open(os.path.join(dd, f)).read()
        return {"rc": p.returncode, "hub": tree, "said": (p.stdout + p.stderr)[-200:]}
    finally:
        shutil.rmtree(base, ignore_errors=True)


def judge_stale(r):
    if r.get("setup_failed"):
        return None
    h = r["hub"]
    for f in ("a.txt", "b.txt"):
        if h.get(f) != "%s from-B" % f:
            return "%s on the hub holds %r: what client B committed after A's listing was overwritten (A never saw it)" % (f, h.get(f))
        if not any(k.startswith(f + ".conflict-") and v == "%s from-A" % f for k, v in h.items()):
            return "A's version of %s is not retrievable from a conflict copy" % f
    if h.get("keep.txt") != "keep":
        return "an unrelated hub file changed"
    if r["rc"] == 0:
        return "exit 0 although the hub changed underneath the run"
    return None


def stale_listing_witness(R):
    for prof in ("dev", "release"):
        r = stale_listing_case(prof)
        why = judge_stale(r)
        if why:
            case = {"fn": "hub_sync_stale_listing", "observed": {prof: r}}
            return {"confirmed": True, "replay_path": R.save_replay("C13/stale-listing", case), "key": "C13/hub_sync/stale-listing",
                    "detail": "two real clients (B commits between A's List and A's Puts; %s): %s" % (prof, why)}
    return {"confirmed": False, "detail": "with B committing between A's List and A's Puts, both of A's Puts lose their compare-and-swap: B's bytes stay, A's are in conflict copies, A exits non-zero"}


def run(R, tier, seed):
    R.trusted += ["rustc nightly MIR dump of the copia binary crate", "mirsmt encoder + std models (BTreeMap over an ordered path universe, iteration in key order)",
                  "z3 5.1 (deciding), cvc5 / z3 4.8.12 (re-deciding)", "native oracle: the real hub_sync talking to the real serve() loop in a child process over a pipe"]
    R.assumptions += ["CLIENT step only: the server end of the pipe is decided separately (C03, C10, C11, C12); HubClient::{connect,list,put,bye} are summaries in the "
                      "orchestration obligation (put is then decided on its own with the pipe as a recorder, and once more INSIDE hub_sync in C13/hub_sync+put, where only connect/list/bye/send/recv are summaries); the directory scan is an input",
                      "a second client acting between the List and a Put is C03's subject: the Put carries the LISTED hash as `expected` (decided here), so it cannot "
                      "overwrite what that client committed (decided there)"]
    ctx = Ctx()
    prover = Prover(R, tier)
    for what, f in (("hub_sync", lambda: sync_obligation(ctx, R, prover, 2 if tier == "quick" else 3)), ("HubClient::put", lambda: put_obligation(ctx, R, prover)),
                    ("hub_sync+put", lambda: sync_obligation(ctx, R, prover, 2, inline_put=True)),
                    ("serve-list-filter", lambda: list_filter_obligation(R, prover, 8 if tier == "quick" else 10))):
        try:
            f()
        except (Inconclusive, Unsupported) as e:
            R.add("C13/%s/encoding" % what, "inconclusive", detail=str(e)[:400])
    try:
        r = conformance(R, [], "C13/native", "C13/native")
        n = len(scenarios())
        R.validation["cases"] += 2 * n
        if r["confirmed"]:
            R.validation["disagreements"] += 1
            R.add("C13/native-end-to-end", "violated", confirmed=True, replay_path=r["replay_path"], key=r["key"], detail=r["detail"])
        else:
            R.add("C13/native-end-to-end", "holds", queries=0, solver_s=0.0, detail=r["detail"] + " (dev+release); validation, not the deciding step")
    except Inconclusive as e:
        R.add("C13/native-end-to-end", "inconclusive", detail=str(e)[:400])
    try:
        t = stale_listing_witness(R)
        if t["confirmed"]:
            R.add("C13/native-stale-listing", "violated", confirmed=True, replay_path=t["replay_path"], key=t["key"], detail=t["detail"])
        else:
            R.add("C13/native-stale-listing", "holds", queries=0, solver_s=0.0, detail=t["detail"] + " (the real binaries; validation, ONE interleaving)")
    except Exception as e:  # noqa: BLE001
        R.add("C13/native-stale-listing", "inconclusive", detail=str(e)[:300])


def replay(path):
    case = json.load(open(path))["case"]
    if case.get("fn") == "hub_sync_stale_listing":
        for prof in ("dev", "release"):
            r = stale_listing_case(prof)
            print(prof, json.dumps(r), "=>", judge_stale(r))
        return 0
    case.pop("observed", None)
    case.pop("deviation", None)
    out = {p: hubnative.run_cases([case], p)[0] for p in ("dev", "release")}
    print(json.dumps(out, indent=1)[:4000])
    for p, r in out.items():
        print(p, "judgement:", judge(case, r))
    return 0
