"""Native side of the hub / bisync obligations: builds /verif/replay-hub (the REAL serve.rs, wire.rs, bidir.rs,
archive.rs; private functions reached through a child module appended to a check-time copy), runs request scenarios
in a temporary directory, compares with the sequential reference semantics written from the property texts, and — for
ORDER obligations — observes the real system-call order with strace."""
import json, posixpath
import os
import re
import shutil
import subprocess

from mirsmt.env import REPO, VERIF, BUILD, Inconclusive, _cargo_env
from mirsmt import native

CRATE = os.path.join(VERIF, "replay-hub")
_built = {}

GEN = [("serve.rs", "serve_tail.rs", "gen_serve.rs"), ("bidir.rs", "bidir_tail.rs", "gen_bidir.rs"), ("archive.rs", "archive_tail.rs", "gen_archive.rs")]


def build(profile):
    if profile in _built:
        return _built[profile]
    shutil.copyfile(os.path.join(REPO, "Cargo.lock"), os.path.join(CRATE, "Cargo.lock"))
    for src, tail, out in GEN:
        tp = os.path.join(CRATE, "src", tail)
        if not os.path.exists(tp):
            continue
        body = open(os.path.join(REPO, "src/bin/copia", src)).read() + open(tp).read()
        op = os.path.join(CRATE, "src", out)
        if not os.path.exists(op) or open(op).read() != body:
            open(op, "w").write(body)
    tdir = os.path.join(BUILD, "replay-hub")
    cmd = ["cargo", "build", "--offline", "--target-dir", tdir] + (["--release"] if profile == "release" else [])
    env = _cargo_env()
    env["RUSTUP_TOOLCHAIN"] = native._repo_toolchain()
    p = subprocess.run(cmd, cwd=CRATE, env=env, stdout=subprocess.PIPE, stderr=subprocess.STDOUT, text=True)
    if p.returncode != 0:
        raise Inconclusive("hub replay binary does not build (%s):\n%s" % (profile, p.stdout[-3000:]))
    exe = os.path.join(tdir, "release" if profile == "release" else "debug", "copia-replay-hub")
    _built[profile] = exe
    return exe


def run_cases(cases, profile="dev", timeout=300):
    if not cases:
        return []
    exe = build(profile)
    inp = "\n".join(json.dumps(c) for c in cases) + "\n"
    try:
        p = subprocess.run([exe], input=inp, stdout=subprocess.PIPE, stderr=subprocess.PIPE, text=True, timeout=timeout)
    except subprocess.TimeoutExpired as e:
        so = e.stdout.decode() if isinstance(e.stdout, bytes) else (e.stdout or "")
        done = [json.loads(l) for l in so.split("\n") if l.startswith("{")]
        return done + [{"hang": "the real code did not return within %ds" % timeout}] + [{"crash": "not run (previous case hung)"}] * (len(cases) - len(done) - 1)
    lines = [l for l in p.stdout.split("\n") if l.startswith("{")]       # the real code prints progress lines of its own
    out = [json.loads(l) for l in lines]
    out += [{"crash": "replay process ended (rc=%s) %s" % (p.returncode, p.stderr[-300:])}] * (len(cases) - len(out))
    return out


# ----------------------------------------------------------------- sequential reference semantics (from the property texts)

def refused(path):
    """C11: a path that is absolute or has a `..` component is refused"""
    return path.startswith("/") or ".." in path.split("/")


def hx(b):
    return bytes(b).hex()


def expect_hub(case):
    """expected observable outcome of one request: kind of reply, tree afterwards, bytes consumed"""
    tree = dict(case.get("tree", {}))
    op, path = case["op"], case.get("path", "")
    if not refused(path):
        path = "/".join(x for x in path.split("/") if x not in ("", "."))      # the file the name denotes
    content = bytes.fromhex(case.get("content", ""))
    trailing = bytes.fromhex(case.get("trailing", ""))
    ln = case.get("len", len(content))
    avail = len(content) + len(trailing)
    exp = {"outside": ["outside/sentinel"]}
    present = path in tree
    e = case.get("expected")
    cas_eq = (e is None and not present) or e == "CURRENT"        # the oracle resolves CURRENT to the hash on disk (None if absent)
    if op == "put":
        exp["consumed"] = min(ln, avail)
        if refused(path):
            exp["reply"], exp["tree"] = "Error", tree
            return exp
        streamed = (content + trailing)[:exp["consumed"]]
        verified = case.get("hash", "CONTENT") == "CONTENT" and streamed == content and ln == len(streamed)
        if not verified:
            exp["reply"], exp["tree"] = "Error", tree
            return exp
        if cas_eq:
            tree[path] = hx(streamed)
            exp["reply"], exp["tree"], exp["committed"] = "PutResult", tree, True
        else:
            exp["reply"], exp["committed"], exp["conflict_copy_of"] = "PutResult", False, (path, hx(streamed))
            exp["tree"] = tree            # plus exactly one conflict sibling, checked separately
        return exp
    if op == "delete":
        exp["consumed"] = 0
        if refused(path):
            exp["reply"], exp["tree"] = "Error", tree
            return exp
        if cas_eq:
            tree.pop(path, None)
            exp["reply"], exp["tree"], exp["deleted"] = "DeleteResult", tree, True
        else:
            exp["reply"], exp["tree"], exp["deleted"] = "DeleteResult", tree, False
        return exp
    if op == "get":
        exp["consumed"] = 0
        exp["tree"] = tree
        if refused(path) or not present:
            exp["reply"] = "Error"
        else:
            exp["reply"], exp["streamed"] = "Content", tree[path]
        return exp
    raise ValueError(op)


def deviation(case, res):
    """None if the native outcome conforms to the reference, else a description"""
    if "panic" in res or "crash" in res:
        return "panic/crash: %s" % str(res)[:200]
    if case.get("abs_under_root"):
        reps = res.get("replies", [])
        if not reps or not reps[0].startswith("Error"):
            return "an ABSOLUTE path (under the served root) was not refused: %s" % (reps[:1],)
        after = dict(res.get("tree_after", {}))
        if after != case.get("tree"):
            return "an absolute path changed the tree: %s" % sorted(after)
        return None
    if case.get("in_step_only"):
        if res.get("ok") and res.get("replies") and res.get("consumed") != len(bytes.fromhex(case.get("content", ""))):
            return "the hub replied %s but consumed %s of the %d content bytes: the next bytes on the stream would be parsed as requests" % (
                res["replies"][0][:60], res.get("consumed"), len(bytes.fromhex(case.get("content", ""))))
        if res.get("outside") != ["outside/sentinel"]:
            return "files outside the served directory changed: %s" % res.get("outside")
        return None
    if case.get("truthful"):
        # only: the reply must be TRUE of the tree (an acknowledged commit is the live content, an acknowledged conflict copy exists,
        # an acknowledged delete removed the path)
        reps = res.get("replies", [])
        after = res.get("tree_after", {})
        p_ = case.get("path")
        if reps and "committed: true" in reps[0] and after.get(p_) != case.get("content"):
            return "the hub acknowledged the write as COMMITTED but %r does not hold the bytes afterwards (tree: %s)" % (p_, sorted(after))
        if reps and "committed: false" in reps[0] and not any(k.startswith(p_ + ".conflict-") and v == case.get("content") for k, v in after.items()):
            return "the hub reported a conflict copy but none holding the uploaded bytes exists (tree: %s)" % sorted(after)
        if reps and "deleted: true" in reps[0] and any(k == p_ or k.startswith(p_ + "/") for k in after):
            return "the hub acknowledged the delete but %r is still there (tree: %s)" % (p_, sorted(after))
        if res.get("outside") != ["outside/sentinel"]:
            return "files outside the served directory changed: %s" % res.get("outside")
        return None
    if case.get("degenerate"):
        if res.get("outside") != ["outside/sentinel"]:
            return "files outside the served directory changed: %s" % res.get("outside")
        return None
    exp = expect_hub(case)
    if not res.get("ok"):
        return "handler returned an I/O error on a healthy file system: %s" % res.get("err")
    reps = res.get("replies", [])
    if len(reps) != 1:
        return "expected exactly one reply frame, got %r" % (reps,)
    kind = reps[0].split(" ")[0].split("(")[0]
    if kind != exp["reply"]:
        return "reply %s, expected %s" % (reps[0][:80], exp["reply"])
    if res.get("consumed") != exp["consumed"]:
        return "consumed %s content bytes from the stream, expected %s" % (res.get("consumed"), exp["consumed"])
    if res.get("outside") != exp["outside"]:
        return "files outside the served directory changed: %s" % res.get("outside")
    after = dict(res.get("tree_after", {}))
    if case.get("stale_staging"):
        # staging names are reserved: whatever is left under them is not judged, every OTHER path is
        for k in list(after):
            if k.endswith(".copia-tmp"):
                after.pop(k)
        for k in list(exp["tree"]):
            if k.endswith(".copia-tmp"):
                exp["tree"].pop(k)
    if "conflict_copy_of" in exp:
        path, data = exp["conflict_copy_of"]
        sib = [k for k in after if k.startswith(path + ".conflict-")]
        want_name = path + ".conflict-" + res.get("content_hash", "")[:12]
        if sib != [want_name] or after.get(want_name) != data:
            return "conflict copy missing or wrong: siblings %s (expected %s holding the uploaded bytes)" % (sib, want_name)
        after.pop(want_name)
        if "committed: false" not in reps[0]:
            return "stale compare-and-swap reported as %s" % reps[0][:80]
    if after != exp["tree"]:
        return "tree after the request is %s, expected %s" % (json.dumps(after)[:200], json.dumps(exp["tree"])[:200])
    if exp.get("committed") is True and "committed: true" not in reps[0]:
        return "commit reported as %s" % reps[0][:80]
    if "deleted" in exp and ("deleted: true" in reps[0]) != exp["deleted"]:
        return "delete reported as %s, expected deleted=%s" % (reps[0][:80], exp["deleted"])
    if "streamed" in exp and res.get("raw_after_replies") != exp["streamed"]:
        return "streamed %s, expected the file content %s" % (res.get("raw_after_replies"), exp["streamed"])
    return None


def scenarios():
    tree = {"a.txt": hx(b"hi"), "d/b.bin": hx(b"\x00\x01\x02")}
    out = []
    # a legal 250-byte name whose `.copia-tmp` sibling exceeds NAME_MAX: staging cannot be created. Whatever the hub does
    # (I/O error ending the session, or an error reply), it must not leave content bytes unread behind an error REPLY
    out.append({"fn": "hub_step", "tree": tree, "op": "put", "path": "x" * 250, "expected": None, "content": hx(b"abcdef"), "hash": "CONTENT", "in_step_only": True})
    # an ABSOLUTE path that happens to lie under the served root is still absolute: refused
    for op in ("put", "get", "delete"):
        out.append({"fn": "hub_step", "tree": tree, "op": op, "path": "@ROOT@/planted/x", "expected": None, "content": hx(b"abc"), "hash": "CONTENT", "abs_under_root": True})
        out.append({"fn": "hub_step", "tree": tree, "op": op, "path": "@ROOT@/a.txt", "expected": "CURRENT", "content": hx(b"abc"), "hash": "CONTENT", "abs_under_root": True})
    # a name that is an existing DIRECTORY on the hub: whatever is replied must be true of the tree afterwards
    for e in (None, "STALE"):
        out.append({"fn": "hub_step", "tree": tree, "op": "put", "path": "d", "expected": e, "content": hx(b"abc"), "hash": "CONTENT", "truthful": True})
    out.append({"fn": "hub_step", "tree": tree, "op": "delete", "path": "d", "expected": None, "truthful": True})
    for path in ("a.txt", "d/b.bin", "new.txt", "d/e/new.txt", "../x", "/abs", "d/../../y", "d/..", "..", "a..b", "d/./b.bin",
                 "../newdir/sub/x", "../outside/sentinel", "d/../../outside/deep/er/z"):
        for e in (None, "CURRENT", "STALE"):
            for content in (b"", b"abc"):
                for hsh in ("CONTENT", "WRONG"):
                    for trailing, chunk in ((b"", 1 << 20), (b"\xff\xfe", 2)):
                        out.append({"fn": "hub_step", "tree": tree, "op": "put", "path": path, "expected": e, "content": hx(content),
                                    "hash": hsh, "trailing": hx(trailing), "chunk": chunk})
            out.append({"fn": "hub_step", "tree": tree, "op": "delete", "path": path, "expected": e})
        out.append({"fn": "hub_step", "tree": tree, "op": "get", "path": path})
    # a write that loses the compare-and-swap although it carries exactly the bytes the path already holds: it is still a
    # write that did not commit, so its bytes must be kept in a conflict copy (the live file may be replaced a moment later)
    for path, cur in (("a.txt", b"hi"), ("d/b.bin", b"\x00\x01\x02")):
        for e in (None, "STALE"):
            out.append({"fn": "hub_step", "tree": tree, "op": "put", "path": path, "expected": e, "content": hx(cur), "hash": "CONTENT"})
    # long names made of multi-byte characters (a byte offset into such a name is usually NOT a character boundary): every
    # request kind, on the accepting and on the refusing branch
    for stem in ("\u00e9" * 60, "\u4e2d\u6587" * 35, "a" + "\u00e9" * 70, "\U0001F600" * 30):
        for path in ("docs/" + stem, "../" + stem, "/" + stem):
            out.append({"fn": "hub_step", "tree": tree, "op": "get", "path": path})
            out.append({"fn": "hub_step", "tree": tree, "op": "delete", "path": path, "expected": None})
            out.append({"fn": "hub_step", "tree": tree, "op": "put", "path": path, "expected": None, "content": hx(b"abc"), "hash": "CONTENT"})
    # names of the served directory itself: only "nothing outside the root, no panic" is judged
    for path in ("", ".", "./", ".//"):
        for e in (None, "STALE"):
            out.append({"fn": "hub_step", "tree": tree, "op": "put", "path": path, "expected": e, "content": hx(b"abc"), "hash": "CONTENT", "degenerate": True})
        out.append({"fn": "hub_step", "tree": tree, "op": "delete", "path": path, "expected": None, "degenerate": True})
        out.append({"fn": "hub_step", "tree": tree, "op": "get", "path": path, "degenerate": True})
    # a stale staging file left behind by a write that died mid-stream must not leak into a later, shorter write
    stale = dict(tree)
    stale["a.txt.copia-tmp"] = hx(b"STALE-BYTES-OF-A-DEAD-WRITE")
    stale["new.txt.copia-tmp"] = hx(b"STALE-BYTES-OF-A-DEAD-WRITE")
    for path, e in (("a.txt", "CURRENT"), ("new.txt", None), ("a.txt", "STALE")):
        out.append({"fn": "hub_step", "tree": stale, "op": "put", "path": path, "expected": e, "content": hx(b"abc"), "hash": "CONTENT", "stale_staging": True})
    # declared length longer than the stream (truncated upload) and shorter than the content
    out.append({"fn": "hub_step", "tree": tree, "op": "put", "path": "new.txt", "expected": None, "content": hx(b"abc"), "len": 10, "hash": "CONTENT"})
    out.append({"fn": "hub_step", "tree": tree, "op": "put", "path": "a.txt", "expected": "CURRENT", "content": hx(b"abc"), "len": 10, "hash": "CONTENT"})
    out.append({"fn": "hub_step", "tree": tree, "op": "put", "path": "a.txt", "expected": "CURRENT", "content": hx(b"abcdef"), "len": 2, "hash": "CONTENT"})
    return out


def conformance(R, pid, oid, key, only=None):
    """run the scenario family natively (dev + release); first deviation -> confirmed witness dict, else not confirmed"""
    cases = [c for c in scenarios() if only is None or only(c)]
    for prof in ("dev", "release"):
        res = run_cases(cases, prof)
        for c, r in zip(cases, res):
            d = deviation(c, r)
            if d:
                c = dict(c)
                c["observed"] = {prof: r}
                c["deviation"] = d
                return {"confirmed": True, "replay_path": R.save_replay(oid, c), "key": key,
                        "detail": "hub %s %r (expected=%s, hash=%s, len=%s): native (%s) %s" % (
                            c["op"], c.get("path"), c.get("expected"), c.get("hash"), c.get("len", "content length"), prof, d)}
    return {"confirmed": False, "detail": "native hub handlers conform to the sequential reference on %d scenarios" % len(cases)}


# ----------------------------------------------------------------- system-call order of the real code (strace)

SYSCALLS = "openat,open,creat,rename,renameat,renameat2,unlink,unlinkat,flock,fsync,fdatasync,mkdir,mkdirat,write,close,statx,newfstatat,lstat,stat"


def strace_case(case, profile="dev"):
    """run ONE case under strace; returns the ordered list of (syscall, args-string, result) of the replay process
    after the world was set up"""
    exe = build(profile)
    tmpd = os.path.join(BUILD, "strace")
    os.makedirs(tmpd, exist_ok=True)
    log = os.path.join(tmpd, "trace-%d.log" % os.getpid())
    p = subprocess.run(["strace", "-f", "-y", "-e", "trace=" + SYSCALLS, "-o", log, exe], input=json.dumps(case) + "\n",
                       stdout=subprocess.PIPE, stderr=subprocess.PIPE, text=True, timeout=120)
    if p.returncode != 0 and not os.path.exists(log):
        raise Inconclusive("strace could not run the hub oracle: %s" % p.stderr[-300:])
    ev = []
    for line in open(log, errors="replace"):
        m = re.match(r"\d+\s+(\w+)\((.*)\)\s+=\s+(-?\d+|\?)", line)
        if m:
            ev.append((m.group(1), m.group(2), m.group(3)))
    try:
        os.remove(log)
    except OSError:
        pass
    res = [json.loads(l) for l in p.stdout.split("\n") if l.startswith("{")]
    return ev, (res[0] if res else {})


def _recorded_session(exe):
    """the byte stream a REAL client sends to the hub when it pushes one new file (magic, Hello, List, Put + content, Bye), captured by a
    stand-in for ssh that tees the client's output on its way to a real `copia serve`"""
    import shutil, tempfile
    base = tempfile.mkdtemp(prefix="copia-verif-rec-")
    try:
        local, hub, bindir, home = (os.path.join(base, x) for x in ("local", "hub", "bin", "home"))
        for x in (local, hub, bindir, home):
            os.makedirs(x)
        open(os.path.join(local, "planted.txt"), "w").write("planted by a frame that was never a frame")
        log = os.path.join(base, "stream.bin")
        with open(os.path.join(bindir, "ssh"), "w") as f:
            # like ssh, the stand-in must end when the remote command ends: the server is the main process, tee feeds it
            f.write('#!/bin/bash\nroot="${@: -1}"\nexec %s serve "$root" < <(tee %s)\n' % (exe, log))
        os.chmod(os.path.join(bindir, "ssh"), 0o755)
        envp = dict(os.environ, PATH=bindir + ":" + os.environ["PATH"], HOME=home)
        p = subprocess.run([exe, "hub-sync", local, "fakehost:" + hub], stdout=subprocess.PIPE, stderr=subprocess.PIPE, env=envp, timeout=60)
        data = open(log, "rb").read() if os.path.exists(log) else b""
        if p.returncode != 0 or not data.startswith(b"COPIA1") or not os.path.exists(os.path.join(hub, "planted.txt")):
            raise Inconclusive("could not record a client session (exit %d, %d bytes)" % (p.returncode, len(data)))
        return data
    finally:
        shutil.rmtree(base, ignore_errors=True)


def _split_frames(data):
    import struct
    out, i = [], 0
    while i + 4 <= len(data):
        n = struct.unpack(">I", data[i:i + 4])[0]
        out.append(data[i:i + 4 + n])
        i += 4 + n
    return out, data[i:]


def serve_session_check(R, oid, key):
    """one request, one reply: the real `copia serve` is fed a REAL client's recorded session (Hello, List, Put + content, Bye) with the
    Hello's version number varied over 0..23 (a well-framed, well-formed Hello whatever the number). The replies to the requests AFTER
    the Hello must be byte-for-byte those of the unmodified session on an identical fresh tree - an extra or missing reply frame shifts
    every later reply (seeded change c12-6)"""
    import shutil, tempfile
    from . import c04
    for prof in ("dev", "release"):
        exe = c04.build_copia(prof)
        data = _recorded_session(exe)
        # the first frame is the Hello; its CBOR body ends with the version number (a one-byte unsigned integer for 0..23)
        import struct
        n0 = struct.unpack(">I", data[6:10])[0]
        end = 10 + n0
        if data[end - 1] != 1:
            raise Inconclusive("the recorded Hello frame does not end with the version number 1")

        def session(bytes_):
            base = tempfile.mkdtemp(prefix="copia-verif-ses-")
            try:
                root = os.path.join(base, "hub")
                os.makedirs(root)
                open(os.path.join(root, "a.txt"), "wb").write(b"hi")
                p = subprocess.run([exe, "serve", root], input=bytes_, stdout=subprocess.PIPE, stderr=subprocess.PIPE, timeout=60)
                frames, rest = _split_frames(p.stdout)
                return p.returncode, frames, rest, os.path.exists(os.path.join(root, "planted.txt"))
            finally:
                shutil.rmtree(base, ignore_errors=True)
        rc0, ref, rest0, planted0 = session(data)
        if rc0 != 0 or rest0 or not planted0 or len(ref) < 3:
            raise Inconclusive("the unmodified recorded session did not run cleanly (status %d, %d reply frames)" % (rc0, len(ref)))
        for v in (0, 2, 3, 23):
            mod = data[:end - 1] + bytes([v]) + data[end:]
            rc, fr, rest, planted = session(mod)
            why = None
            if rc < 0 or rc >= 128:
                why = "the server crashed (status %d)" % rc
            elif len(fr) != len(ref) or rest:
                why = "%d reply frames for the same %d requests (unmodified session: %d)" % (len(fr), len(ref), len(ref))
            elif fr[1:] != ref[1:]:
                why = "the replies to the requests after the Hello differ from those of the unmodified session"
            elif not planted:
                why = "the Put after the Hello did not commit"
            if why:
                c = {"fn": "serve_session", "hello_version": v, "input": list(mod), "observed": {prof: {"rc": rc, "reply_frames": len(fr)}}, "deviation": why}
                return {"confirmed": True, "replay_path": R.save_replay(oid, c), "key": key,
                        "detail": "`copia serve` fed a real client's session with Hello{version:%d} (%s): %s" % (v, prof, why)}
    return {"confirmed": False, "detail": "`copia serve` answers a recorded client session frame for frame whatever the Hello's version number (0, 2, 3, 23; dev+release)"}


def serve_prologue_check(R, oid, key):
    """the real `copia serve ROOT` on inputs that never get as far as a well-formed request: the served tree (the `.copia` control
    directory aside) must be byte-for-byte what it was - including files that look like someone's staging files"""
    import shutil, tempfile
    from . import c04
    inputs = [("no input at all", b""), ("banner text instead of the magic", b"SSH-2.0-OpenSSH_9.6\r\n"), ("the magic and nothing else", b"COPIA1"),
              ("the magic and half a length prefix", b"COPIA1\x00\x00"), ("the magic and a frame cut short", b"COPIA1\x00\x00\x00\x10\xa1"),
              ("the magic and an oversized length prefix", b"COPIA1\xff\xff\xff\xff"), ("the magic and a frame that is not a request", b"COPIA1\x00\x00\x00\x01\xf6")]
    for prof in ("dev", "release"):
        exe = c04.build_copia(prof)
        # ONE oversized control frame (length prefix 2^20+1, the first refused length) whose BODY happens to be a complete valid session
        # - Hello, List, a Put that plants a file, Bye - padded to the announced length: by the framing there is no well-formed request in it
        import struct
        body = _recorded_session(exe)[6:]
        big = (1 << 20) + 1
        more = [("one oversized frame whose body looks like requests", b"COPIA1" + struct.pack(">I", big) + body + b"\x00" * (big - len(body)))]
        for label, data in inputs + more:
            base = tempfile.mkdtemp(prefix="copia-verif-srv-")
            try:
                root = os.path.join(base, "hub")
                os.makedirs(os.path.join(root, "d"))
                tree = {"a.txt": b"hi", "d/b.bin": b"\x00\x01", "upload.copia-tmp": b"another server's write in flight", "d/x.copia-tmp": b"partial"}
                for k, v in tree.items():
                    open(os.path.join(root, k), "wb").write(v)
                p = subprocess.run([exe, "serve", root], input=data, stdout=subprocess.PIPE, stderr=subprocess.PIPE, timeout=60)
                after = {}
                for dd, _, fs in os.walk(root):
                    if os.path.relpath(dd, root).split(os.sep)[0] == ".copia":
                        continue
                    for f in fs:
                        after[os.path.relpath(os.path.join(dd, f), root)] = open(os.path.join(dd, f), "rb").read()
                why = None
                if p.returncode < 0 or p.returncode >= 128 or b"panicked" in p.stderr:
                    why = "the server crashed (status %d): %s" % (p.returncode, p.stderr.decode(errors="replace")[-160:])
                elif after != tree:
                    gone = sorted(set(tree) - set(after))
                    why = "the served tree changed before any well-formed request: %s" % (("removed " + ", ".join(gone)) if gone else "content differs")
                if why:
                    c = {"fn": "serve_prologue", "label": label, "input": list(data), "observed": {prof: {"rc": p.returncode, "tree_after": sorted(after)}}, "deviation": why}
                    return {"confirmed": True, "replay_path": R.save_replay(oid, c), "key": key, "detail": "`copia serve` given %s (%s): %s" % (label, prof, why)}
            finally:
                shutil.rmtree(base, ignore_errors=True)
    return {"confirmed": False, "detail": "`copia serve` leaves the served tree untouched on %d inputs that never reach a well-formed request (dev+release)" % (len(inputs) + 1)}


def outside_check(R, oid, key, only=None):
    """strace of the degenerate / refused / odd-path scenarios: NO create, mkdir, rename or unlink by path may name anything under
    the oracle's world directory that is not the served root or below it - also not transiently (a staging file that is created
    next to the root and removed again leaves no trace in the tree afterwards)"""
    own = ("/world", "/world/outside", "/world/outside/sentinel")
    cases = [c for c in scenarios() if (c.get("degenerate") or c.get("abs_under_root") or c.get("path", "").startswith(("..", "/")) or c.get("path") in ("d/..", "d/../../y", "d/../../outside/deep/er/z"))
             and (only is None or only(c)) and not c.get("trailing")]
    cases.sort(key=lambda c: 0 if c.get("degenerate") else 1)
    cases = cases[:160]
    for c in cases:
        ev, res = strace_case(c, "dev")
        base = None
        for nm, args, rc in ev:
            m = re.search(r'"(/[^"]*/copia-verif-hub-\d+)/world', args)
            if m:
                base = m.group(1)
                break
        if base is None:
            continue
        for nm, args, rc in ev:
            if nm not in ("openat", "open", "creat", "mkdir", "mkdirat", "rename", "renameat", "renameat2", "unlink", "rmdir", "symlink", "link"):
                continue
            if nm in ("openat", "open") and not re.search(r"O_CREAT|O_TRUNC|O_WRONLY|O_RDWR", args):
                continue
            for pth in re.findall(r'"(%s[^"]*)"' % re.escape(base), args):
                # lexical normalisation: <root>/../x names <world>/x although it is spelt with the root as a prefix (seeded change c11-5)
                rel = posixpath.normpath(pth[len(base):]) if pth[len(base):] else ""
                if rel in own or rel == "" or rel == "/world/root" or rel.startswith("/world/root/"):
                    continue
                cc = dict(c)
                cc["observed"] = {"dev": {"syscall": "%s(%s) = %s" % (nm, args.replace(base, "<B>")[:200], rc)}}
                cc["deviation"] = "a path outside the served root is touched: <B>%s (served root: <B>/world/root)" % rel
                cc["strace"] = True
                return {"confirmed": True, "replay_path": R.save_replay(oid, cc), "key": key,
                        "detail": "hub %s %r: %s(..%s..) touches a path OUTSIDE the served root (strace; it may be gone again afterwards)" % (c["op"], c.get("path"), nm, rel)}
    return {"confirmed": False, "detail": "strace: no request names a path outside the served root on %d odd-path scenarios" % len(cases)}


def logical_trace(ev, path):
    """map raw syscalls to the logical operations on the live path / staging / lock file, in order, starting at the
    handler (after the world set-up: from the first event that touches commit.lock, the staging name or happens after the
    last set-up write)"""
    out = []
    live = "/root/" + path
    for name, args, rc in ev:
        if "/world/" not in args:
            continue
        def has(s):
            return s in args
        if name == "flock":
            out.append(("lock" if "LOCK_EX" in args else "unlock", "lockfile", rc))
        elif name in ("rename", "renameat", "renameat2"):
            paths = re.findall(r'"([^"]*)"', args)
            if len(paths) >= 2:
                out.append(("rename", (_lname(paths[0], live), _lname(paths[1], live)), rc))
        elif name in ("unlink", "unlinkat"):
            paths = re.findall(r'"([^"]*)"', args)
            if paths:
                out.append(("remove", _lname(paths[-1], live), rc))
        elif name in ("fsync", "fdatasync"):
            m = re.search(r"<([^>]*)>", args)
            out.append(("sync", _lname(m.group(1) if m else "?", live), rc))
        elif name in ("openat", "open", "creat"):
            paths = re.findall(r'"([^"]*)"', args)
            if paths:
                mode = "create" if ("O_CREAT" in args or name == "creat") else "open"
                out.append((mode, _lname(paths[-1], live), rc))
        elif name in ("statx", "newfstatat", "lstat", "stat"):
            paths = re.findall(r'"([^"]*)"', args)
            if paths:
                out.append(("stat", _lname(paths[-1], live), rc))
        elif name == "write":
            m = re.search(r"<([^>]*)>", args)
            if m and "/world/" in m.group(1):
                out.append(("write", _lname(m.group(1), live), rc))
    return out


def _lname(p, live):
    if p.endswith("/.copia/commit.lock"):
        return "lockfile"
    if p.endswith(live):
        return "live"
    if p.endswith(live + ".copia-tmp"):
        return "staging"
    if (live + ".conflict-") in p:
        return "conflict"
    return os.path.basename(p)


def required_order(what, trace):
    """the order the obligations demand of the real system calls; returns a description of the first breach or None"""
    ops = [(k, t) if not (k == "stat" and rc == "0") else ("stat-ok", t) for k, t, rc in trace]
    # ("stat", live) from here on means a stat that FAILED (the path does not exist): only then does a stat count as
    # "the current content was read"; an existing file must be opened and hashed inside the critical section

    def idx(pred, start=0):
        for i in range(start, len(ops)):
            if pred(ops[i]):
                return i
        return -1
    if any((o[0] == "remove" and o[1] == "lockfile") or (o[0] == "rename" and "lockfile" in o[1]) for o in ops):
        return "the lock file is removed/renamed while in use (a waiter then holds a lock on an unlinked inode)"
    if what == "handle_put":
        for o in ops:
            if o[0] == "rename" and o[1][1] in ("live", "conflict") and o[1][0] != "staging":
                return "content reaches %s by a rename from `%s`, which is not the reserved `<path>.copia-tmp` staging name (two different paths can then share one staging file)" % (o[1][1], o[1][0])
        ren = idx(lambda o: o[0] == "rename" and o[1][0] == "staging")
        if ren < 0:
            return None                       # nothing published in this scenario
        cr = idx(lambda o: o == ("create", "staging"))
        sy = idx(lambda o: o == ("sync", "staging"))
        lk = idx(lambda o: o == ("lock", "lockfile"))
        ul = idx(lambda o: o == ("unlock", "lockfile"), lk + 1 if lk >= 0 else 0)
        rd = idx(lambda o: o in (("open", "live"), ("stat", "live")), lk + 1 if lk >= 0 else 0)
        if any(o == ("create", "live") for o in ops[cr if cr >= 0 else 0:]) or any(o == ("write", "live") for o in ops[cr if cr >= 0 else 0:]):
            return "the live path is opened for writing directly"
        if cr < 0 or not (cr < ren):
            return "no staging file is created before the rename"
        if sy < 0 or not (sy < ren):
            return "the staging file is not synced before it is renamed into place"
        if lk < 0 or not (lk < ren) or (ul >= 0 and ul < ren):
            return "the rename is not inside the exclusive-lock section"
        if ops[ren][1][1] == "live" and (rd < 0 or not (lk < rd < ren)):
            # the current hash may legitimately be absent (file does not exist: the open fails but is still attempted)
            return "the current content is not read between taking the lock and the rename"
        if ul < 0:
            return "the lock is never released"
        return None
    if what == "handle_delete":
        rm = idx(lambda o: o == ("remove", "live"))
        if rm < 0:
            return None
        lk = idx(lambda o: o == ("lock", "lockfile"))
        ul = idx(lambda o: o == ("unlock", "lockfile"), lk + 1 if lk >= 0 else 0)
        rd = idx(lambda o: o in (("open", "live"), ("stat", "live")), lk + 1 if lk >= 0 else 0)
        if lk < 0 or not (lk < rm) or (ul >= 0 and ul < rm):
            return "the removal is not inside the exclusive-lock section"
        if rd < 0 or not (lk < rd < rm):
            return "the current content is not read between taking the lock and the removal"
        return None
    return None


def order_check(R, oid, key, what):
    tree = {"a.txt": hx(b"hi")}
    if what == "handle_put":
        cases = [{"fn": "hub_step", "tree": tree, "op": "put", "path": "a.txt", "expected": "CURRENT", "content": hx(b"abc")},
                 {"fn": "hub_step", "tree": tree, "op": "put", "path": "a.txt", "expected": "STALE", "content": hx(b"abc")},
                 {"fn": "hub_step", "tree": tree, "op": "put", "path": "n/new.txt", "expected": None, "content": hx(b"abc"), "chunk": 1}]
    elif what == "handle_delete":
        cases = [{"fn": "hub_step", "tree": tree, "op": "delete", "path": "a.txt", "expected": "CURRENT"}]
    else:
        return {"confirmed": False, "detail": "no order requirement for %s" % what}
    for prof in ("dev", "release"):
        for c in cases:
            ev, res = strace_case(c, prof)
            # the handler's part of the trace: after the set-up wrote the tree (last write to the sentinel/live during set-up
            # precedes the first access to the staging or lock file)
            tr = logical_trace(ev, c["path"])
            start = 0
            for i, (k, t, rc) in enumerate(tr):
                if (k, t) in (("create", "staging"), ("create", "lockfile")):
                    start = i
                    break
            # include the hash read that may precede the lock in a broken ordering: back up over 'open live' events
            while start > 0 and tr[start - 1][:2] in (("open", "live"), ("stat", "live")):
                start -= 1
            breach = required_order(what, tr[start:])
            if breach:
                c = dict(c)
                c["observed"] = {prof: {"syscalls": [[k, t, rc] for k, t, rc in tr[start:start + 40]], "result": res}}
                c["deviation"] = breach
                c["strace"] = True
                return {"confirmed": True, "replay_path": R.save_replay(oid, c), "key": key,
                        "detail": "real system-call order of %s %r (%s): %s" % (c["op"], c["path"], prof, breach)}
    return {"confirmed": False, "detail": "the real system-call order (strace) of commit / conflict / delete is the required one"}
