"""C04 — recursive one-way sync delivers exactly its plan: the LOCAL->LOCAL step, from MIR.

Decided (sequential, ONE schedule: every future is run to completion at its await, a spawned task at its spawn point):
(1) deliver_local: copy to the `.copia-tmp` sibling, rename over the destination only after the copy succeeded, then set
    the mtime it was given; the destination is never written directly; errors are reported.
(2) run_local's orchestration with the plan an arbitrary SyncPlan (build_plan itself is decided under C19): exactly the
    plan's transfer entries are delivered, each from src/rel to dst/rel with the SOURCE's mtime; exactly the plan's delete
    entries are removed from the destination, after all deliveries; a dry run and an empty source without --delete
    request nothing; nothing is ever requested under the source root.
NOT explored: other task schedules (the job count), push/pull over ssh (remote shell), crash points.
"""
import json
import os
import re
import subprocess
import z3

from mirsmt import env, stdmodels, patchmodels, codecmodels, fsmodels, itermodels, asyncmodels
from mirsmt.env import REPO, BUILD, _cargo_env
from mirsmt.fsmodels import PJ, PS, lit_id, pathv, strv
from mirsmt.symexec import (Executor, State, VInt, VBool, VStruct, VEnum, VRef, VSeq, VList, VOpaque, UNIT, I, simp, Unsupported)
from mirsmt.env import model_int, model_bool, Inconclusive
from mirsmt.stdmodels import opt_sym
from mirsmt.prove import Prover
from .hublib import _any, _all, source_fns
from . import hubnative


class Ctx:
    def __init__(self):
        want = source_fns("incremental.rs") | {"create_local_dirs", "collect_dirs", "join_handles", "build_plan", "set_local_mtime"}

        def keep(n):
            return (n in want or n.startswith(tuple(w + "::" for w in want)) or n.startswith("incremental::")) and not n.startswith("apply_remote")
        self.mir, self.mir_path, self.dump_s = env.load("bin", keep)
        self.idx = env.impl_index(self.mir)
        self.enums = env.source_enums()

    def ex(self, K=4):
        e = Executor(self.mir, self.enums, K=K)
        e.impl_index = self.idx
        stdmodels.install_core(e)
        stdmodels.install_time_fs(e)
        itermodels.install(e)
        e.byte_cap = 4
        patchmodels.install(e)
        codecmodels.install(e)
        fsmodels.install(e)
        asyncmodels.install(e)
        return e


def _tokio_fs(ex):
    def tcopy(ex_, st, args, dest_ty, func, where):
        ok = ex_.fresh_bool("copy_ok")
        fsmodels.record(ex_, st, "copy", path=fsmodels.path_term(ex_, st, args[0]), to=fsmodels.path_term(ex_, st, args[1]), ok=ok)
        return asyncmodels.ready(fsmodels.io_result(ex_, ok, VInt(ex_.fresh_int("copied", ty="u64"), "u64")))

    def trename(ex_, st, args, dest_ty, func, where):
        ok = ex_.fresh_bool("rename_ok")
        fsmodels.record(ex_, st, "rename", path=fsmodels.path_term(ex_, st, args[0]), to=fsmodels.path_term(ex_, st, args[1]), ok=ok)
        return asyncmodels.ready(fsmodels.io_result(ex_, ok))

    def poll_ready(ex_, st, args, dest_ty, func, where):
        pin = args[0]
        ref = pin.f[0] if isinstance(pin, VStruct) and pin.name == "Pin" else pin
        v = fsmodels._deep(ex_, st, ref)
        if not (isinstance(v, VStruct) and v.name == "ReadyFuture"):
            raise Unsupported("poll of %r" % (v,))
        return VEnum("Poll", I(0), {0: [v.f[0]]})

    def tremove(ex_, st, args, dest_ty, func, where):
        ok = ex_.fresh_bool("remove_ok")
        fsmodels.record(ex_, st, "remove_file", path=fsmodels.path_term(ex_, st, args[0]), ok=ok)
        return asyncmodels.ready(fsmodels.io_result(ex_, ok))

    def tmeta(ex_, st, args, dest_ty, func, where):
        # what the file system says about a path: all inputs (kind, permission bits, length)
        ok = ex_.fresh_bool("metadata_ok")
        fsmodels.record(ex_, st, "metadata", path=fsmodels.path_term(ex_, st, args[0]), ok=ok)
        m = VStruct("TMetadata", [VBool(ex_.fresh_bool("is_file")), VBool(ex_.fresh_bool("is_dir")), VBool(ex_.fresh_bool("readonly")), VInt(ex_.fresh_int("len", ty="u64"), "u64")])
        return asyncmodels.ready(fsmodels.io_result(ex_, ok, m))

    def mfield(i):
        def h(ex_, st, args, dest_ty, func, where):
            m = fsmodels._deep(ex_, st, args[0])
            if not (isinstance(m, VStruct) and m.name in ("TMetadata", "TPermissions")):
                raise Unsupported("metadata accessor on %r" % (m,))
            return m.f[i] if m.name == "TMetadata" else m.f[0]
        return h

    def mperm(ex_, st, args, dest_ty, func, where):
        m = fsmodels._deep(ex_, st, args[0])
        if not (isinstance(m, VStruct) and m.name == "TMetadata"):
            raise Unsupported("permissions of %r" % (m,))
        return VStruct("TPermissions", [m.f[2]])
    ex.models = [(re.compile(r"^tokio::fs::remove_file::<"), tremove, "tokio::fs::remove_file (recorded)"),
                 (re.compile(r"^tokio::fs::(symlink_)?metadata::<"), tmeta, "tokio::fs::metadata / symlink_metadata (recorded; kind, permissions and length are inputs)"),
                 (re.compile(r"^(std::fs::)?Metadata::is_file$"), mfield(0), "Metadata::is_file"),
                 (re.compile(r"^(std::fs::)?Metadata::is_dir$"), mfield(1), "Metadata::is_dir"),
                 (re.compile(r"^(std::fs::)?Metadata::permissions$"), mperm, "Metadata::permissions"),
                 (re.compile(r"^(std::fs::)?Permissions::readonly$"), mfield(0), "Permissions::readonly"),
                 (re.compile(r"^tokio::fs::copy::<"), tcopy, "tokio::fs::copy (recorded; completes at the await)"),
                 (re.compile(r"^tokio::fs::rename::<"), trename, "tokio::fs::rename (recorded; completes at the await)"),
                 (re.compile(r"^<\{async fn body of (tokio::fs::\w+<.*>|Semaphore::acquire|transfer::join_handles|join_handles)\(\)\} as (std::future::)?Future>::poll$"), poll_ready, "poll of an immediately-ready library future"),
                 ] + ex.models


def deliver_obligation(ctx, R, prover):
    ex = ctx.ex()
    _tokio_fs(ex)
    SRC, DST = z3.Int("SRC_FILE"), z3.Int("DST_FILE")
    has_m = ex.fresh_bool("mtime_given")
    mt = ex.fresh_int("mtime", ty="i64")

    def s_setm(ex_, st, args, dest_ty, func, where):
        ok = ex_.fresh_bool("set_mtime_ok")
        fsmodels.record(ex_, st, "set-mtime", path=fsmodels.path_term(ex_, st, args[0]), ok=ok, secs=args[1].t)
        return fsmodels.io_result(ex_, ok)
    ex.summaries["set_local_mtime"] = s_setm
    st = State()
    st.frames[0] = {"co": VEnum("Coroutine", I(0), {-1: [VRef("val", val=pathv(SRC)), VRef("val", val=pathv(DST)), opt_sym(has_m, VInt(mt, "i64"))]})}
    body = asyncmodels.find_body(ex, "async fn body of incremental::deliver_local()")
    fn = ex.find_fn(body) if body else None
    if fn is None:
        raise Inconclusive("no MIR body for deliver_local's state machine")
    poll = ex.exec_fn(fn, [VStruct("Pin", [VRef("place", 0, "co")]), VOpaque("Context")], st)
    if poll is None or 0 not in poll.pay:
        raise Inconclusive("deliver_local never becomes Ready")
    ex.exit_guards.append(st.guard)
    res = poll.pay[0][0]
    ok = z3.And(poll.discr == 0, res.discr == 0)
    eff = fsmodels.effects(ex)
    tmp = PS(DST, lit_id(".copia-tmp"))
    ex.assumes += [tmp != DST, tmp != SRC, SRC != DST]
    copies = [e for e in eff if e["call"] == "copy"]
    renames = [e for e in eff if e["call"] == "rename"]
    setm = [e for e in eff if e["call"] == "set-mtime"]
    goals = {
        "the-future-completes": poll.discr == 0,
        "only-copy(src->dst.copia-tmp),-rename(dst.copia-tmp->dst)-and-set-mtime(dst)-are-requested": z3.And(
            _all(z3.Implies(c["guard"], z3.And(c["path"] == SRC, c["to"] == tmp)) for c in copies),
            _all(z3.Implies(r["guard"], z3.And(r["path"] == tmp, r["to"] == DST)) for r in renames),
            _all(z3.Implies(m["guard"], m["path"] == DST) for m in setm),
            z3.BoolVal(all(e["call"] in ("copy", "rename", "set-mtime") for e in eff))),
        "the-rename-happens-only-after-a-successful-copy": _all(
            z3.Implies(r["guard"], _any(z3.And(c["guard"], c["ok"]) for c in copies if c["seq"] < r["seq"])) for r in renames),
        "the-mtime-is-set-to-the-given-second,-after-a-successful-rename,-exactly-when-one-was-given": z3.And(
            _all(z3.Implies(m["guard"], z3.And(has_m, m["secs"] == mt, _any(z3.And(r["guard"], r["ok"]) for r in renames if r["seq"] < m["seq"]))) for m in setm),
            z3.Implies(z3.And(ok, has_m), _any(m["guard"] for m in setm))),
        "Ok-exactly-when-copy-and-rename-succeeded": ok == z3.And(_any(z3.And(c["guard"], c["ok"]) for c in copies), _any(z3.And(r["guard"], r["ok"]) for r in renames)),
    }
    prover.prove(ex, goals, "C04/deliver_local", "any source / destination names, any optional mtime (full i64), copy / rename / set-mtime may each fail; the future is run to completion (one schedule)",
                 ["deliver_local (state machine)", "tmp_path"], native_witness(R, "C04"), covers={"ok-reachable": ok})


def deliver_pull_obligation(ctx, R, prover, pid="C09"):
    ex = ctx.ex()
    _tokio_fs(ex)
    DST = z3.Int("LOCAL_DEST")
    has_m = ex.fresh_bool("mtime_given")
    mt = ex.fresh_int("mtime", ty="i64")

    def s_setm(ex_, st, args, dest_ty, func, where):
        ok = ex_.fresh_bool("set_mtime_ok")
        fsmodels.record(ex_, st, "set-mtime", path=fsmodels.path_term(ex_, st, args[0]), ok=ok, secs=args[1].t)
        return fsmodels.io_result(ex_, ok)

    def s_stream(ex_, st, args, dest_ty, func, where):
        ok = ex_.fresh_bool("remote_cat_ok")
        fsmodels.record(ex_, st, "stream-remote-to", path=fsmodels.path_term(ex_, st, args[2]), ok=ok)
        return asyncmodels.ready(VEnum("Result", simp(z3.If(ok, I(0), I(1))), {0: [VInt(ex_.fresh_int("size", ty="u64"), "u64")], 1: [VOpaque("error text")]}))
    ex.summaries["set_local_mtime"] = s_setm
    ex.summaries["transfer_file_from_remote"] = s_stream
    ex.models = [(re.compile(r"^<\{async fn body of (dir_sync::)?transfer_file_from_remote\(\)\} as (std::future::)?Future>::poll$"),
                  lambda ex_, st, a, d, f, w: VEnum("Poll", I(0), {0: [fsmodels._deep(ex_, st, a[0].f[0] if isinstance(a[0], VStruct) else a[0]).f[0]]}), "poll of the (summarised) remote stream")] + ex.models
    st = State()
    st.frames[0] = {"co": VEnum("Coroutine", I(0), {-1: [VRef("val", val=strv(z3.Int("HOST"))), VRef("val", val=strv(z3.Int("REMOTE_FILE"))), VRef("val", val=pathv(DST)), opt_sym(has_m, VInt(mt, "i64"))]})}
    body = asyncmodels.find_body(ex, "async fn body of incremental::deliver_pull()")
    fn = ex.find_fn(body) if body else None
    if fn is None:
        raise Inconclusive("no MIR body for deliver_pull's state machine")
    poll = ex.exec_fn(fn, [VStruct("Pin", [VRef("place", 0, "co")]), VOpaque("Context")], st)
    if poll is None or 0 not in poll.pay:
        raise Inconclusive("deliver_pull never becomes Ready")
    ex.exit_guards.append(st.guard)
    res = poll.pay[0][0]
    ok = z3.And(poll.discr == 0, res.discr == 0)
    eff = fsmodels.effects(ex)
    tmp = PS(DST, lit_id(".copia-tmp"))
    ex.assumes += [tmp != DST]
    streams = [e for e in eff if e["call"] == "stream-remote-to"]
    renames = [e for e in eff if e["call"] == "rename"]
    goals = {
        "the-remote-file-is-streamed-to-the-.copia-tmp-sibling,-never-to-the-destination": _all(z3.Implies(e["guard"], e["path"] == tmp) for e in streams),
        "the-destination-is-only-ever-the-target-of-a-rename-of-its-staging-sibling,-after-the-remote-stream-succeeded": z3.And(
            _all(z3.Implies(r["guard"], z3.And(r["path"] == tmp, r["to"] == DST, _any(z3.And(s_["guard"], s_["ok"]) for s_ in streams if s_["seq"] < r["seq"]))) for r in renames),
            z3.BoolVal(all(e["call"] in ("stream-remote-to", "rename", "set-mtime") for e in eff))),
        "Ok-exactly-when-stream-and-rename-succeeded": ok == z3.And(_any(z3.And(s_["guard"], s_["ok"]) for s_ in streams), _any(z3.And(r["guard"], r["ok"]) for r in renames)),
    }
    prover.prove(ex, goals, "%s/deliver_pull" % pid, "any names, optional mtime; the remote stream (summarised), rename and set-mtime may each fail; one schedule",
                 ["deliver_pull (state machine)", "tmp_path"], None, covers={"ok-reachable": ok})


def pull_stream_obligation(ctx, R, prover, pid="C09"):
    """dir_sync::transfer_file_from_remote (the body inside #[instrument]) from MIR: the ssh child, its stdout pipe and the
    local file are recorders with arbitrary outcomes"""
    pctx = PullCtx()
    ex = Executor(pctx.mir, pctx.enums, K=4)
    ex.impl_index = pctx.idx
    stdmodels.install_core(ex)
    stdmodels.install_time_fs(ex)
    itermodels.install(ex)
    ex.byte_cap = 4
    patchmodels.install(ex)
    codecmodels.install(ex)
    fsmodels.install(ex)
    asyncmodels.install(ex)
    LOCAL = z3.Int("LOCAL_PATH")
    ev = {}

    def opaque(ex_, st, args, dest_ty, func, where):
        return VOpaque(func[:30])

    def text(ex_, st, args, dest_ty, func, where):
        return strv(lit_id("text:" + where))

    def cmd_new(ex_, st, args, dest_ty, func, where):
        return VStruct("Command", [])

    def cmd_set(ex_, st, args, dest_ty, func, where):
        return args[0]

    def spawn(ex_, st, args, dest_ty, func, where):
        ok = ex_.fresh_bool("spawn_ok")
        has_out = ex_.fresh_bool("child_stdout_present")
        ev["spawn"] = fsmodels.record(ex_, st, "spawn-ssh", path=I(0), ok=ok)
        ev["has_out"] = has_out
        child = VStruct("Child", [VOpaque("inner"), VEnum("Option", I(0), {0: []}), opt_sym(has_out, VStruct("ChildStdout", [])), VEnum("Option", I(0), {0: []})])
        return fsmodels.io_result(ex_, ok, child)

    def opt_take(ex_, st, args, dest_ty, func, where):
        ref = args[0]
        cur = ex_.deref(st, ref)
        ex_.store_ref(st, ref, VEnum("Option", I(0), {0: []}))
        return cur

    def ok_or_else(ex_, st, args, dest_ty, func, where):
        o = fsmodels._deep(ex_, st, args[0])
        return VEnum("Result", simp(z3.If(o.discr == 1, I(0), I(1))), {0: list(o.pay.get(1, [VOpaque("none")])), 1: [strv(lit_id("no stdout"))]})

    def tcreate(ex_, st, args, dest_ty, func, where):
        ok = ex_.fresh_bool("create_ok")
        p_ = fsmodels.path_term(ex_, st, args[0])
        e = fsmodels.record(ex_, st, "create", path=p_, ok=ok, flags={"create": z3.BoolVal(True), "truncate": z3.BoolVal(True), "write": z3.BoolVal(True),
                                                                         "read": z3.BoolVal(False), "append": z3.BoolVal(False), "create_new": z3.BoolVal(False)})
        return asyncmodels.ready(fsmodels.io_result(ex_, ok, VStruct("File", [VInt(p_, "usize"), VInt(I(e["seq"]), "usize")])))

    def topen(ex_, st, args, dest_ty, func, where):
        oo = fsmodels._deep(ex_, st, args[0])
        ok = ex_.fresh_bool("open_ok")
        p_ = fsmodels.path_term(ex_, st, args[1])
        flags = {k: oo.f[i].t for i, k in enumerate(fsmodels.OO_FLAGS)} if isinstance(oo, VStruct) and oo.name == "OpenOptions" else {}
        e = fsmodels.record(ex_, st, "open-options", path=p_, ok=ok, flags=flags)
        return asyncmodels.ready(fsmodels.io_result(ex_, ok, VStruct("File", [VInt(p_, "usize"), VInt(I(e["seq"]), "usize")])))

    def tcopy(ex_, st, args, dest_ty, func, where):
        f = fsmodels._file_of(ex_, st, args[1])
        ok = ex_.fresh_bool("stream_ok")
        n = ex_.fresh_int("streamed", ty="u64")
        ev.setdefault("copies", []).append(fsmodels.record(ex_, st, "stream-into", path=f.f[0].t, ok=ok, count=n))
        return asyncmodels.ready(fsmodels.io_result(ex_, ok, VInt(n, "u64")))

    def tflush(ex_, st, args, dest_ty, func, where):
        ok = ex_.fresh_bool("flush_ok")
        ev.setdefault("flushes", []).append(fsmodels.record(ex_, st, "flush-file", path=fsmodels._file_of(ex_, st, args[0]).f[0].t, ok=ok))
        return asyncmodels.ready(fsmodels.io_result(ex_, ok))

    def wait(ex_, st, args, dest_ty, func, where):
        ok = ex_.fresh_bool("wait_ok")
        succ = ex_.fresh_bool("exit_success")
        # an exit status either carries a code (0..255) or the child was killed by a signal (no code); success <=> code 0
        has_code, code = ex_.fresh_bool("has_exit_code"), ex_.fresh_int("exit_code", lo=0, hi=255)
        ex_.assumes.append(succ == z3.And(has_code, code == 0))
        ev["wait"] = fsmodels.record(ex_, st, "wait-child", path=I(0), ok=ok, success=succ)
        out = VStruct("Output", [VStruct("ExitStatus", [VBool(succ), VBool(has_code), VInt(code, "i32")]), VSeq(z3.K(z3.IntSort(), I(0)), I(0), I(0), "u8"), VSeq(z3.K(z3.IntSort(), I(0)), I(0), I(0), "u8")])
        return asyncmodels.ready(fsmodels.io_result(ex_, ok, out))

    def success(ex_, st, args, dest_ty, func, where):
        return VBool(fsmodels._deep(ex_, st, args[0]).f[0].t)

    def exit_code(ex_, st, args, dest_ty, func, where):
        e = fsmodels._deep(ex_, st, args[0])
        return opt_sym(e.f[1].t, VInt(e.f[2].t, "i32"))

    def poll_ready(ex_, st, args, dest_ty, func, where):
        pin = args[0]
        ref = pin.f[0] if isinstance(pin, VStruct) and pin.name == "Pin" else pin
        v = fsmodels._deep(ex_, st, ref)
        if not (isinstance(v, VStruct) and v.name == "ReadyFuture"):
            raise Unsupported("poll of %r" % (v,))
        return VEnum("Poll", I(0), {0: [v.f[0]]})
    ex.models = [(re.compile(r"^std::str::<impl str>::replace::<char>$|^(std::string::)?String::from_utf8_lossy$|^core::str::<impl str>::trim(_end|_start)?$"), text, "text plumbing (opaque)"),
                 (re.compile(r"^<Cow<'_, str> as Deref>::deref$"), lambda ex_, st, a, d, f, w: VRef("val", val=fsmodels._deep(ex_, st, a[0])), "Cow<str> deref (opaque text)"),
                 (re.compile(r"^tokio::process::Command::new::<"), cmd_new, "Command::new"),
                 (re.compile(r"^tokio::process::Command::(arg|stdout|stderr|stdin)::<"), cmd_set, "Command builder"),
                 (re.compile(r"^Stdio::piped$|^Stdio::null$"), opaque, "Stdio"),
                 (re.compile(r"^tokio::process::Command::spawn$"), spawn, "Command::spawn (recorded; any outcome)"),
                 (re.compile(r"^(std::option::)?Option::<tokio::process::ChildStdout>::take$"), opt_take, "Option::take"),
                 (re.compile(r"^(std::option::)?Option::<tokio::process::ChildStdout>::ok_or_else::<"), ok_or_else, "Option::ok_or_else"),
                 (re.compile(r"^tokio::fs::File::create::<"), tcreate, "tokio File::create (recorded: create+truncate)"),
                 (re.compile(r"^tokio::fs::OpenOptions::open::<"), topen, "tokio OpenOptions::open (recorded with its flags)"),
                 (re.compile(r"^tokio::io::copy::<tokio::process::ChildStdout, tokio::fs::File>$"), tcopy, "tokio::io::copy(child stdout -> file) (recorded)"),
                 (re.compile(r"^<tokio::fs::File as (tokio::io::)?AsyncWriteExt>::flush$"), tflush, "File::flush (recorded)"),
                 (re.compile(r"^tokio::process::Child::wait_with_output$"), wait, "Child::wait_with_output (recorded; any outcome)"),
                 (re.compile(r"^(std::process::)?ExitStatus::success$"), success, "ExitStatus::success"),
                 (re.compile(r"^(std::process::)?ExitStatus::code$"), exit_code, "ExitStatus::code (None when the child was killed by a signal)"),
                 (re.compile(r"^std::mem::drop::<"), lambda ex_, st, a, d, f, w: UNIT, "mem::drop"),
                 (re.compile(r"^<(std::string::)?String as Deref>::deref$|^<Vec<u8> as Deref>::deref$"), lambda ex_, st, a, d, f, w: VRef("val", val=fsmodels._deep(ex_, st, a[0])), "String/Vec deref"),
                 (re.compile(r"^<(\{async fn body of (tokio::[\w:]+(<.*>)?)\(\)\}|tokio::io::util::flush::Flush<'_, tokio::fs::File>) as (std::future::)?Future>::poll$"), poll_ready, "poll of a ready library future"),
                 ] + ex.models
    st = State()
    st.frames[0] = {"co": VEnum("Coroutine", I(0), {-1: [VRef("val", val=strv(z3.Int("REMOTE_PATH"))), VRef("val", val=strv(z3.Int("HOST"))), VRef("val", val=pathv(LOCAL))]})}
    body = asyncmodels.find_body(ex, "async block@src/bin/copia/dir_sync.rs:27:1: 27:59")
    if body is None:
        cands = [v for k, v in asyncmodels.body_index(ex).items() if "dir_sync.rs" in k and "async block" in k]
        body = cands[0] if len(cands) == 1 else None
    fn = ex.find_fn(body) if body else None
    if fn is None:
        raise Inconclusive("no MIR body for the instrumented block of transfer_file_from_remote")
    poll = ex.exec_fn(fn, [VStruct("Pin", [VRef("place", 0, "co")]), VOpaque("Context")], st)
    if poll is None or 0 not in poll.pay:
        raise Inconclusive("transfer_file_from_remote never becomes Ready")
    ex.exit_guards.append(st.guard)
    res = poll.pay[0][0]
    ok = z3.And(poll.discr == 0, res.discr == 0)
    eff = fsmodels.effects(ex)
    opens = [e for e in eff if e["call"] in ("create", "open-options")]
    copies = ev.get("copies", [])
    fs_like = [e for e in eff if e["call"] in ("create", "open-options", "stream-into", "flush-file", "remove_file", "rename")]
    goals = {
        "the-local-file-is-opened-creating-AND-truncating,-never-exclusively-(a-leftover-from-a-killed-run-must-not-block-the-re-run)": _all(
            z3.Implies(e["guard"], z3.And(e["path"] == LOCAL, e["flags"].get("create", z3.BoolVal(False)), e["flags"].get("truncate", z3.BoolVal(False)),
                                          z3.Not(e["flags"].get("create_new", z3.BoolVal(False))))) for e in opens),
        "nothing-but-the-given-local-path-is-touched": _all(z3.Implies(e["guard"], e["path"] == LOCAL) for e in fs_like),
        "Ok(n)-only-if-the-child-was-spawned,-its-output-streamed-(n-bytes)-and-flushed,-and-it-exited-successfully": z3.Implies(ok, z3.And(
            ev["spawn"]["ok"], ev["has_out"], _any(z3.And(e["guard"], e["ok"]) for e in opens),
            _any(z3.And(c["guard"], c["ok"], res.pay[0][0].t == c["count"]) for c in copies) if 0 in res.pay else z3.BoolVal(False),
            _any(z3.And(f["guard"], f["ok"]) for f in ev.get("flushes", [])),
            ev["wait"]["guard"], ev["wait"]["ok"], ev["wait"]["success"])) if "wait" in ev and "spawn" in ev else z3.BoolVal(False),
    }
    prover.prove(ex, goals, "%s/transfer_file_from_remote" % pid,
                 "any host / remote path / local path; spawn, the stdout pipe, file creation, streaming, flush, wait and the exit status are arbitrary inputs; one schedule",
                 [fn.name], native_pull_witness(R, pid), covers={"ok-reachable": ok})


class PullCtx:
    def __init__(self):
        def keep(n):
            return n.startswith("transfer_file_from_remote")
        self.mir, self.mir_path, self.dump_s = env.load("bin", keep)
        self.idx = env.impl_index(self.mir)
        self.enums = env.source_enums()


def run_local_obligation(ctx, R, prover, U, direction="local"):
    """direction: 'local' (run_local) | 'push' | 'pull' (run_remote with Dir::Push / Dir::Pull)"""
    ex = ctx.ex(K=U + 4)
    _tokio_fs(ex)
    stdmodels.install_collections(ex, U, 2 * U + 2)
    remote = direction != "local"
    LOCAL_ROOT, REMOTE_ROOT, HOST = z3.Int("LOCAL_ROOT"), z3.Int("REMOTE_ROOT"), z3.Int("HOST")
    if remote:
        # the source / destination of a delivery are (root, rel) pairs: local = JoinedId(LOCAL_ROOT, rel), remote = RemoteFile(REMOTE_ROOT, rel)
        SRC, DST = (LOCAL_ROOT, REMOTE_ROOT) if direction == "push" else (REMOTE_ROOT, LOCAL_ROOT)
        ex.assumes.append(LOCAL_ROOT != REMOTE_ROOT)
    else:
        SRC, DST = z3.Int("SRC_ROOT"), z3.Int("DST_ROOT")
    dry, delete, verbose = ex.fresh_bool("dry_run"), ex.fresh_bool("delete"), ex.fresh_bool("verbose")
    src_p = [ex.fresh_bool("src_has%d" % u) for u in range(U)]
    src_mt = [ex.fresh_int("src_mtime%d" % u, ty="i64") for u in range(U)]
    src_sz = [ex.fresh_int("src_size%d" % u, ty="u64") for u in range(U)]
    src_map = stdmodels.mk_map([VStruct("entry", [VBool(src_p[u]), VStruct("FileMeta", [VInt(src_sz[u], "u64"), VInt(src_mt[u], "i64")])]) for u in range(U)])
    dst_map = stdmodels.mk_map([VStruct("entry", [VBool(ex.fresh_bool("dst_has%d" % u)), VStruct("FileMeta", [VInt(ex.fresh_int("ds%d" % u, ty="u64"), "u64"), VInt(ex.fresh_int("dm%d" % u, ty="i64"), "i64")])]) for u in range(U)])
    # an ARBITRARY plan: transfer / delete lists of 0..U path ids (build_plan is decided under C19)
    nt, nd = ex.fresh_int("n_transfer", lo=0, hi=U), ex.fresh_int("n_delete", lo=0, hi=U)
    T, D = z3.Array("TRANSFER", z3.IntSort(), z3.IntSort()), z3.Array("DELETE", z3.IntSort(), z3.IntSort())
    for i in range(U):
        ex.assumes += [z3.Select(T, i) >= 0, z3.Select(T, i) < U, z3.Select(D, i) >= 0, z3.Select(D, i) < U]
        # what build_plan guarantees (C19): transfer entries are source paths
        ex.assumes.append(z3.Implies(i < nt, z3.Or(*[z3.And(z3.Select(T, i) == u, src_p[u]) for u in range(U)])))
    plan = VStruct("SyncPlan", [VSeq(T, I(0), nt, "usize"), VInt(ex.fresh_int("skipped", ty="usize"), "usize"), VSeq(D, I(0), nd, "usize")])
    calls = []
    scans = [0]
    EXC_LEN = ex.fresh_int("n_excludes", lo=0, hi=1)

    def rec(st, call, **kw):
        e = {"guard": st.guard, "call": call, "seq": len(fsmodels.effects(ex)) + len(calls)}
        e.update(kw)
        calls.append(e)
        fsmodels.record(ex, st, "call:" + call, path=I(0), ok=z3.BoolVal(True))
        e["seq"] = fsmodels.effects(ex)[-1]["seq"]
        return e

    def s_scan(ex_, st, args, dest_ty, func, where):
        scans[0] += 1
        ok = ex_.fresh_bool("scan_ok")
        rec(st, "scan", root=fsmodels.path_term(ex_, st, args[0]), ok=ok)
        if remote:
            m = src_map if direction == "push" else dst_map        # the local tree is the source of a push, the destination of a pull
        else:
            m = src_map if scans[0] == 1 else dst_map
        return VEnum("Result", simp(z3.If(ok, I(0), I(1))), {0: [m], 1: [VOpaque("scan error")]})

    def s_scan_remote(ex_, st, args, dest_ty, func, where):
        ok = ex_.fresh_bool("remote_scan_ok")
        rec(st, "scan", root=fsmodels.text_term(ex_, st, args[1]), host=fsmodels.text_term(ex_, st, args[0]), ok=ok)
        m = dst_map if direction == "push" else src_map
        return asyncmodels.ready(VEnum("Result", simp(z3.If(ok, I(0), I(1))), {0: [m], 1: [VOpaque("scan error")]}))

    def s_remote_dirs(ex_, st, args, dest_ty, func, where):
        ok = ex_.fresh_bool("dirs_ok")
        rec(st, "create_local_dirs", root=fsmodels.text_term(ex_, st, args[1]), host=fsmodels.text_term(ex_, st, args[0]), ok=ok)
        return asyncmodels.ready(VEnum("Result", simp(z3.If(ok, I(0), I(1))), {0: [UNIT], 1: [VOpaque("error")]}))

    def s_push_file(ex_, st, args, dest_ty, func, where):      # transfer_file_to_remote(local_file, host, remote_file, mtime)
        ok = ex_.fresh_bool("deliver_ok")
        rec(st, "deliver", src=fsmodels._deep(ex_, st, args[0]), dst=fsmodels._deep(ex_, st, args[2]), host=fsmodels.text_term(ex_, st, args[1]), mtime=fsmodels._deep(ex_, st, args[3]), ok=ok)
        return asyncmodels.ready(VEnum("Result", simp(z3.If(ok, I(0), I(1))), {0: [VInt(ex_.fresh_int("size", ty="u64"), "u64")], 1: [VOpaque("error text")]}))

    def s_pull_file(ex_, st, args, dest_ty, func, where):      # deliver_pull(host, remote_file, local_dest, mtime)
        ok = ex_.fresh_bool("deliver_ok")
        rec(st, "deliver", src=fsmodels._deep(ex_, st, args[1]), dst=fsmodels._deep(ex_, st, args[2]), host=fsmodels.text_term(ex_, st, args[0]), mtime=fsmodels._deep(ex_, st, args[3]), ok=ok)
        return asyncmodels.ready(VEnum("Result", simp(z3.If(ok, I(0), I(1))), {0: [VInt(ex_.fresh_int("size", ty="u64"), "u64")], 1: [VOpaque("error text")]}))

    def s_remote_deletes(ex_, st, args, dest_ty, func, where):
        # apply_remote_deletes(dir, host, remote_root, local_root, dels, progress): CONTRACT (decided under push/rm-list and
        # pull/remove-stale): the listed paths are removed under the destination root; any removal that does not succeed is
        # recorded as a failure on the progress counters
        lst = fsmodels._deep(ex_, st, args[4])
        okd = ex_.fresh_bool("deletes_ok")
        same = isinstance(lst, VSeq) and str(lst.arr) == "DELETE" and lst.len is nd
        rec(st, "remote_deletes", dir=fsmodels._deep(ex_, st, args[0]).discr, host=fsmodels.text_term(ex_, st, args[1]), rroot=fsmodels.text_term(ex_, st, args[2]),
            lroot=fsmodels.path_term(ex_, st, args[3]), list_given=z3.BoolVal(bool(same)), ok=okd)
        g0 = st.guard
        st.guard = simp(z3.And(g0, z3.Not(okd)))
        rec(st, "record_err")
        st.guard = g0
        return asyncmodels.ready(UNIT)

    def s_plan(ex_, st, args, dest_ty, func, where):
        exl = fsmodels._deep(ex_, st, args[2])
        srcm = fsmodels._deep(ex_, st, args[0])
        same_ex = isinstance(exl, VList) and exl.elem == "EXCLUDES" and exl.len is EXC_LEN
        same_src = srcm is src_map
        rec(st, "build_plan", with_delete=args[3].t, excludes_given=z3.BoolVal(bool(same_ex)), source_given=z3.BoolVal(bool(same_src)))
        return plan

    def s_unit(ex_, st, args, dest_ty, func, where):
        return UNIT

    def s_dirs(ex_, st, args, dest_ty, func, where):
        ok = ex_.fresh_bool("dirs_ok")
        rec(st, "create_local_dirs", root=fsmodels.path_term(ex_, st, args[0]), ok=ok)
        return VEnum("Result", simp(z3.If(ok, I(0), I(1))), {0: [UNIT], 1: [VOpaque("error")]})

    def s_deliver(ex_, st, args, dest_ty, func, where):
        s_, d_ = fsmodels._deep(ex_, st, args[0]), fsmodels._deep(ex_, st, args[1])
        ok = ex_.fresh_bool("deliver_ok")
        rec(st, "deliver", src=s_, dst=d_, mtime=fsmodels._deep(ex_, st, args[2]), ok=ok)
        return asyncmodels.ready(VEnum("Result", simp(z3.If(ok, I(0), I(1))), {0: [VInt(ex_.fresh_int("size", ty="u64"), "u64")], 1: [VOpaque("error text")]}))

    def s_report(ex_, st, args, dest_ty, func, where):
        # report() runs from its own MIR (it turns recorded failures into the exit status); the call is recorded for the order goals
        rec(st, "report", ok=z3.BoolVal(True))
        real = ex_.find_fn("incremental::report") or ex_.find_fn("report")
        if real is None:
            raise Unsupported("no MIR body for report()")
        return ex_.exec_fn(real, list(args), st)

    def p_record(kind):
        def h(ex_, st, args, dest_ty, func, where):
            rec(st, "record_" + kind)
            return UNIT
        return h

    def p_count(kind):
        def h(ex_, st, args, dest_ty, func, where):
            ev_ = [c for c in calls if c["call"] == "record_" + kind]
            return VInt(simp(sum([z3.If(c["guard"], 1, 0) for c in ev_])) if ev_ else I(0), "u64")
        return h

    def s_ready_unit(ex_, st, args, dest_ty, func, where):
        return asyncmodels.ready(UNIT)

    def s_acquire(ex_, st, args, dest_ty, func, where):
        return asyncmodels.ready(VEnum("Result", I(0), {0: [VOpaque("permit")]}))

    def s_opaque(ex_, st, args, dest_ty, func, where):
        return VOpaque(func[:30])
    S = ex.summaries
    S["discover_local_with_meta"], S["build_plan"], S["print_plan"], S["create_local_dirs"] = s_scan, s_plan, s_unit, s_dirs
    S["deliver_local"], S["incremental::report"], S["report"], S["join_handles"] = s_deliver, s_report, s_report, s_ready_unit
    S["discover_remote_with_meta"], S["create_remote_dirs"], S["transfer_file_to_remote"], S["deliver_pull"], S["apply_remote_deletes"] = s_scan_remote, s_remote_dirs, s_push_file, s_pull_file, s_remote_deletes
    S["collect_dirs"] = lambda ex_, st, args, dest_ty, func, where: VSeq(z3.Array("DIRS", z3.IntSort(), z3.IntSort()), I(0), ex_.fresh_int("n_dirs", lo=0, hi=U), "usize")

    def join_id(ex_, st, args, dest_ty, func, where):
        return VStruct("JoinedId", [VInt(fsmodels.path_term(ex_, st, args[0]), "usize"), VInt(stdmodels._key_id(ex_, st, args[1]), "usize")])

    def rm(ex_, st, args, dest_ty, func, where):
        j = fsmodels._deep(ex_, st, args[0])
        ok = ex_.fresh_bool("remove_ok")
        kind = ex_.fresh_int("errkind", lo=1, hi=64)
        rec(st, "remove", target=j, ok=ok, errkind=kind)
        return fsmodels.io_result(ex_, ok, kind=kind)

    def ident(ex_, st, args, dest_ty, func, where):
        return fsmodels._deep(ex_, st, args[0])

    def remote_args(ex_, st, args, dest_ty, func, where):
        """format_args!("{}/{}", remote_root, rel.display()): recognised by its decoded template; anything else is opaque text"""
        from mirsmt import textmodels
        tv = fsmodels._deep(ex_, st, args[0])
        a = fsmodels._deep(ex_, st, args[1]) if len(args) > 1 else None
        try:
            pieces = textmodels.decode_template([simp(x.t).as_long() for x in tv.f])
        except Exception:
            pieces = None
        if pieces == [("arg", 0), ("lit", b"/"), ("arg", 1)] and isinstance(a, VStruct) and len(a.f) == 2:
            v0, v1 = (x.f[1] if isinstance(x, VStruct) and x.name == "FmtArg2" else None for x in a.f)
            if v0 is not None and isinstance(v1, VInt):
                return VStruct("FmtArgs", [VOpaque(("remote-file", fsmodels.text_term(ex_, st, v0), v1.t))])
        return VStruct("FmtArgs", [VOpaque(("text", where))])

    def fmt_arg2(ex_, st, args, dest_ty, func, where):
        return VStruct("FmtArg2", [VOpaque("arg"), fsmodels._deep(ex_, st, args[0])])

    def fmt_format(ex_, st, args, dest_ty, func, where):
        a = fsmodels._deep(ex_, st, args[0])
        w_ = a.f[0].what if isinstance(a, VStruct) and a.name == "FmtArgs" and isinstance(a.f[0], VOpaque) else None
        if isinstance(w_, tuple) and w_[0] == "remote-file":
            return VStruct("RemoteFile", [VInt(w_[1], "usize"), VInt(w_[2], "usize")])
        return strv(lit_id("formatted:" + where))

    def display_id(ex_, st, args, dest_ty, func, where):
        v = fsmodels._deep(ex_, st, args[0])
        return v if isinstance(v, VInt) else VOpaque("display")

    def identref(ex_, st, args, dest_ty, func, where):
        return VRef("val", val=fsmodels._deep(ex_, st, args[0]))

    def unwrap_or_default(ex_, st, args, dest_ty, func, where):
        from mirsmt.symexec import merge
        r = fsmodels._deep(ex_, st, args[0])
        empty = stdmodels.mk_map([VStruct("entry", [VBool(z3.BoolVal(False)), e.f[1]]) for e in dst_map.f[0].items])
        return merge(simp(r.discr == 0), r.pay[0][0], empty) if 0 in r.pay else empty
    def into_iter(ex_, st, args, dest_ty, func, where):
        return VStruct("SliceIter", [stdmodels.seq_of(ex_, st, args[0]), VInt(I(0), "usize")])

    def map_retain(ex_, st, args, dest_ty, func, where):
        """retain with a closure that is not executed: ANY subset of the entries survives (a new map: no longer `the scan as given`)"""
        m = fsmodels._deep(ex_, st, args[0])
        items = [VStruct("entry", [VBool(simp(z3.And(e.f[0].t, ex_.fresh_bool("retained")))), e.f[1]]) for e in m.f[0].items]
        ex_.store_ref(st, args[0], stdmodels.mk_map(items))
        return UNIT
    remote_models = [(re.compile(r"^Path::display$"), display_id, "Path::display (a plan entry displays as itself)"),
                     (re.compile(r"^core::fmt::rt::Argument::<'_>::new_display::<"), fmt_arg2, "fmt::Argument (keeps its value)"),
                     (re.compile(r"^Arguments::<'_>::new::<"), remote_args, "format_args! (the `<root>/<rel>` template is recognised by its decoded template)"),
                     (re.compile(r"^(std::fmt::|alloc::fmt::)?format$"), fmt_format, "format! (`<root>/<rel>` -> RemoteFile(root, rel); anything else opaque text)"),
                     (re.compile(r"^<(std::string::)?String as Deref>::deref$|^<str as ToString>::to_string$|^<(std::string::)?String as Clone>::clone$"), identref, "String views / copies (same value)"),
                     ] if remote else []
    ex.models = remote_models + [(re.compile(r"^<&Vec<PathBuf> as IntoIterator>::into_iter$"), into_iter, "<&Vec<PathBuf>>::into_iter"),
                 (re.compile(r"^BTreeMap::<PathBuf, FileMeta>::retain::<"), map_retain, "BTreeMap::retain (any subset survives)"),
                 (re.compile(r"^Path::join::<&PathBuf>$"), join_id, "Path::join(root, rel) (recorded)"),
                 (re.compile(r"^std::fs::remove_file::<.*>$"), rm, "fs::remove_file (recorded)"),
                 (re.compile(r"^std::io::_e?print$"), s_unit, "print!/eprintln!"),
                 (re.compile(r"^Path::display$|^<(std::path::)?Display<'_> as ToString>::to_string$|^Instant::now$|^(tokio::sync::)?Semaphore::new$|^Arc::<Semaphore>::new$|^TransferProgress::new$|^<TransferProgress as Clone>::clone$|^<Arc<Semaphore> as Clone>::clone$|^<Arc<Semaphore> as Deref>::deref$|^Vec::<tokio::task::JoinHandle<\(\)>>::(with_capacity|push)$"), s_opaque, "runtime plumbing (opaque)"),
                 (re.compile(r"^(tokio::sync::)?Semaphore::acquire$"), s_acquire, "Semaphore::acquire (granted at the await: one schedule)"),
                 (re.compile(r"^TransferProgress::record_ok$"), p_record("ok"), "TransferProgress::record_ok (counted)"),
                 (re.compile(r"^TransferProgress::record_err$"), p_record("err"), "TransferProgress::record_err (counted)"),
                 (re.compile(r"^TransferProgress::failed$"), p_count("err"), "TransferProgress::failed (= number of record_err so far)"),
                 (re.compile(r"^TransferProgress::done$"), p_count("ok"), "TransferProgress::done (= number of record_ok so far)"),
                 (re.compile(r"^TransferProgress::bytes$|^Instant::elapsed$|^Duration::as_secs_f64$|^format_bytes$|^transfer_speed$|^(transfer::)?(format_bytes|transfer_speed)$"), s_opaque, "reporting figures (opaque)"),
                 (re.compile(r"^<(std::string::)?String as Into<Box<dyn StdError>>>::into$"), s_opaque, "error boxing (opaque)"),
                 (re.compile(r"^<(std::string::)?String as Deref>::deref$|^<Vec<(std::string::)?String> as Deref>::deref$"), identref, "String/Vec deref"),
                 (re.compile(r"^Result::<BTreeMap<PathBuf, FileMeta>, Box<dyn StdError>>::unwrap_or_default$"), unwrap_or_default, "Result::unwrap_or_default (empty map)"),
                 ] + ex.models
    opts = VStruct("SyncOptions", [VInt(ex.fresh_int("jobs", lo=1, hi=64), "usize"), VBool(verbose), VBool(dry), VBool(delete), VList([VOpaque("pattern")], EXC_LEN, "EXCLUDES")])
    # field order of SyncOptions from the source
    st = State()
    if remote:
        from . import shellcmd
        body = asyncmodels.find_body(ex, "async fn body of incremental::run_remote()")
        fn = ex.find_fn(body) if body else None
        if fn is None:
            raise Inconclusive("no MIR body for run_remote's state machine")
        dirs_enum = ctx.enums.get("Dir") or {}
        if not {"Push", "Pull"} <= set(dirs_enum):
            raise Inconclusive("enum Dir { Push, Pull } not found")
        vals = {"dir": VEnum("Dir", I(dirs_enum["Push" if direction == "push" else "Pull"]), {}), "host": VRef("val", val=strv(HOST)), "remote_root": VRef("val", val=strv(REMOTE_ROOT)),
                "local_root": VRef("val", val=pathv(LOCAL_ROOT)), "opts": VRef("val", val=opts)}
        caps = shellcmd.captures(ctx, fn)
        if set(caps.values()) != set(vals):
            raise Inconclusive("run_remote captures %r" % sorted(caps.values()))
        st.frames[0] = {"co": VEnum("Coroutine", I(0), {-1: [vals[caps[i]] for i in sorted(caps)]})}
    else:
        st.frames[0] = {"co": VEnum("Coroutine", I(0), {-1: [VRef("val", val=pathv(SRC)), VRef("val", val=pathv(DST)), VRef("val", val=opts)]})}
        body = asyncmodels.find_body(ex, "async fn body of incremental::run_local()")
        fn = ex.find_fn(body) if body else None
        if fn is None:
            raise Inconclusive("no MIR body for run_local's state machine")
    poll = ex.exec_fn(fn, [VStruct("Pin", [VRef("place", 0, "co")]), VOpaque("Context")], st)
    if poll is None or 0 not in poll.pay:
        raise Inconclusive("run_local never becomes Ready")
    ex.exit_guards.append(st.guard)
    res = poll.pay[0][0]
    dels = [c for c in calls if c["call"] == "deliver"]
    rms = [c for c in calls if c["call"] == "remove"]
    dirs = [c for c in calls if c["call"] == "create_local_dirs"]
    plans = [c for c in calls if c["call"] == "build_plan"]
    src_empty = z3.And(*[z3.Not(p) for p in src_p])
    active = z3.And(z3.Not(dry), z3.Or(nt > 0, nd > 0), _any(z3.And(p["guard"]) for p in plans))
    # the i-th delivery / removal in program order
    def nth(lst, i):
        """guard that lst[k] is the i-th active call, for each k"""
        out = []
        for k, c in enumerate(lst):
            before = sum([z3.If(lst[j]["guard"], 1, 0) for j in range(k)]) if k else I(0)
            out.append((z3.And(c["guard"], before == i), c))
        return out
    conds = []
    for i in range(U):
        for g, c in nth(dels, i):
            rel = z3.Select(T, i)
            mt = c["mtime"]
            want_mt = z3.Or(*[z3.And(rel == u, mt.discr == 1, (mt.pay[1][0].t if 1 in mt.pay else I(0)) == src_mt[u]) for u in range(U)])
            shape = z3.BoolVal(True)
            if remote:
                lf, rf = (c["src"], c["dst"]) if direction == "push" else (c["dst"], c["src"])
                shape = z3.And(z3.BoolVal(isinstance(lf, VStruct) and lf.name == "JoinedId" and isinstance(rf, VStruct) and rf.name == "RemoteFile"), c["host"] == HOST)
                if z3.is_false(simp(shape)):
                    conds.append(z3.Not(g))
                    continue
            conds.append(z3.Implies(g, z3.And(shape, i < nt, c["src"].f[0].t == SRC, c["src"].f[1].t == rel, c["dst"].f[0].t == DST, c["dst"].f[1].t == rel, want_mt)))
        for g, c in nth(rms, i):
            rel = z3.Select(D, i)
            conds.append(z3.Implies(g, z3.And(i < nd, c["target"].f[0].t == DST, c["target"].f[1].t == rel)))
    n_del = sum([z3.If(c["guard"], 1, 0) for c in dels]) if dels else I(0)
    n_rm = sum([z3.If(c["guard"], 1, 0) for c in rms]) if rms else I(0)
    rdel = [c for c in calls if c["call"] == "remote_deletes"]
    if remote:
        # the removals of a push / pull are ONE call of apply_remote_deletes with the plan's delete list (its own loop / remote command
        # is decided separately): count it as "all nd removals requested"
        n_rm = simp(z3.If(_any(c["guard"] for c in rdel), nd, 0))
    done = z3.And(poll.discr == 0, _any(c["guard"] for c in calls if c["call"] == "report"))
    run_ok = z3.And(poll.discr == 0, res.discr == 0)
    NOTFOUND = fsmodels.ERRKIND.get("NotFound", 1)
    goals = {
        "exit-0-after-a-real-run-means-every-delivery-succeeded-and-every-planned-removal-succeeded-(or-the-file-was-already-gone)": z3.Implies(
            run_ok, z3.And(_all(z3.Implies(d_["guard"], d_["ok"]) for d_ in dels),
                                        _all(z3.Implies(r_["guard"], z3.Or(r_["ok"], r_.get("errkind", I(-1)) == NOTFOUND)) for r_ in rms),
                                        _all(z3.Implies(r_["guard"], r_["ok"]) for r_ in rdel))),
        "the-i-th-delivery-is-the-plan's-i-th-transfer:-src/rel->dst/rel-with-the-source's-mtime;-the-i-th-removal-is-the-plan's-i-th-delete-under-the-destination": _all(conds),
        "a-run-that-reaches-its-report-delivered-every-transfer-entry-and-removed-every-delete-entry,-once": z3.Implies(done, z3.And(n_del == nt, n_rm == nd)),
        "never-more-deliveries-or-removals-than-the-plan-lists": z3.And(n_del <= nt, n_rm <= nd),
        "removals-come-after-every-delivery": _all(z3.Implies(z3.And(r_["guard"], d_["guard"]), z3.BoolVal(d_["seq"] < r_["seq"])) for r_ in rms + rdel for d_ in dels),
        "a-dry-run-requests-nothing-of-the-destination": z3.Implies(dry, z3.And(n_del == 0, n_rm == 0, _all(z3.Not(c["guard"]) for c in dirs))),
        "an-empty-source-without---delete-requests-nothing": z3.Implies(z3.And(src_empty, z3.Not(delete)), z3.And(n_del == 0, n_rm == 0, _all(z3.Not(c["guard"]) for c in dirs), _all(z3.Not(p["guard"]) for p in plans))),
        "build_plan-is-asked-with-the---delete-flag,-the-exclude-list-and-the-scanned-source-as-given": _all(
            z3.Implies(p["guard"], z3.And(p["with_delete"] == delete, p["excludes_given"], p["source_given"])) for p in plans),
        "directories-are-created-under-the-destination-only": _all(z3.Implies(c["guard"], c["root"] == DST) for c in dirs),
    }
    if remote:
        dcode = ctx.enums["Dir"]["Push" if direction == "push" else "Pull"]
        goals["the-plan's-delete-list-is-handed-to-apply_remote_deletes-once,-with-this-direction,-host-and-roots,-only-when-it-is-not-empty"] = z3.And(
            _all(z3.Implies(c["guard"], z3.And(c["list_given"], c["dir"] == dcode, c["host"] == HOST, c["rroot"] == REMOTE_ROOT, c["lroot"] == LOCAL_ROOT, nd > 0)) for c in rdel),
            _all(z3.Not(z3.And(x["guard"], y["guard"])) for i_, x in enumerate(rdel) for y in rdel[i_ + 1:]),
            z3.BoolVal(not rms))
        goals["both-trees-are-scanned-where-they-are:-the-local-root-and-host:remote-root"] = _all(
            z3.Implies(c["guard"], z3.Or(z3.And(z3.BoolVal("host" not in c), c["root"] == LOCAL_ROOT), z3.And(z3.BoolVal("host" in c), c["root"] == REMOTE_ROOT, c.get("host", HOST) == HOST)))
            for c in calls if c["call"] == "scan")
    prover.prove(ex, goals, "C04/run_local" if not remote else "C04/run_remote[%s]" % direction,
                 "universe of %d paths; source listing, flags (dry_run, delete, verbose, jobs) symbolic; the plan is ANY SyncPlan over the universe whose transfer entries are source "
                 "paths (build_plan: C19); scans, mkdir, deliveries, removals and the report may fail; tasks run at their spawn point (one schedule)%s" % (
                     U, "; the transport functions, create_remote_dirs and apply_remote_deletes are summaries by their contracts (decided separately)" if remote else ""),
                 ["run_local (state machine)", "run_local::{async block} (spawned task)"] if not remote else ["run_remote (state machine, Dir::%s)" % direction.capitalize(), "run_remote::{async block} (spawned task)", "report"],
                 native_witness(R, "C04") if not remote else remote_witness(R, "C04", direction),
                 covers={"deliver-reachable": n_del > 0, "remove-reachable": n_rm > 0})


def remote_witness(R, pid, direction):
    """the real binary in the given ssh direction through the stand-in: the end-to-end scenarios and the undeletable stale file"""
    def w(name, model, neg):
        T = 1_700_000_000
        src = {"a": ("one", T), "d/b": ("two", T + 5), "same": ("same", T + 9)}
        dst = {"a": ("ONE", T), "same": ("same", T + 9), "stale": ("old", T), "d/old": ("o", T)}
        for prof in ("dev", "release"):
            for delete in (True, False):
                for dry in (False, True):
                    c = {direction: True, "src": src, "dst": dst, "delete": delete, "dry": dry}
                    r = native_case(c, prof)
                    d = judge_native(c, r)
                    if d:
                        c = dict(c)
                        c["deviation"] = d
                        return {"confirmed": True, "replay_path": R.save_replay("%s/native-%s" % (pid, direction), {"fn": "copia_sync_local", **c}), "key": "%s/native-%s/%s" % (pid, direction, name[:40]),
                                "detail": "the real `copia sync -r` (%s through the stand-in for ssh, %s, delete=%s, dry=%s): %s" % (direction, prof, delete, dry, d)}
        u = undeletable_witness(R, pid, (direction,))
        if u["confirmed"]:
            return u
        return {"confirmed": False, "detail": "the real %s behaves as specified on the end-to-end scenarios; %s" % (direction, u["detail"])}
    return w


# ----------------------------------------------------------------- native end-to-end: the real `copia sync -r`

_bin = {}


def build_copia(profile):
    if profile in _bin:
        return _bin[profile]
    tdir = os.path.join(BUILD, "repo-bin")
    cmd = ["cargo", "build", "--offline", "--features", "cli", "--bin", "copia", "--target-dir", tdir] + (["--release"] if profile == "release" else [])
    p = subprocess.run(cmd, cwd=REPO, env=_cargo_env(), stdout=subprocess.PIPE, stderr=subprocess.STDOUT, text=True)
    if p.returncode != 0:
        raise Inconclusive("the copia binary does not build (%s): %s" % (profile, p.stdout[-1500:]))
    _bin[profile] = os.path.join(tdir, "release" if profile == "release" else "debug", "copia")
    return _bin[profile]


def _write_tree(root, tree):
    for rel, (data, mtime) in tree.items():
        p = os.path.join(root, rel)
        os.makedirs(os.path.dirname(p), exist_ok=True)
        with open(p, "wb") as f:
            f.write(data.encode())
        os.utime(p, (mtime, mtime))


def _read_tree(root):
    out = {}
    for d, _, fs in os.walk(root):
        for f in fs:
            p = os.path.join(d, f)
            st = os.stat(p)
            out[os.path.relpath(p, root)] = (open(p, "rb").read().decode(errors="replace"), int(st.st_mtime))
    return out


def native_case(case, profile):
    import shutil, tempfile
    exe = build_copia(profile)
    base = tempfile.mkdtemp(prefix="copia-verif-c04-")
    try:
        s, d = os.path.join(base, "src"), os.path.join(base, "dst")
        os.makedirs(s)
        os.makedirs(d)
        _write_tree(s, case["src"])
        _write_tree(d, case["dst"])
        envp = dict(os.environ)
        src_arg = s
        if case.get("pull"):
            # no sshd in the sandbox: a two-line `ssh` that runs the remote command locally stands in for the transport
            bindir = os.path.join(base, "bin")
            os.makedirs(bindir)
            with open(os.path.join(bindir, "ssh"), "w") as f:
                f.write("#!/bin/bash\nwhile [[ \"$1\" == -* ]]; do shift; done\nshift\nexec bash -c \"$*\"\n")
            os.chmod(os.path.join(bindir, "ssh"), 0o755)
            envp["PATH"] = bindir + ":" + envp["PATH"]
            src_arg = "fakehost:" + s
        dst_arg = d
        if case.get("push"):
            bindir = os.path.join(base, "bin")
            os.makedirs(bindir, exist_ok=True)
            with open(os.path.join(bindir, "ssh"), "w") as f:
                f.write("#!/bin/bash\nwhile [[ \"$1\" == -* ]]; do shift; done\nshift\nexec bash -c \"$*\"\n")
            os.chmod(os.path.join(bindir, "ssh"), 0o755)
            envp["PATH"] = bindir + ":" + envp["PATH"]
            dst_arg = "fakehost:" + d
        if not case.get("push"):
            dst_arg = d
        args = [exe, "sync", "-r", src_arg, dst_arg] + (["--delete"] if case.get("delete") else []) + (["--dry-run"] if case.get("dry") else [])
        for x in case.get("excludes", []):
            args += ["--exclude", x]
        p = subprocess.run(args, stdout=subprocess.PIPE, stderr=subprocess.PIPE, text=True, timeout=120, env=envp)
        return {"rc": p.returncode, "src": _read_tree(s), "dst": _read_tree(d), "stderr": p.stderr[-300:]}
    finally:
        shutil.rmtree(base, ignore_errors=True)


def expect_case(case):
    """C04's text on plain names (no excludes beyond literal names): which destination tree must result"""
    src, dst = case["src"], dict(case["dst"])
    ex = set(case.get("excludes", []))
    if case.get("glob"):
        import fnmatch
        excluded = lambda rel: any(fnmatch.fnmatchcase(part, pat) for part in rel.split("/") for pat in ex)
    else:
        excluded = lambda rel: any(part in ex for part in rel.split("/"))
    if case.get("dry") or (not src and not case.get("delete")):
        return dst
    for rel, (data, mt) in src.items():
        if excluded(rel):
            continue
        if rel not in dst or len(dst[rel][0]) != len(data) or dst[rel][1] != mt:
            dst[rel] = (data, mt)
    if case.get("delete"):
        for rel in list(dst):
            if rel not in src and not excluded(rel):
                del dst[rel]
    return dst


def scenarios():
    T = 1_700_000_000
    src = {"a": ("one", T), "d/b": ("two", T + 5), "same": ("same", T + 9), "d/e/deep": ("xyz", T - 100), "skip.tmp": ("t", T)}
    dst = {"a": ("ONE", T), "same": ("same", T + 9), "stale": ("old", T), "d/old": ("o", T), "skip.tmp": ("keep", T - 1), "a2": ("zz", T)}
    out = []
    for delete in (False, True):
        for dry in (False, True):
            for ex in ([], ["skip.tmp"], ["d"]):
                out.append({"src": src, "dst": dst, "delete": delete, "dry": dry, "excludes": ex})
    # a `?` in an exclude pattern must match ONE character, also a non-ASCII one
    out.append({"src": {"n/keep.txt": ("k", T), "n/draft-1.txt": ("1", T), "n/draft-\u00e9.txt": ("e", T)}, "dst": {"n/draft-\u00fc.txt": ("u", T), "n/stale.txt": ("s", T)},
                "delete": True, "excludes": ["draft-?.txt"], "glob": True})
    # a file that differs in SIZE only (same whole-second mtime): delivered, and the delivered file carries the source's mtime
    out.append({"src": {"d/grown.txt": ("the new, longer content", T - 7)}, "dst": {"d/grown.txt": ("old", T - 7)}, "delete": False})
    out.append({"src": {}, "dst": dst, "delete": True})
    out.append({"src": {}, "dst": dst, "delete": False})
    out.append({"src": {"n": ("1", T)}, "dst": {}, "delete": False})
    return out


def pull_scenarios():
    T = 1_700_000_000
    src = {"a": ("one", T), "d/b": ("two", T + 5), "same": ("same", T + 9)}
    return [{"pull": True, "src": src, "dst": {"a": ("ONE", T), "same": ("same", T + 9), "stale": ("old", T)}, "delete": True},
            # leftovers of a killed pull (reserved staging names) must not make the re-run fail
            {"pull": True, "src": src, "dst": {"a": ("ONE", T), "a.copia-tmp": ("partial", T), "d/b.copia-tmp": ("", T)}, "delete": False, "leftovers": True}]


def judge_native(c, r):
    want = expect_case(c)
    if c.get("leftovers"):
        got = {k: v for k, v in r["dst"].items() if not k.endswith(".copia-tmp")}
        want = {k: v for k, v in want.items() if not k.endswith(".copia-tmp")}
        if r["rc"] != 0:
            return "the re-run over leftover staging files fails (exit %d): %s" % (r["rc"], r["stderr"][-200:])
        if got != want:
            return "destination (staging names aside) is %s, expected %s" % (json.dumps(got)[:300], json.dumps(want)[:300])
        return None
    if r["rc"] != 0:
        return "exit status %d: %s" % (r["rc"], r["stderr"])
    if r["dst"] != want:
        return "destination is %s, expected %s" % (json.dumps(r["dst"])[:300], json.dumps(want)[:300])
    if r["src"] != c["src"]:
        return "the source tree was modified"
    if any(k.endswith(".copia-tmp") for k in r["dst"]):
        return "a staging file remains"
    return None


def transport_death_case(how, profile):
    """a pull whose ssh transport dies MID-STREAM of the big file: how = 'exit' (status 255) | 'KILL' | 'TERM' (killed by a signal,
    so it has NO exit code) - the destination must keep the old or get the whole new file, and the run must not exit 0"""
    import shutil, tempfile
    exe = build_copia(profile)
    base = tempfile.mkdtemp(prefix="copia-verif-c09d-")
    try:
        s, d, home, bindir = (os.path.join(base, x) for x in ("src", "dst", "home", "bin"))
        for x in (s, d, home, bindir):
            os.makedirs(x)
        new, old = b"N" * 700_000, b"o" * 300_000
        open(os.path.join(s, "big.bin"), "wb").write(new)
        open(os.path.join(d, "big.bin"), "wb").write(old)
        os.utime(os.path.join(d, "big.bin"), (1_500_000_000, 1_500_000_000))
        die = "exit 255" if how == "exit" else "kill -%s $$" % how
        with open(os.path.join(bindir, "ssh"), "w") as f:
            # the listing runs normally; the `cat` of the big file delivers 200000 bytes, then the transport dies
            f.write("#!/bin/bash\nshift\ncase \"$*\" in\n  cat\\ *big.bin*) head -c 200000 %s; %s;;\n  *) exec bash -c \"$*\";;\nesac\n" % (os.path.join(s, "big.bin"), die))
        os.chmod(os.path.join(bindir, "ssh"), 0o755)
        envp = dict(os.environ, PATH=bindir + ":" + os.environ["PATH"], HOME=home)
        p = subprocess.run([exe, "sync", "-r", "-j", "1", "fakehost:" + s, d], stdout=subprocess.PIPE, stderr=subprocess.PIPE, timeout=120, env=envp, cwd=home, text=True)
        got = open(os.path.join(d, "big.bin"), "rb").read() if os.path.exists(os.path.join(d, "big.bin")) else None
        state = "old" if got == old else "new" if got == new else "absent" if got is None else "%d bytes that are neither the old (%d) nor the new (%d) file" % (len(got), len(old), len(new))
        return {"rc": p.returncode, "big.bin": state, "said": (p.stdout + p.stderr)[-200:]}
    finally:
        shutil.rmtree(base, ignore_errors=True)


def transport_death_witness(R, pid):
    for how in ("exit", "KILL", "TERM"):
        for prof in ("dev", "release"):
            r = transport_death_case(how, prof)
            why = None
            if r["big.bin"] not in ("old", "new"):
                why = "the destination holds %s" % r["big.bin"]
            elif r["rc"] == 0 and r["big.bin"] != "new":
                why = "exit 0 although the file was not delivered"
            if why:
                case = {"fn": "copia_transport_death", "how": how, "observed": {prof: r}}
                return {"confirmed": True, "replay_path": R.save_replay("%s/native-pull-death" % pid, case), "key": "%s/pull/transport-dies-mid-stream/%s" % (pid, how),
                        "detail": "pull whose ssh dies mid-stream (%s, %s): %s (exit %d)" % ("exit status 255" if how == "exit" else "signal " + how, prof, why, r["rc"])}
    return {"confirmed": False, "detail": "a pull whose ssh transport dies mid-stream (exit 255, SIGKILL, SIGTERM) leaves the old file in place and exits non-zero"}


def native_pull_witness(R, pid):
    def w(name, model, neg):
        t = transport_death_witness(R, pid)
        if t["confirmed"]:
            return t
        for prof in ("dev", "release"):
            for c in pull_scenarios():
                try:
                    r = native_case(c, prof)
                except subprocess.TimeoutExpired:
                    continue
                d = judge_native(c, r)
                if d:
                    c = dict(c)
                    c["deviation"] = d
                    return {"confirmed": True, "replay_path": R.save_replay("%s/native-pull" % pid, {"fn": "copia_sync_local", **c}), "key": "%s/native-pull/%s" % (pid, name[:40]),
                            "detail": "the real `copia sync -r fakehost:SRC DST` through a local stand-in for ssh (%s): %s" % (prof, d)}
        return {"confirmed": False, "detail": "the real pull (through a local stand-in for ssh) behaves as specified, also over leftover staging files"}
    return w


def undeletable_case(direction, profile, uptodate=False):
    """`sync -r --delete` facing a stale destination file that CANNOT be removed (immutable attribute: also root is refused);
    direction: local | pull | push (the latter two through the stand-in for ssh)"""
    import shutil, tempfile
    from . import shellcmd
    exe = build_copia(profile)
    base = tempfile.mkdtemp(prefix="copia-verif-c04u-")
    stale = None
    try:
        s, d, home = os.path.join(base, "src"), os.path.join(base, "dst"), os.path.join(base, "home")
        for x in (s, d, home):
            os.makedirs(x)
        open(os.path.join(s, "keep"), "w").write("keep")
        os.utime(os.path.join(s, "keep"), (1_650_000_000, 1_650_000_000))
        if uptodate:
            # the destination already holds every source file (same size and mtime): the transfer set is EMPTY, only the delete remains
            open(os.path.join(d, "keep"), "w").write("keep")
            os.utime(os.path.join(d, "keep"), (1_650_000_000, 1_650_000_000))
        stale = os.path.join(d, "stale")
        open(stale, "w").write("stale")
        a = subprocess.run(["chattr", "+i", stale], stdout=subprocess.PIPE, stderr=subprocess.PIPE)
        if a.returncode != 0:
            return {"skipped": "chattr +i is not supported here: %s" % a.stderr.decode()[:100]}
        bindir, log = shellcmd._fake_ssh(base)
        envp = dict(os.environ, PATH=bindir + ":" + os.environ["PATH"], HOME=home)
        sa, da = {"local": (s, d), "pull": ("fakehost:" + s, d), "push": (s, "fakehost:" + d)}[direction]
        p = subprocess.run([exe, "sync", "-r", "--delete", sa, da], stdout=subprocess.PIPE, stderr=subprocess.PIPE, timeout=120, env=envp, cwd=home, text=True)
        return {"rc": p.returncode, "stale_still_there": os.path.exists(stale), "said": (p.stdout + p.stderr)[-300:]}
    finally:
        if stale:
            subprocess.run(["chattr", "-i", stale], stdout=subprocess.PIPE, stderr=subprocess.PIPE)
        shutil.rmtree(base, ignore_errors=True)


def undeletable_witness(R, pid, directions=("local",)):
    for direction in directions:
      for uptodate in (False, True):
        for prof in ("dev", "release"):
            r = undeletable_case(direction, prof, uptodate)
            if "skipped" in r:
                return {"confirmed": False, "detail": r["skipped"]}
            if r["rc"] == 0 and r["stale_still_there"]:
                case = {"fn": "copia_undeletable", "direction": direction, "uptodate": uptodate, "observed": {prof: r}}
                return {"confirmed": True, "replay_path": R.save_replay("%s/undeletable" % pid, case), "key": "%s/delete-failure-exits-0/%s" % (pid, direction),
                        "detail": "`copia sync -r --delete` (%s, %s%s) with a stale file that cannot be removed: exit 0, %r, and the file is still there" % (
                            direction, prof, ", nothing to transfer" if uptodate else "", r["said"].strip().split("\n")[-2:])}
    return {"confirmed": False, "detail": "a removal that fails makes the run exit non-zero (%s)" % ", ".join(directions)}


def native_witness(R, pid):
    def w(name, model, neg):
        if name.startswith("exit-0-after-a-real-run"):
            u = undeletable_witness(R, pid)
            if u["confirmed"]:
                return u
        for prof in ("dev", "release"):
            for c in scenarios():
                r = native_case(c, prof)
                want = expect_case(c)
                d = None
                if r["rc"] != 0:
                    d = "exit status %d: %s" % (r["rc"], r["stderr"])
                elif r["dst"] != want:
                    d = "destination is %s, expected %s" % (json.dumps(r["dst"])[:300], json.dumps(want)[:300])
                elif r["src"] != c["src"]:
                    d = "the source tree was modified"
                elif any(k.endswith(".copia-tmp") for k in r["dst"]):
                    d = "a staging file remains"
                if d:
                    c = dict(c)
                    c["deviation"] = d
                    return {"confirmed": True, "replay_path": R.save_replay("%s/native" % pid, {"fn": "copia_sync_local", **c}), "key": "%s/native/%s" % (pid, name[:40]),
                            "detail": "the real `copia sync -r` (%s, delete=%s, dry=%s, excludes=%s): %s" % (prof, c.get("delete"), c.get("dry"), c.get("excludes"), d)}
        o = order_witness(R, pid)
        if o["confirmed"]:
            return o
        return {"confirmed": False, "detail": "the real `copia sync -r` behaves as specified on the local scenarios; " + o["detail"]}
    return w


def order_witness(R, pid):
    """strace of one real local delivery: bytes reach a destination path only by rename of its `.copia-tmp` sibling"""
    import tempfile, shutil
    exe = build_copia("dev")
    base = tempfile.mkdtemp(prefix="copia-verif-c04s-")
    try:
        s, d = os.path.join(base, "src"), os.path.join(base, "dst")
        os.makedirs(s)
        os.makedirs(d)
        _write_tree(s, {"f.txt": ("new-content", 1_700_000_000), "n.bin": ("brand-new-file", 1_700_000_001)})
        _write_tree(d, {"f.txt": ("old", 1_600_000_000)})
        # a destination file without write permission (what an earlier sync of a read-only source leaves behind): it too is
        # only ever REPLACED by the rename - never unlinked first (a kill in between would leave neither version)
        _write_tree(s, {"ro.txt": ("new-read-only-content", 1_700_000_002)})
        _write_tree(d, {"ro.txt": ("old-ro", 1_600_000_002)})
        os.chmod(os.path.join(d, "ro.txt"), 0o444)
        log = os.path.join(base, "trace.log")
        subprocess.run(["strace", "-f", "-y", "-e", "trace=openat,open,creat,rename,renameat,renameat2,unlink,unlinkat,copy_file_range,write", "-o", log, exe, "sync", "-r", s, d],
                       stdout=subprocess.PIPE, stderr=subprocess.PIPE, text=True, timeout=120)
        breach = None
        for live in (os.path.join(d, "f.txt"), os.path.join(d, "n.bin"), os.path.join(d, "ro.txt")):
          renamed = False
          for line in open(log, errors="replace"):
            if breach or live not in line:
                continue
            if re.search(r"unlink(at)?\(.*\"%s\"" % re.escape(live), line):
                breach = "the destination file %s is unlinked (%s) - a delivery must only replace it by the rename" % (os.path.basename(live), line.strip()[:120])
                continue
            # (set_local_mtime opens the delivered file O_WRONLY without O_TRUNC/O_CREAT only to set its times: harmless)
            if re.search(r"(openat|open|creat)\(.*\"%s\".*(O_CREAT|O_TRUNC)" % re.escape(live), line) or \
               re.search(r"(write|copy_file_range|pwrite64)\((\d+<[^>]*>, )*\d+<%s>" % re.escape(live), line):
                breach = "the destination file %s is created/truncated/written directly: %s" % (os.path.basename(live), line.strip()[:160])
                continue
            m = re.search(r"rename\w*\(.*\"([^\"]*)\".*\"%s\"" % re.escape(live), line)
            if m:
                renamed = True
                if m.group(1) != live + ".copia-tmp":
                    breach = "the destination %s is replaced by a rename from %s, not from its .copia-tmp sibling" % (os.path.basename(live), m.group(1))
          if breach is None and not renamed:
            breach = "no rename onto the destination %s was observed" % os.path.basename(live)
        if breach:
            case = {"fn": "copia_sync_local", "src": {"f.txt": ["new-content", 1_700_000_000]}, "dst": {"f.txt": ["old", 1_600_000_000]}, "deviation": breach, "strace": True}
            return {"confirmed": True, "replay_path": R.save_replay("%s/native-order" % pid, case), "key": "%s/native-order" % pid, "detail": "real system calls of a local delivery: " + breach}
        return {"confirmed": False, "detail": "strace: the destination is replaced only by a rename of its .copia-tmp sibling"}
    finally:
        shutil.rmtree(base, ignore_errors=True)


def native_validation(R):
    bad = None
    cases = scenarios()
    for prof in ("dev", "release"):
        for c in cases:
            r = native_case(c, prof)
            want = expect_case(c)
            if r["rc"] != 0:
                bad = (prof, c, "exit status %d: %s" % (r["rc"], r["stderr"]))
            elif r["dst"] != want:
                bad = (prof, c, "destination is %s, expected %s" % (json.dumps(r["dst"])[:300], json.dumps(want)[:300]))
            elif r["src"] != c["src"]:
                bad = (prof, c, "the source tree was modified")
            elif any(k.endswith(".copia-tmp") for k in r["dst"]):
                bad = (prof, c, "a staging file remains")
            if bad:
                break
        if bad:
            break
    # pull and push through a local stand-in for ssh (the real binary, the real remote shell commands, run locally)
    if not bad:
        T = 1_700_000_000
        src = {"a": ("one", T), "d/b": ("two", T + 5), "same": ("same", T + 9), "d/grown.txt": ("the new, longer content", T - 7)}
        dst = {"a": ("ONE", T), "same": ("same", T + 9), "stale": ("old", T), "d/grown.txt": ("old", T - 7)}
        odd = ["we ird's name", "back\\slash", "tab\there", "nl\nhere", "$HOME", "a;b", 'q"uote', "sub dir/x y", "star*", "-dash", "per%cent", "uni\u00e9"]
        oddsrc = {n: ("content of %d" % i, T + i) for i, n in enumerate(odd)}
        remote = [{"pull": True, "src": src, "dst": dst, "delete": True}, {"push": True, "src": src, "dst": dst, "delete": True},
                  {"push": True, "src": src, "dst": dst, "delete": False, "dry": True},
                  # names the remote shell could misread: quotes, backslash, tab, newline, `$`, `;`, `*`, leading dash, `%`, non-ASCII
                  {"pull": True, "src": oddsrc, "dst": {"old": ("o", T)}, "delete": True}, {"push": True, "src": oddsrc, "dst": {"old": ("o", T)}, "delete": True}]
        for prof in ("dev",):
            for c in remote:
                try:
                    r = native_case(c, prof)
                except subprocess.TimeoutExpired:
                    continue
                d_ = judge_native(c, r)
                if d_:
                    bad = (prof, c, ("pull" if c.get("pull") else "push") + " through a local stand-in for ssh: " + d_)
                    break
        cases = cases + remote
    R.validation["cases"] += 2 * len(cases)
    if bad:
        prof, c, d = bad
        R.validation["disagreements"] += 1
        c = dict(c)
        c["deviation"] = d
        R.add("C04/native-end-to-end", "violated", confirmed=True, replay_path=R.save_replay("C04/native", {"fn": "copia_sync_local", **c}), key="C04/native-end-to-end",
              detail="the real `copia sync -r` (%s, delete=%s, dry=%s, excludes=%s): %s" % (prof, c.get("delete"), c.get("dry"), c.get("excludes"), d))
    else:
        R.add("C04/native-end-to-end", "holds", queries=0, solver_s=0.0,
              detail="the real `copia sync -r SRC DST` lands exactly the C04 tree on %d local scenarios (dev+release); validation, not the deciding step" % len(cases))


def run(R, tier, seed):
    R.trusted += ["rustc nightly MIR dump of the copia binary crate", "mirsmt encoder + std models + the file-system effect recorder", "z3 5.1 (deciding), cvc5 / z3 4.8.12 (re-deciding)",
                  "native oracle: the real copia binary (`copia sync -r`) built from /repo"]
    R.assumptions += ["run_remote (push and pull orchestration) is executed from MIR like run_local, with the transport functions, create_remote_dirs and apply_remote_deletes as summaries "
                      "by their contracts; those are decided separately (command lines, push stream, xargs lists, pull removals, pull transport, deliver_pull)",
                      "orchestration obligations: ONE schedule (futures complete at their await, a spawned task runs at its spawn point): the job count and task interleavings are NOT explored",
                      "build_plan is an arbitrary SyncPlan here (it is decided under C19); deliver_local is decided on its own and summarised in the orchestration",
                      "push / pull over ssh: the COMMAND LINES handed to ssh by transfer_file_to_remote, transfer_file_from_remote and discover_remote_with_meta are decided as text "
                      "(obligations/shellcmd.py: remote path of 0..2 (quick) / 0..3 (thorough) characters, each any code point; bash's reading of $'..' is a contract validated natively), "
                      "and the push stream (every chunk read is written in full, Ok only after the pipe was closed and the remote command exited 0, at most 2 chunks); "
                      "the lists piped to the remote `xargs .. mkdir -p` / `xargs .. rm -f --` (create_remote_dirs, apply_remote_deletes) are decided as text too: one delimiter-terminated "
                      "`<root>/<rel>` entry per path and NO entry contains the delimiter the constant command makes xargs split at (root + 0..2 paths of 0..2 characters, any code point but NUL); "
                      "NOT covered: run_push / run_pull orchestration, what the remote commands themselves do, crash points (C09)"]
    ctx = Ctx()
    prover = Prover(R, tier)
    U_ = 2 if tier == "quick" else 3
    for what, f in (("deliver_local", lambda: deliver_obligation(ctx, R, prover)), ("run_local", lambda: run_local_obligation(ctx, R, prover, U_)),
                    ("run_remote[push]", lambda: run_local_obligation(ctx, R, prover, U_, "push")), ("run_remote[pull]", lambda: run_local_obligation(ctx, R, prover, U_, "pull"))):
        try:
            f()
        except (Inconclusive, Unsupported) as e:
            R.add("C04/%s/encoding" % what, "inconclusive", detail=str(e)[:400])
    try:
        native_validation(R)
    except (Inconclusive, subprocess.TimeoutExpired) as e:
        R.add("C04/native-end-to-end", "inconclusive", detail=str(e)[:400])
    remote_commands(R, tier, "C04", ("push", "pull", "list"))
    # a removal that fails must not end in exit 0, in any direction (validation each run; the local direction is decided above)
    try:
        u = undeletable_witness(R, "C04", ("local", "pull", "push"))
        if u["confirmed"]:
            R.add("C04/delete-failure/native", "violated", confirmed=True, replay_path=u["replay_path"], key=u["key"], detail=u["detail"])
        else:
            R.add("C04/delete-failure/native", "holds", queries=0, solver_s=0.0, detail=u["detail"] + " (validation, not the deciding step)")
    except (Inconclusive, subprocess.TimeoutExpired) as e:
        R.add("C04/delete-failure/native", "inconclusive", detail=str(e)[:300])


def remote_commands(R, tier, pid, which):
    from . import shellcmd
    prover = Prover(R, tier)
    sctx = shellcmd.Ctx()
    n = 2 if tier == "quick" else 3
    for what in which:
        try:
            getattr(shellcmd, what + "_obligation")(sctx, R, prover, pid, n)
        except (Inconclusive, Unsupported) as e:
            R.add("%s/%s/command/encoding" % (pid, what), "inconclusive", detail=str(e)[:400])
    if "push" in which and pid == "C04":
        for lw in ("rm", "mkdir"):
            try:
                shellcmd.list_pipe_obligation(sctx, R, prover, pid, lw, 2, 2)
            except (Inconclusive, Unsupported) as e:
                R.add("%s/push/%s-list/encoding" % (pid, lw), "inconclusive", detail=str(e)[:400])
        try:
            shellcmd.pull_deletes_obligation(sctx, R, prover, pid)
        except (Inconclusive, Unsupported) as e:
            R.add("%s/pull/remove-stale/encoding" % pid, "inconclusive", detail=str(e)[:400])
        try:
            shellcmd.list_native_validation(R, pid)
        except (Inconclusive, subprocess.TimeoutExpired) as e:
            R.add("%s/push/lists/native" % pid, "inconclusive", detail=str(e)[:400])
    try:
        shellcmd.bash_contract_validation(R, pid)
        shellcmd.native_validation(R, pid, tuple(w for w in which if w != "list"))
    except (Inconclusive, subprocess.TimeoutExpired) as e:
        R.add("%s/remote-shell/native" % pid, "inconclusive", detail=str(e)[:400])


def replay(path):
    case = json.load(open(path))["case"]
    if case.get("fn") == "copia_transport_death":
        for prof in ("dev", "release"):
            print(prof, json.dumps(transport_death_case(case["how"], prof)))
        return 0
    if case.get("fn") == "copia_undeletable":
        for prof in ("dev", "release"):
            print(prof, json.dumps(undeletable_case(case["direction"], prof, case.get("uptodate", False))))
        return 0
    if case.get("fn") in ("remote_shell_transport", "remote_list_newline", "remote_writer_death"):
        from . import shellcmd
        shellcmd.replay_case(case)
        return 0
    case.pop("deviation", None)
    case.pop("fn", None)
    for prof in ("dev", "release"):
        r = native_case(case, prof)
        print(prof, json.dumps(r)[:1500])
        print(prof, "expected", json.dumps(expect_case(case))[:800])
    return 0
