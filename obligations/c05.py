"""C05 — patch never reports success on wrong bytes (DESIGN §4 C05).  E2: Kani over CopiaSync::patch /
Delta::validate with every delta field symbolic, concrete op-list shapes, 3-byte symbolic basis."""
import json

from mirsmt import native, kanirun
from . import kanilib

BL = 3
SHAPES = {"empty": "", "c": "C", "l": "2", "cl": "C1", "lc": "1C", "cc": "CC", "clc": "C1C", "cl_noverify": "C1"}


def shim_hash(bs):
    out = [0] * 32
    out[0] = len(bs)
    for i, b in enumerate(bs[:30]):
        out[1 + i] = b
    out[31] = 0xA5
    return out


def interpret(basis, ops):
    out = []
    for op in ops:
        if "copy" in op:
            o, l = op["copy"]
            if l == 0:
                continue
            if o + l > len(basis):
                return None
            out += basis[o:o + l]
        else:
            out += op["lit"]
    return out


def decode(r, shape):
    c = kanirun.Cursor(r.playback or [])
    basis = c.bytes_(BL)
    block_size, source_size, basis_size = c.u(), c.u(), c.u()
    checksum = c.bytes_(32)
    ops = []
    for k in shape:
        if k == "C":
            ln = c.u()
            off = c.u()
            ops.append({"copy": [off, ln]})
        elif k == "1":
            ops.append({"lit": c.bytes_(1)})
        elif k == "2":
            ops.append({"lit": c.bytes_(2)})
    return basis, {"block_size": block_size, "source_size": source_size, "basis_size": basis_size,
                   "ops": ops, "checksum": bytes(checksum).hex()}


def witness_for(R, shape, verify, engine="sync"):
    def w(r):
        basis, delta = decode(r, shape)
        interp = interpret(basis, delta["ops"])
        if interp is not None and shim_hash(interp) == list(bytes.fromhex(delta["checksum"])):
            delta["checksum_of"] = interp     # the model's checksum is `hash(output)` under the shim: re-key to real BLAKE3
        case = {"fn": "patch", "engine": engine, "basis": basis, "delta": delta, "verify": verify}
        res = native.run_both(case)
        bad = {}
        for p, v in res.items():
            if "panic" in v or "crash" in v:
                bad[p] = "crash instead of a reported error: %s" % str(v)[:160]
            elif v.get("result") == "ok":
                if verify and not v.get("hash_matches"):
                    bad[p] = "success although the output does not hash to delta.checksum"
                elif interp is None:
                    bad[p] = "success although a copy reads outside the basis"
                elif v.get("output") != interp:
                    bad[p] = "success with output %s, ops describe %s" % (v.get("output"), interp)
        if bad:
            case["observed"] = res
            kind = "crash" if any("crash" in b for b in bad.values()) else "wrong-success"
            return {"confirmed": True, "replay_path": R.save_replay("C05/patch", case), "key": "C05/%s-patch/%s" % (engine, kind),
                    "detail": "patch(%s): native %s" % (json.dumps(case)[:260], bad)}
        return {"confirmed": False, "detail": "native patch behaves correctly on the decoded input %s" % json.dumps(case)[:200]}
    return w


def e1_instance(R, pid, tier, seed, engine, bl, nops, maxlit, tag):
    from mirsmt.prove import Prover
    from . import deltalib, patchlib
    ctx = deltalib.Ctx()
    patchlib.c05_obligations(ctx, R, Prover(R, tier, cross_order=("z3-4.8.12", "cvc5")), engine, bl, nops, maxlit)


def e1_validate(R, pid, tier, seed, engine, count, tag):
    from . import deltalib, patchlib
    ctx = deltalib.Ctx()
    patchlib.validate_patch(ctx, R, seed, count, engine=engine)
    R.results.append({"id": "C05/translator-validation-%s" % engine, "status": "holds", "queries": 0,
                      "detail": "%d concrete %s patch runs agree with the native build" % (R.validation["cases"], engine)})


def run_e1(R, tier, seed):
    from . import parallel
    insts = [(3, 2, 2), (2, 3, 1)] if tier == "quick" else [(3, 2, 2), (2, 3, 1), (4, 3, 3), (0, 2, 2), (5, 2, 4), (4, 4, 2)]
    jobs = []
    for eng in ("sync", "async"):
        jobs.append(("obligations.c05", "e1_validate", dict(pid="C05", tier=tier, seed=seed, engine=eng, count=40 if tier == "quick" else 300, tag="validate-" + eng)))
        for (bl, nops, maxlit) in insts:
            jobs.append(("obligations.c05", "e1_instance", dict(pid="C05", tier=tier, seed=seed, engine=eng, bl=bl, nops=nops, maxlit=maxlit,
                                                                tag="%s-patch[bl=%d,ops<=%d,lit<=%d]" % (eng, bl, nops, maxlit))))
    R.extra["e1_instances"] = [list(x) for x in insts]
    parallel.run_jobs(R, jobs)


def run(R, tier, seed):
    R.trusted += ["E1: rustc MIR dump + mirsmt encoder with in-memory Cursor/Vec models (Read, Seek, Write, tokio futures always ready), "
                  "BLAKE3 as the ideal hash; validated in concrete mode against the native build"]
    R.assumptions += ["E1 instances: basis of bl symbolic bytes, op list of length 0..n with every op's KIND symbolic, copy offset any u64, copy length any u32, "
                      "literals up to m symbolic bytes, all header fields and verify_checksum symbolic; engines: CopiaSync::patch and the AsyncCopiaSync::patch state machine"]
    run_e1(R, tier, seed)
    run_cli(R, tier, seed)
    run_kani(R, tier, seed)


def run_cli(R, tier, seed):
    """`copia patch` exit status: run_patch from MIR - the output is touched only by File::create and through AsyncCopiaSync::patch,
    and Ok is returned only if that call returned Ok (the engine's own guarantee is what the other C05 obligations decide)."""
    from mirsmt.prove import Prover
    from . import clilib
    R.assumptions += ["`copia patch` (run_patch from MIR): success only if AsyncCopiaSync::patch succeeded; no other write/truncate/set_len on the output; "
                      "file system = recorded effects with arbitrary outcomes; the engine call is a summary"]
    ctx = clilib.Ctx()
    clilib.reader_obligation(ctx, R, Prover(R, tier), "C05", "patch")
    clilib.native_validation(R, "C05")


def run_kani(R, tier, seed):
    R.trusted += ["Kani 0.68 / CBMC 6.11 (cadical)", "blake3 shim: injective padding hash (collision-free idealisation; collisions are outside the claim)",
                  "stub: std::fmt::format -> String::new()"]
    R.assumptions += ["basis of 3 symbolic bytes; op lists of the shapes [], [C], [L], [C,L], [L,C], [C,C], [C,L,C]; copy length <= 4, literals <= 2 bytes; "
                      "block_size/source_size/basis_size/checksum/offsets fully symbolic",
                      "dev-profile semantics (debug assertions and overflow checks on); counterexamples are replayed in dev and release",
                      "NOT covered: copy lengths up to 2^32 (allocation behaviour), longer op lists"]
    fns = ["<CopiaSync as Sync>::patch", "Delta::validate", "Delta::expected_output_size", "StrongHash::compute"]
    quick = ["c", "cl"]
    thorough = ["empty", "c", "l", "cl", "lc", "cl_noverify", "cc", "clc"]
    specs = []
    for name in (quick if tier == "quick" else thorough):
        shape = SHAPES[name]
        verify = not name.endswith("noverify")
        specs.append(dict(h="patch::c05_sync_%s" % name, functions=fns,
                          bound="basis [u8;3] symbolic; delta shape %r (C=copy{offset:u64 any,len<=4}, digit=literal of that many symbolic bytes); "
                                "all header fields symbolic; verify_checksum=%s; unwind 34" % (shape, verify),
                          witness=witness_for(R, shape, verify), shims=["blake3 shim", "rayon shim", "rustc-hash shim"]))
    kanilib.run_harnesses(R, "C05", "lib", specs, timeout_s=1500 if tier == "quick" else 5400, mem_gb=30)


def replay(path):
    case = json.load(open(path))["case"]
    if case.get("fn") == "cli_hostile_file":
        from . import clilib
        clilib.replay_case(case)
        return 0
    case = {k: v for k, v in case.items() if k not in ("observed", "expected")}
    print(json.dumps(native.run_both(case), indent=1))
    return 0
