"""CLI file readers (`copia delta`, `copia patch`): run_delta / run_patch from MIR (the async block inside #[instrument]) with the
file system as a recorder and bincode as a contract (ANY value of the type, or an error).  Decided: no value a hostile file
can decode to makes the command panic (C20), and `copia patch` touches its output only through AsyncCopiaSync::patch and
reports success only if that reported success (C05's exit-status clause)."""
import json
import os
import re
import struct
import subprocess
import tempfile
import shutil
import z3

from mirsmt import env, stdmodels, patchmodels, codecmodels, fsmodels, itermodels, asyncmodels
from mirsmt.fsmodels import pathv, strv, lit_id
from mirsmt.symexec import (Executor, State, VInt, VBool, VStruct, VEnum, VRef, VSeq, VList, VOpaque, UNIT, I, simp, Unsupported)
from mirsmt.env import model_int, model_bool, Inconclusive
from mirsmt.stdmodels import opt_sym
from .hublib import _any, _all


class Ctx:
    def __init__(self):
        def keep(n):
            # run_delta / run_patch and every other function of the crate root (helpers they may call, e.g. validate_block_size)
            return n.startswith(("run_delta", "run_patch")) or re.match(r"^[a-z_][a-z_0-9]*($|::\{)", n) is not None
        self.mir, self.mir_path, self.dump_s = env.load("bin", keep)
        self.idx = env.impl_index(self.mir)
        self.enums = env.source_enums()


def with_block_size_contract():
    """the library constructor's documented panic condition, read from its source: assert!(pow2 && (512..=65536))"""
    src = open(env.REPO + "/src/async_sync.rs").read()
    m = re.search(r"pub fn with_block_size\(block_size: usize\) -> Self \{\s*assert!\(\s*block_size\.is_power_of_two\(\) && \((\d+)\.\.=(\d+)\)\.contains\(&block_size\)", src)
    if not m:
        raise Inconclusive("AsyncCopiaSync::with_block_size no longer has the shape `assert!(pow2 && (lo..=hi).contains(..))`; its contract must be re-derived")
    return int(m.group(1)), int(m.group(2))


def _mk(ctx, what):
    ex = Executor(ctx.mir, ctx.enums, K=4)
    ex.impl_index = ctx.idx
    stdmodels.install_core(ex)
    stdmodels.install_time_fs(ex)
    itermodels.install(ex)
    ex.byte_cap = 4
    patchmodels.install(ex)
    codecmodels.install(ex)
    fsmodels.install(ex)
    asyncmodels.install(ex)
    lo, hi = with_block_size_contract()
    ev = {"engine_calls": [], "fs": []}
    BS = ex.fresh_int("decoded_block_size", lo=0, hi=(1 << 64) - 1 if what == "delta" else (1 << 32) - 1)
    parse_ok = ex.fresh_bool("bincode_ok")

    def tread(ex_, st, args, dest_ty, func, where):
        ok = ex_.fresh_bool("read_ok")
        fsmodels.record(ex_, st, "read", path=fsmodels.path_term(ex_, st, args[0]), ok=ok)
        return asyncmodels.ready(fsmodels.io_result(ex_, ok, VSeq(z3.Array("FILE", z3.IntSort(), z3.IntSort()), I(0), ex_.fresh_int("n", lo=0, hi=1 << 40), "u8")))

    def deser(ex_, st, args, dest_ty, func, where):
        if what == "delta":
            val = VStruct("Signature", [VInt(BS, "usize"), VInt(ex_.fresh_int("file_size", ty="u64"), "u64"), VOpaque("blocks")])
        else:
            val = VStruct("Delta", [VInt(BS, "u32"), VInt(ex_.fresh_int("source_size", ty="u64"), "u64"), VInt(ex_.fresh_int("basis_size", ty="u64"), "u64"), VOpaque("ops"), VOpaque("checksum")])
        return VEnum("Result", simp(z3.If(parse_ok, I(0), I(1))), {0: [val], 1: [VOpaque("bincode error")]})

    def with_bs(ex_, st, args, dest_ty, func, where):
        n = args[0].t
        pow2 = z3.Or(*[n == (1 << k) for k in range(0, 64)])
        valid = z3.And(pow2, n >= lo, n <= hi)
        ex_.oblig("panic", where, "AsyncCopiaSync::with_block_size asserts a power of two in %d..=%d" % (lo, hi), z3.And(st.guard, z3.Not(valid)))
        st.guard = simp(z3.And(st.guard, valid))
        return VStruct("Engine", [VInt(n, "usize")])

    def topen(call):
        def h(ex_, st, args, dest_ty, func, where):
            ok = ex_.fresh_bool(call + "_ok")
            p_ = fsmodels.path_term(ex_, st, args[0])
            e = fsmodels.record(ex_, st, call, path=p_, ok=ok, flags={k: z3.BoolVal(call == "create" and k in ("create", "truncate", "write")) for k in fsmodels.OO_FLAGS})
            return asyncmodels.ready(fsmodels.io_result(ex_, ok, VStruct("File", [VInt(p_, "usize"), VInt(I(e["seq"]), "usize")])))
        return h

    def engine(name):
        def h(ex_, st, args, dest_ty, func, where):
            ok = ex_.fresh_bool(name + "_ok")
            e = fsmodels.record(ex_, st, "engine:" + name, path=I(0), ok=ok, args=list(args))
            if name == "patch":
                try:
                    e["out_file"] = fsmodels._file_of(ex_, st, args[-1])
                except Unsupported:
                    e["out_file"] = None
            ev["engine_calls"].append(e)
            okval = VStruct("Delta", [VInt(BS, "u32"), VInt(ex_.fresh_int("ss", ty="u64"), "u64"), VInt(ex_.fresh_int("bsz", ty="u64"), "u64"), VSeq(z3.K(z3.IntSort(), I(0)), I(0), ex_.fresh_int("nops", lo=0, hi=8), "u8"), VOpaque("ck")]) if name == "delta" else UNIT
            return asyncmodels.ready(VEnum("Result", simp(z3.If(ok, I(0), I(1))), {0: [okval], 1: [VOpaque("CopiaError")]}))
        return h

    def oo_new(ex_, st, args, dest_ty, func, where):
        return VStruct("OpenOptions", [VBool(z3.BoolVal(False)) for _ in fsmodels.OO_FLAGS])

    def oo_set(ex_, st, args, dest_ty, func, where):
        flag = func.rsplit("::", 1)[1]
        ref = args[0]
        oo = fsmodels._deep(ex_, st, ref)
        f = list(oo.f)
        f[fsmodels.OO_FLAGS.index(flag)] = VBool(args[1].t)
        ex_.store_ref(st, ref, VStruct("OpenOptions", f))
        return ref

    def oo_open(ex_, st, args, dest_ty, func, where):
        oo = fsmodels._deep(ex_, st, args[0])
        ok = ex_.fresh_bool("open_ok")
        p_ = fsmodels.path_term(ex_, st, args[1])
        e = fsmodels.record(ex_, st, "open-options", path=p_, ok=ok, flags={k: oo.f[i].t for i, k in enumerate(fsmodels.OO_FLAGS)})
        return asyncmodels.ready(fsmodels.io_result(ex_, ok, VStruct("File", [VInt(p_, "usize"), VInt(I(e["seq"]), "usize")])))

    def trename(ex_, st, args, dest_ty, func, where):
        ok = ex_.fresh_bool("rename_ok")
        fsmodels.record(ex_, st, "rename", path=fsmodels.path_term(ex_, st, args[0]), to=fsmodels.path_term(ex_, st, args[1]), ok=ok)
        return asyncmodels.ready(fsmodels.io_result(ex_, ok))

    def tflush(ex_, st, args, dest_ty, func, where):
        ok = ex_.fresh_bool("flush_ok")
        fsmodels.record(ex_, st, "flush-file", path=I(0), ok=ok)
        return asyncmodels.ready(fsmodels.io_result(ex_, ok))

    def file_other(ex_, st, args, dest_ty, func, where):
        f = fsmodels._deep(ex_, st, args[0])
        ok = ex_.fresh_bool("fileop_ok")
        fsmodels.record(ex_, st, "file-op:" + func.rsplit("::", 1)[1], path=f.f[0].t if isinstance(f, VStruct) and f.name == "File" else I(0), ok=ok)
        return asyncmodels.ready(fsmodels.io_result(ex_, ok))

    def twrite(ex_, st, args, dest_ty, func, where):
        ok = ex_.fresh_bool("write_ok")
        fsmodels.record(ex_, st, "write-file", path=fsmodels.path_term(ex_, st, args[0]), ok=ok)
        return asyncmodels.ready(fsmodels.io_result(ex_, ok))

    def ser(ex_, st, args, dest_ty, func, where):
        ok = ex_.fresh_bool("serialize_ok")
        return VEnum("Result", simp(z3.If(ok, I(0), I(1))), {0: [VSeq(z3.Array("SER", z3.IntSort(), z3.IntSort()), I(0), ex_.fresh_int("m", lo=0, hi=1 << 40), "u8")], 1: [VOpaque("bincode error")]})

    def poll_ready(ex_, st, args, dest_ty, func, where):
        pin = args[0]
        ref = pin.f[0] if isinstance(pin, VStruct) and pin.name == "Pin" else pin
        v = fsmodels._deep(ex_, st, ref)
        if not (isinstance(v, VStruct) and v.name == "ReadyFuture"):
            raise Unsupported("poll of %r" % (v,))
        return VEnum("Poll", I(0), {0: [v.f[0]]})

    def opaque(ex_, st, args, dest_ty, func, where):
        return VOpaque(func[:30])

    def unit(ex_, st, args, dest_ty, func, where):
        return UNIT

    def setext(ex_, st, args, dest_ty, func, where):
        ref = args[0]
        cur = fsmodels.path_term(ex_, st, ref)
        ex_.store_ref(st, ref, pathv(fsmodels.WITHEXT(cur, fsmodels.text_term(ex_, st, args[1]))))
        return VBool(z3.BoolVal(True))

    def fnum(ex_, st, args, dest_ty, func, where):
        return VOpaque("f64")
    ex.models = [(re.compile(r"^tokio::fs::read::<"), tread, "tokio::fs::read (recorded; any bytes or an error)"),
                 (re.compile(r"^bincode::deserialize::<"), deser, "bincode::deserialize (CONTRACT: ANY value of the type, or an error)"),
                 (re.compile(r"^bincode::serialize::<"), ser, "bincode::serialize (contract)"),
                 (re.compile(r"^AsyncCopiaSync::with_block_size$"), with_bs, "AsyncCopiaSync::with_block_size (library contract: panics unless a power of two in %d..=%d)" % (lo, hi)),
                 (re.compile(r"^tokio::fs::File::open::<"), topen("open"), "tokio File::open (recorded)"),
                 (re.compile(r"^tokio::fs::File::create::<"), topen("create"), "tokio File::create (recorded)"),
                 (re.compile(r"^tokio::fs::write::<"), twrite, "tokio::fs::write (recorded)"),
                 (re.compile(r"^tokio::fs::OpenOptions::new$"), oo_new, "tokio OpenOptions::new"),
                 (re.compile(r"^tokio::fs::OpenOptions::(create|truncate|write|read|append|create_new)$"), oo_set, "tokio OpenOptions flag"),
                 (re.compile(r"^tokio::fs::OpenOptions::open::<"), oo_open, "tokio OpenOptions::open (recorded with its flags)"),
                 (re.compile(r"^tokio::fs::rename::<"), trename, "tokio::fs::rename (recorded)"),
                 (re.compile(r"^<(&mut )?tokio::fs::File as (tokio::io::)?AsyncWriteExt>::flush$"), tflush, "File::flush (recorded)"),
                 (re.compile(r"^std::mem::drop::<"), lambda ex_, st, a, d, f, w: UNIT, "mem::drop"),
                 (re.compile(r"^tokio::fs::File::(set_len|sync_all|sync_data|set_permissions)$"), file_other, "other operations on the output file (recorded)"),
                 (re.compile(r"^AsyncCopiaSync::patch::<"), engine("patch"), "AsyncCopiaSync::patch (summary: any outcome; decided under C05/C01)"),
                 (re.compile(r"^AsyncCopiaSync::delta::<"), engine("delta"), "AsyncCopiaSync::delta (summary)"),
                 (re.compile(r"^(tokio::io::)?BufReader::<tokio::fs::File>::new$"), lambda ex_, st, a, d, f, w: a[0], "BufReader::new"),
                 (re.compile(r"^<(\{async fn body of (tokio::fs::[\w:]+(<.*>)?|AsyncCopiaSync::(patch|delta)<.*>)\(\)\}|tokio::io::util::\w+::\w+<'_, .*>) as (std::future::)?Future>::poll$"), poll_ready, "poll of a ready library future"),
                 (re.compile(r"^std::io::_e?print$"), unit, "println!"),
                 (re.compile(r"^Path::display$|^Vec::<DeltaOp>::len$|^Delta::compression_ratio$"), opaque, "reporting plumbing (opaque)"),
                 (re.compile(r"^PathBuf::set_extension::<"), setext, "PathBuf::set_extension (uninterpreted)"),
                 (re.compile(r"^<Vec<u8> as Deref>::deref$|^<PathBuf as Clone>::clone$"), lambda ex_, st, a, d, f, w: VRef("val", val=fsmodels._deep(ex_, st, a[0])) if "Deref" in f else fsmodels._deep(ex_, st, a[0]), "deref / clone"),
                 ] + ex.models
    return ex, ev, BS, parse_ok, (lo, hi)


def reader_obligation(ctx, R, prover, pid, what):
    ex, ev, BS, parse_ok, (lo, hi) = _mk(ctx, what)
    A1, A2, OUT = z3.Int("ARG1"), z3.Int("ARG2"), z3.Int("OUTPUT")
    has_out = ex.fresh_bool("output_given")
    st = State()
    cands = [v for k, v in asyncmodels.body_index(ex).items() if "main.rs" in k and "async block" in k and v.startswith("run_%s::" % what)]
    fn = ex.find_fn(cands[0]) if len(cands) == 1 else None
    if fn is None:
        raise Inconclusive("no (unique) MIR body for the instrumented block of run_%s" % what)
    # order of the block's captures, read from the MIR debug info of the real body
    text = open(ctx.mir_path).read()
    at = text.index("fn " + fn.name + "(")
    caps = dict((int(i), n) for n, i in re.findall(r"debug (\w+) => \(\(\*_\d+\)\.(\d+): ", text[at:text.index("bb0: {", at)]))
    vals = {"output": opt_sym(has_out, pathv(OUT))}
    others = [n for i, n in sorted(caps.items()) if n != "output"]
    if len(others) != 2 or "output" not in caps.values():
        raise Inconclusive("run_%s captures %r, not (two paths, output)" % (what, caps))
    vals[others[0]], vals[others[1]] = VRef("val", val=pathv(A1)), VRef("val", val=pathv(A2))
    BASIS = A1 if others[0] == "basis" else A2
    st.frames[0] = {"co": VEnum("Coroutine", I(0), {-1: [vals[caps[i]] for i in sorted(caps)]})}
    poll = ex.exec_fn(fn, [VStruct("Pin", [VRef("place", 0, "co")]), VOpaque("Context")], st)
    if poll is None or 0 not in poll.pay:
        raise Inconclusive("run_%s never becomes Ready" % what)
    ex.exit_guards.append(st.guard)
    res = poll.pay[0][0]
    ok = z3.And(poll.discr == 0, res.discr == 0)
    eff = fsmodels.effects(ex)
    goals = {}
    if what == "patch":
        creates = [e for e in eff if e["call"] == "create"]
        outs = set()
        goals["the-output-file-is-touched-only-by-creating-it-and-through-AsyncCopiaSync::patch"] = _all(
            z3.Not(e["guard"]) for e in eff if e["call"].startswith("file-op:") or e["call"] == "write-file")
        goals["success-is-reported-only-if-AsyncCopiaSync::patch-reported-success"] = z3.Implies(ok, _any(z3.And(e["guard"], e["ok"]) for e in ev["engine_calls"]))
        # where the reconstruction lands: the engine writes into a file that STARTS EMPTY, and the output path is that file (or a rename
        # of it requested after the engine returned Ok)
        P = z3.If(has_out, OUT, fsmodels.WITHEXT(BASIS, lit_id("patched")))
        opens = {e["seq"]: e for e in eff if e["call"] in ("create", "open-options")}
        renames = [e for e in eff if e["call"] == "rename"]
        conds = []
        for g in ev["engine_calls"]:
            of = g.get("out_file")
            o = opens.get(simp(of.f[1].t).as_long()) if of is not None and z3.is_int_value(simp(of.f[1].t)) else None
            if o is None:
                conds.append(z3.Not(g["guard"]))
                continue
            fl = o.get("flags", {})
            empty_start = z3.Or(z3.And(fl.get("create", z3.BoolVal(False)), fl.get("truncate", z3.BoolVal(False))), fl.get("create_new", z3.BoolVal(False)))
            lands = z3.Or(o["path"] == P, _any(z3.And(r["guard"], r["ok"], r["path"] == o["path"], r["to"] == P, z3.BoolVal(r["seq"] > g["seq"]), g["ok"]) for r in renames))
            conds.append(z3.Implies(g["guard"], z3.And(empty_start, z3.Implies(ok, lands))))
        goals["the-engine-writes-into-a-file-that-starts-empty-and-that-file-is-(or-is-renamed-to)-the-output-path"] = z3.And(*conds) if conds else z3.BoolVal(False)
    else:
        goals["success-is-reported-only-if-AsyncCopiaSync::delta-reported-success"] = z3.Implies(ok, _any(z3.And(e["guard"], e["ok"]) for e in ev["engine_calls"]))

    def witness(name, model, neg):
        bs = model_int(model, BS) if model is not None else 3
        fam = [bs, 3, 0, 1 << 20, 511]
        for prof in ("dev", "release"):
            for b in fam:
                r = cli_case(what, b, prof)
                if r.get("crashed"):
                    case = {"fn": "cli_hostile_file", "what": what, "block_size": b, "observed": {prof: r}}
                    return {"confirmed": True, "replay_path": R.save_replay("%s/cli/run_%s" % (pid, what), case), "key": "%s/cli/run_%s/panic" % (pid, what),
                            "detail": "`copia %s` on a file whose block size field is %d: %s (%s)" % (what, b, r["how"], prof)}
        if what == "patch":
            for prof in ("dev", "release"):
                for w2, label in (("patch-size", "with source_size enlarged by 7"), ("patch-twice", "after a failed patch to the same output")):
                    r = cli_case(w2, 7, prof)
                    if r.get("bad"):
                        case = {"fn": "cli_hostile_file", "what": w2, "block_size": 7, "observed": {prof: r}}
                        return {"confirmed": True, "replay_path": R.save_replay("%s/cli/run_patch" % pid, case), "key": "%s/cli/run_patch/wrong-success" % pid,
                                "detail": "`copia patch` %s: %s (%s)" % (label, r["how"], prof)}
        return {"confirmed": False, "detail": "the real `copia %s` reports an error (no crash, no wrong success) on the hostile files tried" % what}
    prover.prove(ex, goals, "%s/cli/run_%s" % (pid, what),
                 "`copia %s`: the file decodes (bincode = contract) to ANY value, in particular any block size (full width); every file operation may fail; "
                 "AsyncCopiaSync::with_block_size is its library contract (panics unless a power of two in %d..=%d), the engine call is a summary" % (what, lo, hi),
                 [fn.name], witness, covers={"ok-reachable": ok})


# ----------------------------------------------------------------- native: the real binary on tampered files

def cli_case(what, value, profile):
    from . import c04
    exe = c04.build_copia(profile)
    base = tempfile.mkdtemp(prefix="copia-verif-cli-")
    try:
        basis, source = os.path.join(base, "basis"), os.path.join(base, "source")
        data = bytes((i * 37 + 11) % 251 for i in range(6000))
        open(basis, "wb").write(data)
        open(source, "wb").write(data[:3000] + b"inserted" + data[3000:])
        sig, dl, out = os.path.join(base, "sig"), os.path.join(base, "delta"), os.path.join(base, "out")
        run = lambda *a: subprocess.run([exe] + list(a), stdout=subprocess.PIPE, stderr=subprocess.PIPE, timeout=60)
        if run("signature", basis, "-o", sig).returncode != 0 or run("delta", source, sig, "-o", dl).returncode != 0:
            return {"setup_failed": True}
        if what == "delta":
            b = bytearray(open(sig, "rb").read())
            b[0:8] = struct.pack("<Q", value)
            open(sig, "wb").write(b)
            p = run("delta", source, sig, "-o", os.path.join(base, "d2"))
        elif what == "patch":
            b = bytearray(open(dl, "rb").read())
            b[0:4] = struct.pack("<I", value & 0xFFFFFFFF)
            open(dl, "wb").write(b)
            p = run("patch", basis, dl, "-o", out)
        elif what == "patch-twice":
            # a FAILED patch (checksum byte flipped: everything is written, then refused) followed by a valid, SHORTER one to the same output
            b = bytearray(open(dl, "rb").read())
            b[-1] ^= 0xFF
            bad = os.path.join(base, "bad.delta")
            open(bad, "wb").write(b)
            p1 = run("patch", basis, bad, "-o", out)
            short = os.path.join(base, "short")
            open(short, "wb").write(data[:700])
            sd = os.path.join(base, "short.delta")
            if run("delta", short, sig, "-o", sd).returncode != 0:
                return {"setup_failed": True}
            p = run("patch", basis, sd, "-o", out)
            if p1.returncode == 0:
                return {"bad": True, "how": "a delta whose checksum does not match is applied with exit 0"}
            if p.returncode == 0 and open(out, "rb").read() != open(short, "rb").read():
                return {"bad": True, "how": "exit 0 but the %d output bytes are not the %d-byte source (an earlier failed patch left bytes behind)" % (os.path.getsize(out), os.path.getsize(short))}
            return {"bad": False, "rc": p.returncode}
        else:   # patch-size: enlarge the declared source size; success must mean the output IS the source
            b = bytearray(open(dl, "rb").read())
            (ss,) = struct.unpack("<Q", b[4:12])
            b[4:12] = struct.pack("<Q", ss + value)
            open(dl, "wb").write(b)
            p = run("patch", basis, dl, "-o", out)
            if p.returncode == 0 and open(out, "rb").read() != open(source, "rb").read():
                return {"bad": True, "how": "exit 0 but the %d output bytes are not the source (%d bytes)" % (os.path.getsize(out), os.path.getsize(source))}
            return {"bad": False, "rc": p.returncode}
        if p.returncode < 0 or p.returncode >= 128:
            return {"crashed": True, "how": "the process died with status %d (%s)" % (p.returncode, p.stderr.decode(errors="replace")[:160].replace("\n", " "))}
        return {"crashed": False, "rc": p.returncode}
    finally:
        shutil.rmtree(base, ignore_errors=True)


def native_validation(R, pid):
    bad = None
    n = 0
    for prof in ("dev", "release"):
        for what, vals in (("delta", (3, 0, 1 << 20, 1024, (1 << 32) | 4096)), ("patch", (3, 0, 1 << 20, 1024)), ("patch-size", (7,)), ("patch-twice", (7,))):
            for v in vals:
                n += 1
                r = cli_case(what, v, prof)
                if r.get("crashed") or r.get("bad"):
                    bad = (prof, what, v, r)
                    break
            if bad:
                break
        if bad:
            break
    R.validation["cases"] += n
    if bad:
        prof, what, v, r = bad
        R.validation["disagreements"] += 1
        case = {"fn": "cli_hostile_file", "what": what, "block_size": v, "observed": {prof: r}}
        R.add("%s/cli/native" % pid, "violated", confirmed=True, replay_path=R.save_replay("%s/cli/native" % pid, case), key="%s/cli/run_%s/%s" % (pid, what.split("-")[0], "panic" if r.get("crashed") else "wrong-success"),
              detail="`copia %s` on a tampered file (field value %s, %s): %s" % (what, v, prof, r.get("how")))
    else:
        R.add("%s/cli/native" % pid, "holds", queries=0, solver_s=0.0, detail="the real `copia delta` / `copia patch` report an error (no crash, no wrong success) on %d tampered files (dev+release); validation" % n)


def replay_case(case):
    for prof in ("dev", "release"):
        print(prof, json.dumps(cli_case(case["what"], case["block_size"], prof)))
