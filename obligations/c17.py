"""C17 — rolling checksums equal their definition after any operations (DESIGN §4 C17).

Engine E1: the MIR of RollingChecksum::{new,empty,roll,push,digest,len,sum_a,sum_b} and
FastRollingChecksum::{new,empty,roll,push,digest,len} is executed symbolically; each
operation is one inductive step from an arbitrary state satisfying the representation
invariant; `new`'s loop is accelerated (additive accumulator) and cross-checked by unrolling.
"""
import json
import random
import z3

from mirsmt import env, stdmodels, native
from mirsmt.symexec import (Executor, State, VInt, VBool, VStruct, VRef, VSeq, I, simp, Unsupported, int_info, ty_range)
from mirsmt.env import decide, cross_check, model_int, Inconclusive, now

M_SPEC = 65521          # from the property text
NMAX = 65536            # maximum block size = maximum window
TYPES = {"RollingChecksum": "rolling", "FastRollingChecksum": "fast"}


# ------------------------------------------------------------------ reference definition (python ints)

def ref_sums(window):
    n = len(window)
    a = sum(window)
    b = sum((n - i) * x for i, x in enumerate(window))
    return a, b


def ref_digest(window):
    a, b = ref_sums(window)
    return ((b % M_SPEC) << 16) | (a % M_SPEC)


def runs_to_bytes(runs):
    out = []
    for k, v in runs:
        out.extend([v] * k)
    return out


# ------------------------------------------------------------------ set-up

class Ctx:
    def __init__(self):
        self.mir, self.mir_path, self.dump_s = env.load("lib", lambda n: n.startswith("checksum::"))
        self.idx = env.impl_index(self.mir)
        self.enums = env.source_enums()

    def ex(self, K=8):
        e = Executor(self.mir, self.enums, K=K)
        e.impl_index = self.idx
        stdmodels.install_core(e)
        from mirsmt import itermodels, deltamodels
        itermodels.install(e)
        e.add_model(r"^core::slice::<impl \[u8\]>::chunks$", deltamodels._chunks, "<[u8]>::chunks (concrete length)")
        e.add_model(r"^<std::slice::Chunks<'_, u8> as Iterator>::next$", _chunks_next, "slice::Chunks::next")
        e.add_model(r"^<&\[u8\] as IntoIterator>::into_iter$", stdmodels._slice_iter, "<&[u8] as IntoIterator>::into_iter")
        e.cand_cap = 64
        return e

    def fn(self, ex, ty, m):
        key = "%s::%s" % (ty, m)
        if key not in self.idx:
            raise Inconclusive("function %s not found in the MIR dump" % key)
        f = ex.find_fn(self.idx[key])
        if f is None:
            raise Inconclusive("no MIR body for " + key)
        return f

    def fields(self, ty):
        """field names in declaration order, from the aggregate in `empty`"""
        ex = self.ex()
        f = self.fn(ex, ty, "empty")
        for bb in f.order:
            for s in f.blocks[bb].stmts:
                if s.kind == "assign" and s.rv.kind == "adt" and s.rv.a[2]:
                    return list(s.rv.a[2])
        raise Inconclusive("cannot find the %s aggregate in `empty`" % ty)

    def const(self, ty, name):
        ex = self.ex()
        f = self.fn(ex, ty, "roll")
        v = ex.const_value("%s::%s" % (ty, name), f)
        if not isinstance(v, VInt) or not z3.is_int_value(v.t):
            raise Inconclusive("constant %s::%s not resolved from the MIR dump" % (ty, name))
        return v.t.as_long(), v.ty


def _chunks_next(ex, st, args, dest_ty, func, where):
    from mirsmt import itermodels
    ref = args[0]
    it = ex.deref(st, ref)
    if isinstance(it, VStruct) and it.name == "PyIter":
        ex.store_ref(st, ref, itermodels.mk_it([(z3.BoolVal(True), v) for v in it.f]))
    return itermodels._next(ex, st, args, dest_ty, func, where)


def mk_state(ctx, ty, vals):
    """vals: dict field -> (term, rust type)"""
    names = ctx.fields(ty)
    fs = []
    for n in names:
        if n not in vals:
            raise Inconclusive("unexpected field `%s` in %s (invariant not written for it)" % (n, ty))
        t, rt = vals[n]
        fs.append(VInt(t, rt))
    return VStruct(ty, fs)


def get_field(ctx, ty, v, name):
    return v.f[ctx.fields(ty).index(name)].t


def field_types(ctx, ty):
    """rust types of the fields, from the struct's field projections in `push` MIR locals"""
    dflt = {"a": "u32", "b": "u32", "count": "usize"} if ty == "RollingChecksum" else {"a": "u64", "b": "u64", "count": "usize", "rolls": "u32"}
    key = ("ft", ty)
    if key not in _FT:
        try:
            got = actual_field_types(ctx, ty)
        except Exception:
            got = {}
        _FT[key] = {k: (got.get(k) if got.get(k) and int_info(got.get(k)) else v) for k, v in dflt.items()}
    return _FT[key]


_FT = {}


def _unused():
    return None


def actual_field_types(ctx, ty):
    """read the field types from the MIR text of digest/push (`((*_1).0: u32)`)"""
    ex = ctx.ex()
    out = {}
    names = ctx.fields(ty)
    for m in ("push", "digest", "len", "roll"):
        f = ctx.fn(ex, ty, m)
        for bb in f.order:
            blk = f.blocks[bb]
            for s in blk.stmts:
                for pl in _places_of(s):
                    for p in pl.proj:
                        if p[0] == "field" and pl.local == "_1" and p[1] < len(names):
                            out.setdefault(names[p[1]], p[2])
    return out


def _places_of(stmt):
    out = []
    if stmt.place is not None:
        out.append(stmt.place)
    rv = stmt.rv
    if rv is not None and hasattr(rv, "a"):
        def walk(x):
            from mirsmt.mirparse import Place, Operand
            if isinstance(x, Place):
                out.append(x)
            elif isinstance(x, Operand) and x.place is not None:
                out.append(x.place)
            elif isinstance(x, (list, tuple)):
                for y in x:
                    walk(y)
        walk(rv.a)
    return out


# ------------------------------------------------------------------ invariants

def abstract_window(ex, lead=True):
    """Abstract sums of a window  o . w'  (lead=True) or w (lead=False):
    returns dict with n, o, A_rest, B_rest and the sound linear facts about them."""
    n = ex.fresh_int("n", lo=(1 if lead else 0), hi=NMAX)
    o = ex.fresh_int("o", lo=0, hi=255) if lead else I(0)
    m = (n - 1) if lead else n           # length of the rest
    Ar = ex.fresh_int("Arest", lo=0)
    Br = ex.fresh_int("Brest", lo=0)
    ex.assumes += [Ar <= 255 * m, Br >= Ar, Br <= NMAX * Ar, Br <= 255 * (NMAX * (NMAX + 1) // 2),
                   z3.Implies(m == 0, z3.And(Ar == 0, Br == 0))]
    return {"n": n, "o": o, "Ar": Ar, "Br": Br}


def runlen_window(ex, lead=True, nmax=NMAX, runs=3):
    """Concrete-by-construction window: [o] . run(k1,v1) . run(k2,v2) . run(k3,v3).
    Returns n, o, Ar, Br as polynomial terms plus the run variables."""
    o = ex.fresh_int("o", lo=0, hi=255) if lead else I(0)
    ks = [ex.fresh_int("k%d" % i, lo=0, hi=nmax) for i in range(runs)]
    vs = [ex.fresh_int("v%d" % i, lo=0, hi=255) for i in range(runs)]
    m = sum(ks)
    n = (1 + m) if lead else m
    ex.assumes += [n <= nmax, n >= (1 if lead else 0)]
    Ar = sum(k * v for k, v in zip(ks, vs))
    # weights of the rest: m, m-1, ..., 1 ; run i starts at weight m - (k_0+..+k_{i-1})
    twoB = I(0)
    used = I(0)
    for k, v in zip(ks, vs):
        w0 = m - used
        twoB = twoB + v * (2 * k * w0 - k * (k - 1))
        used = used + k
    Br = ex.fresh_int("Brest", lo=0)
    ex.assumes.append(2 * Br == twoB)
    return {"n": n, "o": o, "Ar": Ar, "Br": Br, "ks": ks, "vs": vs}


def pre_state(ctx, ex, ty, w, consts):
    """state satisfying the representation invariant for window  o.w' (sums A = o+Ar, B = n*o+Br)"""
    M = M_SPEC
    A = w["o"] + w["Ar"]
    B = w["n"] * w["o"] + w["Br"]
    ft = field_types(ctx, ty)
    if ty == "RollingChecksum":
        return mk_state(ctx, ty, {"a": (A % M, ft["a"]), "b": (B % M, ft["b"]), "count": (w["n"], ft["count"])}), {}
    Iv = consts["NORMALIZE_INTERVAL"]
    Mc = consts["MOD"]
    a = ex.fresh_int("ca", lo=0)
    b = ex.fresh_int("cb", lo=0)
    r = ex.fresh_int("rolls", lo=0, hi=max(Iv - 1, 0))
    inc_a = Mc + 255
    inc_b = Mc * NMAX + (M - 1) + Iv * inc_a
    # congruence written with explicit quotients (a = A + M*qa): keeps the step obligations linear
    qa = z3.Int("qa!%d" % next(ex.fresh))
    qb = z3.Int("qb!%d" % next(ex.fresh))
    ex.assumes += [a == A + M * qa, b == B + M * qb,
                   a <= (M - 1) + r * inc_a, b <= (M - 1) + r * inc_b,
                   a <= ty_range(ft["a"])[1], b <= ty_range(ft["b"])[1]]       # a field holds a value of its declared type
    return mk_state(ctx, ty, {"a": (a, ft["a"]), "b": (b, ft["b"]), "count": (w["n"], ft["count"]), "rolls": (r, ft["rolls"])}), \
        {"a": a, "b": b, "rolls": r}


def post_conditions(ctx, ty, c2, A2, B2, n2, consts):
    """{component: formula that must hold of the post state}"""
    M = M_SPEC
    a, b, cnt = (get_field(ctx, ty, c2, f) for f in ("a", "b", "count"))
    if ty == "RollingChecksum":
        return {"a": a == A2 % M, "b": b == B2 % M, "count": cnt == n2}
    Iv, Mc = consts["NORMALIZE_INTERVAL"], consts["MOD"]
    r = get_field(ctx, ty, c2, "rolls")
    inc_a = Mc + 255
    inc_b = Mc * NMAX + (M - 1) + Iv * inc_a
    return {"a": (a - A2) % M == 0, "b": (b - B2) % M == 0, "count": cnt == n2,
            "bounds": z3.And(r >= 0, r < Iv, a >= 0, b >= 0, a <= (M - 1) + r * inc_a, b <= (M - 1) + r * inc_b)}


# ------------------------------------------------------------------ generic obligation runner

class Ob:
    def __init__(self, R, ctx, tier):
        self.R, self.ctx, self.tier = R, ctx, tier
        self.cap = 60 if tier == "quick" else 600

    def consts(self, ty):
        if ty == "RollingChecksum":
            return {"MOD": self.ctx.const(ty, "MOD")[0]}
        return {"MOD": self.ctx.const(ty, "MOD")[0], "NORMALIZE_INTERVAL": self.ctx.const(ty, "NORMALIZE_INTERVAL")[0]}

    def prove(self, ex, goals, oid_prefix, bound, functions, witness_fn=None):
        from mirsmt.prove import Prover
        w = None
        if witness_fn is not None:
            def w(name, model, neg):
                return witness_fn(name, neg, model)
        return Prover(self.R, self.tier).prove(ex, goals, oid_prefix, bound, functions, w)


# ------------------------------------------------------------------ native confirmation

def confirm_history(R, oid, ty, ops, window_after, what):
    """run the history natively (dev+release) and compare with the definition of the final window"""
    case = {"fn": "checksum", "ty": TYPES[ty], "ops": ops}
    want = ref_digest(window_after)
    res = native.run_both(case)
    bad = {}
    for prof, r in res.items():
        if "panic" in r or "crash" in r:
            bad[prof] = "panic: %s" % (r.get("panic") or r.get("crash"))[:120]
        elif r.get("digest") != want:
            bad[prof] = "digest %#x, definition %#x" % (r.get("digest"), want)
        elif r.get("len") != len(window_after):
            bad[prof] = "len %s, window length %d" % (r.get("len"), len(window_after))
        elif ty == "RollingChecksum":
            a, b = ref_sums(window_after)
            if r.get("a") != a % M_SPEC or r.get("b") != b % M_SPEC:
                bad[prof] = "components (%s,%s) != (%d,%d)" % (r.get("a"), r.get("b"), a % M_SPEC, b % M_SPEC)
    if bad:
        case["expected_digest"] = want
        case["observed"] = res
        path = R.save_replay(oid, case)
        return {"confirmed": True, "replay_path": path, "detail": "%s: native %s" % (what, bad)}
    return {"confirmed": False, "detail": "%s: native run agrees with the definition (model not realised)" % what}


STRESS = {"iv": 5000}


def stress_histories(n, o, x):
    """fallback histories for inductive counterexamples whose pre-state needs a long past: long slides (longer than
    two normalisation periods of the code under check) over extremal run patterns, for the model's window length, the
    largest window and a mid-size one"""
    iv = max(int(STRESS["iv"]), 1)
    hs = []
    seen = set()
    for win in (max(1, min(n, NMAX)), NMAX, 8192, 512):
        if win in seen:
            continue
        seen.add(win)
        span = max(12000, 2 * iv + 2000)
        for (fill, feed) in ((0, 255), (255, 0), (o, x), (255, 255), (x, o)):
            hs.append(({"runs": [[win, fill], [span, feed]]}, win))
        # three-phase patterns: a long stretch at one level (past a normalisation), then a swing to the other
        for (hi, lo) in ((255, 0), (0, 255), (248, 8)):
            hs.append(({"runs": [[win, hi], [iv + 1000, hi], [win + iv + 1000, lo], [win + 1000, hi]]}, win))
    return hs


def confirm_stress(R, oid, ty, n, o, x):
    for data, win in stress_histories(n, o, x):
        case = {"fn": "slide_check", "ty": TYPES[ty], "data": data, "n": win}
        res = native.run_both(case)
        for prof, r in res.items():
            if "panic" in r or "crash" in r or r.get("mismatch_at") is not None:
                case["observed"] = res
                path = R.save_replay(oid, case)
                return {"confirmed": True, "replay_path": path,
                        "detail": "stress history: native (%s) %s" % (prof, json.dumps(r)[:200])}
    return {"confirmed": False, "detail": "stress histories agree with the definition (model not realised)"}


# ------------------------------------------------------------------ the obligations

def step_obligation(ob, ty, op):
    """inductive step for roll / push"""
    ctx, R = ob.ctx, ob.R
    consts = ob.consts(ty)
    STRESS["iv"] = consts.get("NORMALIZE_INTERVAL", 5000)
    oidp = "C17/%s::%s" % (ty, op)
    functions = ["%s::%s" % (ty, op)]
    bound = "inductive step: any state satisfying the invariant, window length %s, all byte values; full machine width" % (
        "1..65536" if op == "roll" else "0..65535 before the push")

    def build(window_fn, **kw):
        ex = ctx.ex()
        lead = (op == "roll")
        w = window_fn(ex, lead=lead, **kw)
        if op == "push":
            ex.assumes.append(w["n"] <= NMAX - 1)
        x = ex.fresh_int("x", lo=0, hi=255)
        c, extra = pre_state(ctx, ex, ty, w, consts)
        st = State()
        st.frames[0] = {"c": c}
        fn = ctx.fn(ex, ty, op)
        args = [VRef("place", 0, "c")]
        if op == "roll":
            args += [VInt(w["o"], "u8"), VInt(x, "u8")]
            A2 = w["Ar"] + x
            B2 = w["Br"] + A2
            n2 = w["n"]
        else:
            args += [VInt(x, "u8")]
            A2 = w["o"] + w["Ar"] + x
            B2 = w["n"] * w["o"] + w["Br"] + A2
            n2 = w["n"] + 1
        ex.exec_fn(fn, args, st)
        ex.exit_guards.append(st.guard)
        c2 = st.frames[0]["c"]
        goals = post_conditions(ctx, ty, c2, A2, B2, n2, consts)
        return ex, w, x, goals, extra

    ex, w, x, goals, extra = build(abstract_window)

    def witness(name, neg_unused, model_unused):
        # re-ask on run-length windows so that the model *is* a window; canonical pre-state first
        for nmax in (4096, NMAX):
            ex2, w2, x2, goals2, extra2 = build(runlen_window, nmax=nmax)
            if name in goals2:
                neg = z3.Not(goals2[name])
            else:
                neg = z3.Or(*[o.formula for o in ex2.obligs]) if ex2.obligs else z3.BoolVal(False)
            extra_c = []
            if extra2:
                extra_c = [extra2["rolls"] == 0, extra2["a"] < M_SPEC, extra2["b"] < M_SPEC]
            st, model, _ = decide(ex2.assumes + extra_c + (ex2.exit_guards if name in goals2 else []), neg, ob.cap)
            if st != "sat":
                continue
            o_ = model_int(model, w2["o"])
            x_ = model_int(model, x2)
            runs = [[model_int(model, k), model_int(model, v)] for k, v in zip(w2["ks"], w2["vs"])]
            runs = [r for r in runs if r[0] > 0]
            if op == "roll":
                win = [[1, o_]] + runs
                ops = [["new", {"runs": win}], ["roll", o_, x_]]
                after = runs_to_bytes(runs) + [x_]
            else:
                win = runs
                ops = [["new", {"runs": win}], ["push", x_]]
                after = runs_to_bytes(runs) + [x_]
            r = confirm_history(R, "%s/%s" % (oidp, name), ty, ops, after,
                                "window %s then %s" % (win, ops[-1]))
            if r["confirmed"]:
                return r
        if model_unused is None:
            return confirm_stress(R, "%s/%s" % (oidp, name), ty, 300, 0, 255)
        n_ = model_int(model_unused, w["n"])
        return confirm_stress(R, "%s/%s" % (oidp, name), ty, n_, model_int(model_unused, w["o"]), model_int(model_unused, x))

    ob.prove(ex, goals, oidp, bound, functions, witness)


def digest_obligation(ob, ty):
    ctx, R = ob.ctx, ob.R
    consts = ob.consts(ty)
    ex = ctx.ex()
    w = abstract_window(ex, lead=False)
    c, extra = pre_state(ctx, ex, ty, w, consts)
    st = State()
    st.frames[0] = {"c": c}
    A, B = w["Ar"], w["Br"]
    goals = {}
    d = ex.exec_fn(ctx.fn(ex, ty, "digest"), [VRef("place", 0, "c")], st)
    goals["digest"] = d.t == (B % M_SPEC) * 65536 + (A % M_SPEC)
    ln = ex.exec_fn(ctx.fn(ex, ty, "len"), [VRef("place", 0, "c")], st)
    goals["len"] = ln.t == w["n"]
    fns = ["%s::digest" % ty, "%s::len" % ty]
    if ty == "RollingChecksum":
        sa = ex.exec_fn(ctx.fn(ex, ty, "sum_a"), [VRef("place", 0, "c")], st)
        sb = ex.exec_fn(ctx.fn(ex, ty, "sum_b"), [VRef("place", 0, "c")], st)
        goals["components<65521"] = z3.And(sa.t < M_SPEC, sb.t < M_SPEC, sa.t == A % M_SPEC, sb.t == B % M_SPEC)
        fns += ["%s::sum_a" % ty, "%s::sum_b" % ty]
    ex.exit_guards.append(st.guard)

    def witness(name, neg, model):
        if model is None:
            return {"confirmed": False, "detail": "no model"}
        return {"confirmed": False, "detail": "digest/len accessor disagrees with the invariant-derived value; "
                                              "n=%s A=%s B=%s" % (model_int(model, w["n"]), model_int(model, A), model_int(model, B))}

    def witness_native(name, neg, model):
        # canonical state: new(window) then digest — realisable when the run-length model exists
        ex2 = ctx.ex()
        w2 = runlen_window(ex2, lead=False, nmax=4096)
        c2, extra2 = pre_state(ctx, ex2, ty, w2, consts)
        st2 = State()
        st2.frames[0] = {"c": c2}
        d2 = ex2.exec_fn(ctx.fn(ex2, ty, "digest"), [VRef("place", 0, "c")], st2)
        neg2 = d2.t != (w2["Br"] % M_SPEC) * 65536 + (w2["Ar"] % M_SPEC)
        extra_c = [extra2["rolls"] == 0, extra2["a"] < M_SPEC, extra2["b"] < M_SPEC] if extra2 else []
        s, m2, _ = decide(ex2.assumes + extra_c + [st2.guard], neg2, ob.cap)
        if s == "sat":
            runs = [[model_int(m2, k), model_int(m2, v)] for k, v in zip(w2["ks"], w2["vs"])]
            runs = [r for r in runs if r[0] > 0]
            return confirm_history(R, "C17/%s::digest/%s" % (ty, name), ty, [["new", {"runs": runs}]],
                                   runs_to_bytes(runs), "new(%s).digest()" % runs)
        # a state that is only reached after slides: new(o . runs); roll(o, x); digest
        ex3 = ctx.ex()
        w3 = runlen_window(ex3, lead=True, nmax=4096)
        x3 = ex3.fresh_int("x", lo=0, hi=255)
        c3, extra3 = pre_state(ctx, ex3, ty, w3, consts)
        st3 = State()
        st3.frames[0] = {"c": c3}
        ex3.exec_fn(ctx.fn(ex3, ty, "roll"), [VRef("place", 0, "c"), VInt(w3["o"], "u8"), VInt(x3, "u8")], st3)
        d3 = ex3.exec_fn(ctx.fn(ex3, ty, "digest"), [VRef("place", 0, "c")], st3)
        A3 = w3["Ar"] + x3
        B3 = w3["Br"] + A3
        neg3 = d3.t != (B3 % M_SPEC) * 65536 + (A3 % M_SPEC)
        extra_c3 = [extra3["rolls"] == 0, extra3["a"] < M_SPEC, extra3["b"] < M_SPEC] if extra3 else []
        s3, m3, _ = decide(ex3.assumes + extra_c3 + [st3.guard], neg3, ob.cap)
        if s3 == "sat":
            o_ = model_int(m3, w3["o"])
            x_ = model_int(m3, x3)
            runs = [[model_int(m3, k), model_int(m3, v)] for k, v in zip(w3["ks"], w3["vs"])]
            runs = [r for r in runs if r[0] > 0]
            r = confirm_history(R, "C17/%s::digest/%s" % (ty, name), ty, [["new", {"runs": [[1, o_]] + runs}], ["roll", o_, x_]],
                                runs_to_bytes(runs) + [x_], "new(%s); roll(%d,%d); digest()" % ([[1, o_]] + runs, o_, x_))
            if r["confirmed"]:
                return r
        r = confirm_stress(R, "C17/%s::digest/%s" % (ty, name), ty, max(1, model_int(model, w["n"])) if model is not None else 64, 0, 255)
        if r["confirmed"]:
            return r
        return witness(name, neg, model)

    ob.prove(ex, goals, "C17/%s::digest" % ty, "any state satisfying the invariant; window 0..65536; full width", fns, witness_native)


def empty_obligation(ob, ty):
    ctx = ob.ctx
    ex = ctx.ex()
    st = State()
    c = ex.exec_fn(ctx.fn(ex, ty, "empty"), [], st)
    consts = ob.consts(ty)
    goals = post_conditions(ctx, ty, c, I(0), I(0), I(0), consts)
    ob.prove(ex, goals, "C17/%s::empty" % ty, "no input", ["%s::empty" % ty],
             lambda n, f, m: {"confirmed": False, "detail": "empty() does not satisfy the invariant"})


def find_loop(ex, fn):
    rank, back = ex.cfg_info(fn)
    heads = sorted({t for _, t in back})
    if len(heads) != 1:
        raise Inconclusive("expected exactly one loop in %s, found %d" % (fn.name, len(heads)))
    return heads[0]


def new_accelerated(ob, ty):
    """obligation 5: `new` by additive loop acceleration (DESIGN §4 C17.5)"""
    ctx, R = ob.ctx, ob.R
    consts = ob.consts(ty)
    oidp = "C17/%s::new" % ty
    functions = ["%s::new" % ty]
    ex0 = ctx.ex()
    fn = ctx.fn(ex0, ty, "new")
    head = find_loop(ex0, fn)
    dbg = fn.debug
    for v in ("a", "b", "len", "iter"):
        if v not in dbg:
            raise Inconclusive("`new` has no variable `%s` (loop shape changed): acceleration not applicable" % v)
    la, lb, llen, lit = dbg["a"], dbg["b"], dbg["len"], dbg["iter"]
    ta, tb = fn.locals[la], fn.locals[lb]
    Wa, Wb = int_info(ta)[1], int_info(tb)[1]

    def sym_data(ex, n):
        # byte-range facts are added point-wise for the elements that are actually read
        arr = z3.Array("data!%d" % next(ex.fresh), z3.IntSort(), z3.IntSort())
        return VSeq(arr, I(0), n, "u8")

    # (0) prologue: entry -> loop head establishes acc = 0, i = 0, len = n
    ex = ctx.ex()
    n = ex.fresh_int("n", lo=0, hi=NMAX)
    data = sym_data(ex, n)
    st = State()
    out = ex.exec_fn(fn, [VRef("val", val=data)], st, K=0, stops={head})
    if head not in out or out[head] is None:
        raise Inconclusive("loop head not reached from entry")
    s0 = out[head]
    fr = s0.frames[out["fid"]]
    it0 = fr[lit]
    goals0 = {"init": z3.And(fr[la].t == 0, fr[lb].t == 0, fr[llen].t == n,
                             it0.f[1].t == 0, it0.f[0].f[1].t == 0, it0.f[0].f[0].len == n, s0.guard)}
    ob.prove(ex, goals0, oidp + "/prologue", "n in 0..65536", functions,
             lambda nm, f, m: {"confirmed": False, "detail": "loop prologue does not start from zero accumulators"})

    # (1) one body iteration from an arbitrary accumulator state is `acc + summand (mod 2^W)`
    ex = ctx.ex()
    n = ex.fresh_int("n", lo=1, hi=NMAX)
    i = ex.fresh_int("i", lo=0)
    ex.assumes.append(i < n)
    data = sym_data(ex, n)
    # the accumulators hold (exact partial sum) mod 2^W; exact partial sums of non-negative summands are
    # bounded by the total, so a checked (non-wrapping) accumulator is only required not to overflow there
    S_a = ex.fresh_int("S_a", lo=0, hi=255 * NMAX)
    S_b = ex.fresh_int("S_b", lo=0, hi=255 * (NMAX * (NMAX + 1) // 2))
    ex.assumes += [S_a <= 255 * i, S_b <= 255 * NMAX * i]
    acc_a = simp(S_a % (1 << Wa)) if not ex.fits(S_a, ta) else S_a
    acc_b = simp(S_b % (1 << Wb)) if not ex.fits(S_b, tb) else S_b
    it = VStruct("Enumerate", [VStruct("SliceIter", [data, VInt(i, "usize")]), VInt(i, "usize")])
    init = {la: VInt(acc_a, ta), lb: VInt(acc_b, tb), llen: VInt(n, "usize"), lit: it,
            "_1": VRef("val", val=data)}
    st = State()
    out = ex.exec_fn(fn, [], st, K=1, entry=head, stops={head}, init=init)
    s1 = out.get(head)
    if s1 is None:
        raise Inconclusive("loop body does not return to its head")
    fr = s1.frames[out["fid"]]
    x = data.at(i)
    ex.assumes += [x >= 0, x <= 255]
    it1 = fr[lit]
    goals1 = {
        "a-additive": fr[la].t == (S_a + x) % (1 << Wa),
        "b-additive": fr[lb].t == (S_b + (n - i) * x) % (1 << Wb),
        "iterator": z3.And(it1.f[1].t == i + 1, it1.f[0].f[1].t == i + 1, fr[llen].t == n, s1.guard),
    }
    exit_reached = out.get("return")
    if exit_reached is not None:
        goals1["no-early-exit"] = z3.Not(exit_reached.guard)

    def body_witness(name, neg, model):
        n_, i_ = model_int(model, n), model_int(model, i)
        x_ = model_int(model, x)
        # realise: window of n bytes, all zero except position i = x ; compare new() with the definition
        runs = [[i_, 0], [1, x_], [n_ - i_ - 1, 0]]
        runs = [r for r in runs if r[0] > 0]
        return confirm_history(R, "%s/body/%s" % (oidp, name), ty, [["new", {"runs": runs}]], runs_to_bytes(runs),
                               "new(%s)" % runs)

    ob.prove(ex, goals1, oidp + "/body", "one loop iteration from ANY accumulator state, 0<=i<n<=65536, any byte",
             functions, body_witness)

    # (2) exit: acc = exact sum mod 2^W, i = n  ->  result satisfies the invariant
    def build_exit(window_fn, **kw):
        ex = ctx.ex()
        w = window_fn(ex, lead=False, **kw)
        n = w["n"]
        A, B = w["Ar"], w["Br"]
        data = sym_data(ex, n)
        it = VStruct("Enumerate", [VStruct("SliceIter", [data, VInt(n, "usize")]), VInt(n, "usize")])
        init = {la: VInt(A % (1 << Wa), ta), lb: VInt(B % (1 << Wb), tb), llen: VInt(n, "usize"), lit: it,
                "_1": VRef("val", val=data)}
        st = State()
        c = ex.exec_fn(fn, [], st, K=0, entry=head, init=init)
        if c is None:
            raise Inconclusive("exit path of `new` does not return")
        ex.exit_guards.append(st.guard)
        goals = post_conditions(ctx, ty, c, A, B, n, consts)
        return ex, w, goals

    ex, w, goals = build_exit(abstract_window)

    def exit_witness(name, neg, model):
        for nmax in (NMAX,):
            ex2, w2, goals2 = build_exit(runlen_window, nmax=nmax, runs=2)
            neg2 = z3.Not(goals2[name]) if name in goals2 else z3.Or(*[o.formula for o in ex2.obligs])
            s, m2, _ = decide(ex2.assumes + (ex2.exit_guards if name in goals2 else []), neg2, ob.cap)
            if s == "sat":
                runs = [[model_int(m2, k), model_int(m2, v)] for k, v in zip(w2["ks"], w2["vs"])]
                runs = [r for r in runs if r[0] > 0]
                return confirm_history(R, "%s/exit/%s" % (oidp, name), ty, [["new", {"runs": runs}]],
                                       runs_to_bytes(runs), "new(%s)" % runs)
        return {"confirmed": False, "detail": "no run-length window realises the abstract model"}

    ob.prove(ex, goals, oidp + "/exit",
             "accumulators = exact sums mod 2^%d / 2^%d (justified by /prologue + /body), window 0..65536, all byte values" % (Wa, Wb),
             functions, exit_witness)


def new_accelerated_or_fallback(ob, ty):
    """DESIGN §4 C17.5: if the loop of `new` no longer has the additive-accumulator shape, the full-width obligation is
    NOT claimed for `new`; the claim for it is reduced to the unrolled windows (stated in evidence) — not an alarm."""
    n0 = len(ob.R.results)
    try:
        new_accelerated(ob, ty)
    except (Unsupported, Inconclusive) as e:
        del ob.R.results[n0:]
        bound = 16 if ob.tier == "quick" else 48
        ob.R.add("C17/%s::new/accelerated" % ty, "assumed", queries=0,
                 detail="loop acceleration not applicable to the current shape of `new` (%s): the full-width claim for `new` is REDUCED to windows of "
                        "<= %d symbolic bytes (unrolled below); longer windows of this constructor are not covered" % (str(e)[:160], bound))
        ob.R.notes.append("%s::new: acceleration not applicable, bound reduced to unrolling" % ty)
        new_unrolled(ob, ty, bound, tag="unrolled-fallback")


def new_unrolled(ob, ty, nmax, tag="unrolled"):
    """cross-check of the acceleration: `new` fully unrolled on n symbolic bytes, n = 0..nmax"""
    ctx, R = ob.ctx, ob.R
    consts = ob.consts(ty)
    for n in range(0, nmax + 1):
        ex = ctx.ex(K=2 * n + 3)
        xs = [ex.fresh_int("x%d" % j, lo=0, hi=255) for j in range(n)]
        arr = z3.K(z3.IntSort(), I(0))
        for j, xj in enumerate(xs):
            arr = z3.Store(arr, j, xj)
        st = State()
        c = ex.exec_fn(ctx.fn(ex, ty, "new"), [VRef("val", val=VSeq(arr, I(0), I(n), "u8"))], st)
        ex.exit_guards.append(st.guard)
        A = sum(xs) if xs else I(0)
        B = sum((n - j) * xj for j, xj in enumerate(xs)) if xs else I(0)
        goals = post_conditions(ctx, ty, c, A, B, I(n), consts)
        merged = {"invariant": z3.And(*goals.values())}

        def wit(name, neg, model, n=n, xs=xs):
            bs = [model_int(model, xj) for xj in xs]
            return confirm_history(R, "C17/%s::new/unrolled-%d" % (ty, n), ty, [["new", bs]], bs, "new(%s)" % bs)

        ob.prove(ex, merged, "C17/%s::new/%s-%d" % (ty, tag, n), "window of exactly %d symbolic bytes, loop unrolled %d times" % (n, n + 1),
                 ["%s::new" % ty], wit)


def cross_type(ob):
    """obligation 6: both types, same window -> same digest (direct query on both digest bodies)"""
    ctx = ob.ctx
    ex = ctx.ex()
    w = abstract_window(ex, lead=False)
    c32, _ = pre_state(ctx, ex, "RollingChecksum", w, ob.consts("RollingChecksum"))
    c64, _ = pre_state(ctx, ex, "FastRollingChecksum", w, ob.consts("FastRollingChecksum"))
    st = State()
    st.frames[0] = {"c32": c32, "c64": c64}
    d32 = ex.exec_fn(ctx.fn(ex, "RollingChecksum", "digest"), [VRef("place", 0, "c32")], st)
    d64 = ex.exec_fn(ctx.fn(ex, "FastRollingChecksum", "digest"), [VRef("place", 0, "c64")], st)
    ex.exit_guards.append(st.guard)
    ob.prove(ex, {"equal": d32.t == d64.t}, "C17/cross-type-digest", "any two states representing the same window 0..65536",
             ["RollingChecksum::digest", "FastRollingChecksum::digest"],
             lambda n, f, m: {"confirmed": False, "detail": "digests differ for states representing the same window"})


def identity_lemma(ob, nmax=6):
    """the recurrences used as post-conditions (A' = A-o+x, B' = B-n*o+A'; push: B' = B+A') follow from the
    definition a = sum x_i, b = sum (n-i) x_i : checked for all explicit windows of length <= nmax"""
    R = ob.R
    t0 = now()
    q0 = env.STATS.queries
    ok = True
    for n in range(1, nmax + 1):
        xs = [z3.Int("x%d" % j) for j in range(n)]
        y = z3.Int("y")
        A = sum(xs)
        B = sum((n - j) * xj for j, xj in enumerate(xs))
        w2 = xs[1:] + [y]
        A2 = sum(w2)
        B2 = sum((n - j) * xj for j, xj in enumerate(w2))
        w3 = xs + [y]
        A3 = sum(w3)
        B3 = sum((n + 1 - j) * xj for j, xj in enumerate(w3))
        neg = z3.Or(A2 != A - xs[0] + y, B2 != B - n * xs[0] + A2, A3 != A + y, B3 != B + A3)
        s, m, _ = decide([], neg, 30)
        ok = ok and s == "unsat"
    R.add("C17/lemma/recurrences", "holds" if ok else "inconclusive", solver_s=now() - t0, queries=env.STATS.queries - q0,
          bound="explicit windows of length 1..%d, unbounded integers" % nmax, functions=[],
          detail="spec-side identity (not code): roll/push recurrences follow from the sum definitions")


# ------------------------------------------------------------------ translator validation (concrete mode vs native)

def seq_lit(bs):
    arr = z3.K(z3.IntSort(), I(0))
    for i, b in enumerate(bs):
        arr = z3.Store(arr, i, b)
    return VSeq(arr, I(0), I(len(bs)), "u8")


def validate_translator(ob, seed, count):
    """run the executor on literals (repo unit-test vectors + seeded random histories) and compare with the native build"""
    ctx, R = ob.ctx, ob.R
    rnd = random.Random(seed)
    hist = []
    # vectors from the repo's own unit tests (src/checksum.rs tests)
    hist.append((b"abcd", [("roll", 97, 101)]))
    hist.append((b"hello", [("roll", ord("h"), ord("!"))]))
    hist.append((b"", [("push", 1), ("push", 2), ("push", 3)]))
    hist.append((bytes([255] * 100), []))
    hist.append((b"abcdefgh", [("roll", 97, 105), ("roll", 98, 106), ("roll", 99, 107)]))
    for _ in range(count):
        n = rnd.choice([1, 2, 3, 5, 8, 17, 40])
        w = bytes(rnd.choice([0, 1, 127, 200, 254, 255, rnd.randrange(256)]) for _ in range(n))
        ops = []
        cur = list(w)
        for _ in range(rnd.randrange(0, 6)):
            if rnd.random() < 0.6 and cur:
                nb = rnd.choice([0, 255, rnd.randrange(256)])
                ops.append(("roll", cur[0], nb))
                cur = cur[1:] + [nb]
            else:
                nb = rnd.randrange(256)
                ops.append(("push", nb))
                cur = cur + [nb]
        hist.append((w, ops))
    cases, mine = [], []
    for ty in TYPES:
        for w, ops in hist:
            ex = ctx.ex(K=len(w) + 2)
            st = State()
            try:
                c = ex.exec_fn(ctx.fn(ex, ty, "new"), [VRef("val", val=seq_lit(w))], st)
                if c is None:
                    mine.append(("panic",))
                    cases.append({"fn": "checksum", "ty": TYPES[ty], "ops": [["new", list(w)]] + [list(o) for o in ops]})
                    continue
                st.frames[0] = {"c": c}
                for o in ops:
                    if o[0] == "roll":
                        ex.exec_fn(ctx.fn(ex, ty, "roll"), [VRef("place", 0, "c"), VInt(I(o[1]), "u8"), VInt(I(o[2]), "u8")], st)
                    else:
                        ex.exec_fn(ctx.fn(ex, ty, "push"), [VRef("place", 0, "c"), VInt(I(o[1]), "u8")], st)
                d = ex.exec_fn(ctx.fn(ex, ty, "digest"), [VRef("place", 0, "c")], st)
                ln = ex.exec_fn(ctx.fn(ex, ty, "len"), [VRef("place", 0, "c")], st)
                panicked = any(z3.is_true(simp(o.formula)) for o in ex.obligs) or z3.is_false(st.guard)
                mine.append(("panic",) if panicked else (simp(d.t).as_long(), simp(ln.t).as_long()))
            except Unsupported as e:
                raise Inconclusive("translator validation: %s" % e)
            cases.append({"fn": "checksum", "ty": TYPES[ty],
                          "ops": [["new", list(w)]] + [list(o) for o in ops]})
    nat = native.run_cases(cases, "dev")
    dis = 0
    for c, m, r in zip(cases, mine, nat):
        got = ("panic",) if ("panic" in r or "crash" in r) else (r.get("digest"), r.get("len"))
        if got != m:
            dis += 1
            R.validation["samples"].append({"case": c, "encoding": m, "native": r})
    R.validation["cases"] += len(cases)
    R.validation["disagreements"] += dis
    if len(R.validation["samples"]) < 2 and cases:
        R.validation["samples"].append({"case": cases[0], "encoding": mine[0], "native": nat[0], "agree": True})
    if dis:
        raise Inconclusive("translator validation: %d/%d concrete cases disagree with the native build" % (dis, len(cases)))


# ------------------------------------------------------------------ entry points

def all_obligations(R, tier, seed, only_weak_link=False):
    ctx = Ctx()
    ob = Ob(R, ctx, tier)
    R.extra["mir_dump"] = {"file": ctx.mir_path, "seconds": round(ctx.dump_s, 2)}
    R.extra["constants_from_mir"] = {
        "RollingChecksum::MOD": ctx.const("RollingChecksum", "MOD")[0],
        "FastRollingChecksum::MOD": ctx.const("FastRollingChecksum", "MOD")[0],
        "FastRollingChecksum::NORMALIZE_INTERVAL": ctx.const("FastRollingChecksum", "NORMALIZE_INTERVAL")[0]}
    validate_translator(ob, seed, 20 if tier == "quick" else 100)
    identity_lemma(ob, 6 if tier == "quick" else 10)
    for ty in TYPES:
        for step in (lambda: empty_obligation(ob, ty),
                     lambda: step_obligation(ob, ty, "roll"),
                     lambda: step_obligation(ob, ty, "push"),
                     lambda: digest_obligation(ob, ty),
                     lambda: new_accelerated_or_fallback(ob, ty),
                     lambda: new_unrolled(ob, ty, 6 if tier == "quick" else 24)):
            try:
                step()
            except (Unsupported, Inconclusive) as e:
                R.add("C17/%s/encoding" % ty, "inconclusive", detail=str(e)[:300])
    try:
        cross_type(ob)
    except (Unsupported, Inconclusive) as e:
        R.add("C17/cross-type/encoding", "inconclusive", detail=str(e)[:300])
    return ctx


def run(R, tier, seed):
    R.trusted += ["rustc nightly MIR dump (-Zunpretty=mir) of /repo's current sources",
                  "mirsmt encoder (validated every run in concrete mode against the native build)",
                  "z3 5.1 (deciding), z3 4.8.12 / cvc5 1.0.3 (re-deciding the exported SMT-LIB text)",
                  "meta-argument: additive accumulator loop => exit value = exact sum mod 2^W (DESIGN C17.5)",
                  "meta-argument: invariant holds initially and is preserved by every operation => holds after any sequence"]
    R.assumptions += ["window length <= 65536 (largest block size); count arithmetic beyond usize not considered",
                      "roll is only called on a non-empty window whose first byte is the `old` argument",
                      "spec modulus 65521 and digest layout (b<<16)|a are taken from the property text"]
    R.notes.append("C17: inductive steps at full machine width; new() by loop acceleration + unrolled cross-check")
    all_obligations(R, tier, seed)


def replay(path):
    case = json.load(open(path))["case"]
    case = {k: v for k, v in case.items() if k not in ("observed", "expected_digest")}
    print(json.dumps(native.run_both(case), indent=1))
    return 0
