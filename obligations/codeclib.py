"""C20 (framing level): Codec::write_message / read_message and FrameHeader::{read_from, write_to} from MIR (E1).
bincode's payload encoding is a contract (see mirsmt/codecmodels.py); the framing around it and every allocation
request are decided."""
import json
import z3

from mirsmt import env, stdmodels, codecmodels, patchmodels, deltamodels, native
from mirsmt.symexec import Executor, State, VInt, VBool, VStruct, VEnum, VRef, VSeq, VList, VOpaque, I, simp, Unsupported
from mirsmt.env import model_int, model_bool, Inconclusive
from mirsmt.prove import Prover

MAXP = 16 * 1024 * 1024           # from the property text (16 MiB)
TYPE_CODES = {"SignatureRequest": 1, "SignatureResponse": 2, "DeltaData": 3, "Ack": 4, "Error": 5, "Ping": 6, "Pong": 7}   # property text / wire format


class Ctx:
    def __init__(self):
        def keep(n):
            return n.startswith("protocol::") and "serialize" not in n and "::fmt" not in n
        self.mir, self.mir_path, self.dump_s = env.load("lib", keep)
        self.idx = env.impl_index(self.mir)
        self.enums = env.source_enums()

    def ex(self, K=4):
        e = Executor(self.mir, self.enums, K=K)
        e.impl_index = self.idx
        stdmodels.install_core(e)
        stdmodels.install_time_fs(e)          # TryFrom<int>, Result::unwrap_or ...
        from mirsmt import itermodels
        itermodels.install(e)
        e.byte_cap = 16
        patchmodels.install(e)
        codecmodels.install(e)
        return e

    def fn(self, ex, key):
        if key not in self.idx:
            raise Inconclusive("function %s not found in the MIR dump" % key)
        f = ex.find_fn(self.idx[key])
        if f is None:
            raise Inconclusive("no MIR body for " + key)
        return f


def read_message_obligation(ctx, R, prover):
    ex = ctx.ex()
    data = z3.Array("WIRE", z3.IntSort(), z3.IntSort())
    N = ex.fresh_int("wire_len", lo=0, hi=(1 << 40))
    for i in range(12):
        ex.assumes += [z3.Select(data, i) >= 0, z3.Select(data, i) <= 255]
    old = ex.fresh_int("old_buf_len", lo=0, hi=(1 << 30))
    st = State()
    st.frames[0] = {"rd": patchmodels.cursor(VSeq(data, I(0), N, "u8")),
                    "codec": VStruct("Codec", [VSeq(z3.Array("OLDBUF", z3.IntSort(), z3.IntSort()), I(0), old, "u8")])}
    res = ex.exec_fn(ctx.fn(ex, "Codec::read_message"), [VRef("place", 0, "codec"), VRef("place", 0, "rd")], st)
    if res is None:
        raise Inconclusive("read_message never returns")
    ex.exit_guards.append(st.guard)
    eff = codecmodels.effects(ex)
    b = [z3.Select(data, i) for i in range(12)]
    le = b[4] + 256 * b[5] + 65536 * b[6] + 16777216 * b[7]
    hdr_ok = z3.And(N >= 12, b[0] == ord("C"), b[1] == ord("O"), b[2] == ord("P"), b[3] == ord("A"), b[9] == 1, b[8] >= 1, b[8] <= 7, le <= MAXP)
    ok = simp(res.discr == 0)
    allocs = [e for e in eff if e["call"] == "alloc"]
    decs = [e for e in eff if e["call"] == "Message::decode"]
    other_dec = [e for e in eff if e["call"] not in ("alloc", "Message::decode")]
    pos_after = st.frames[0]["rd"].f[1].t
    goals = {
        "no-allocation-request-above-16MiB": z3.And(*[z3.Implies(e["guard"], e["size"] <= MAXP) for e in allocs]) if allocs else z3.BoolVal(True),
        "malformed-header-is-an-error": z3.Implies(z3.Not(hdr_ok), z3.Not(ok)),
        "ok=>decoded-exactly-the-announced-payload": z3.Implies(
            ok, z3.And(hdr_ok, N >= 12 + le, pos_after == 12 + le,
                       z3.Or(*[z3.And(e["guard"], e["ok"], e["bytes"].len == le, simp(e["bytes"].off) == 12, e["bytes"].arr == data) for e in decs]) if decs else z3.BoolVal(False))),
        "payload-is-only-decoded-through-Message::decode": z3.And(*[z3.Not(e["guard"]) for e in other_dec]) if other_dec else z3.BoolVal(True),
        "short-input-is-an-error": z3.Implies(z3.Or(N < 12, z3.And(hdr_ok, N < 12 + le)), z3.Not(ok)),
        # completeness (the round-trip half of the property): a complete well-formed frame is rejected only because
        # Message::decode rejected its payload -- however the reader delivers the bytes
        "well-formed-frame-fails-only-if-decode-fails": z3.Implies(
            z3.And(hdr_ok, N >= 12 + le), z3.Or(ok, *[z3.And(e["guard"], z3.Not(e["ok"])) for e in decs])),
    }
    covers = {"ok-reachable": ok, "oversize-rejected": z3.And(z3.Not(ok), le > MAXP, N >= 12)}

    def witness(name, model, neg):
        if name.startswith("well-formed-frame"):
            reads = sorted(((d.name(), model[d].as_long()) for d in model.decls() if d.name().startswith("short_read")),
                           key=lambda kv: int(kv[0].split("!")[-1]) if "!" in kv[0] else 0)
            fam = [[max(1, r) for _, r in reads] or [1], [1], [5], [11], [13], [8192]]
            for chunks in fam:
                case = {"fn": "codec_chunked_roundtrip", "chunks": chunks}
                res_n = native.run_both(case)
                bad = {p: r for p, r in res_n.items() if "panic" in r or "crash" in r or r.get("equal") is False}
                if bad:
                    case["observed"] = res_n
                    return {"confirmed": True, "replay_path": R.save_replay("C20/read_message", case), "key": "C20/read_message/valid-frame-rejected",
                            "detail": "frames written by write_message and delivered in %s-byte pieces are not read back: %s" % (chunks, json.dumps(bad)[:300])}
            return {"confirmed": False, "detail": "native read_message reads back chunk-delivered frames correctly"}
        # replay a hostile frame family natively (allocation-tracking build of the oracle)
        hdr = [model_int(model, x) % 256 for x in b]
        n = model_int(model, N)
        case = {"fn": "codec_read_hostile", "header": hdr, "wire_len": min(n, 1 << 16)}
        res_n = native.run_both(case)
        ok_spec = bytes(hdr[0:4]) == b"COPA" and hdr[9] == 1 and 1 <= hdr[8] <= 7 and int.from_bytes(bytes(hdr[4:8]), "little") <= MAXP
        bad = {}
        for p, r in res_n.items():
            if "panic" in r or "crash" in r:
                bad[p] = "panic: %s" % str(r)[:160]
            elif r.get("max_alloc", 0) > MAXP + 4096:
                bad[p] = "allocation request of %d bytes (> 16 MiB) for a %d-byte input" % (r["max_alloc"], r.get("input_len", 0))
            elif r.get("any_ok") and not ok_spec:
                bad[p] = "a malformed header was accepted: %s" % hdr
        if bad:
            case["observed"] = res_n
            kind = "alloc-or-panic" if any("alloc" in v or "panic" in v for v in bad.values()) else "malformed-accepted"
            return {"confirmed": True, "replay_path": R.save_replay("C20/read_message", case), "key": "C20/read_message/%s" % kind,
                    "detail": "Codec::read_message(header %s + hostile payloads): native %s" % (hdr, bad)}
        return {"confirmed": False, "detail": "native read_message behaves correctly on header %s with the hostile payload family" % hdr}

    prover.prove(ex, goals, "C20/Codec::read_message",
                 "ANY wire input (length up to 2^40, all 2^96 header prefixes); Message::decode is an arbitrary function of the slice it is given; "
                 "previous buffer content/length arbitrary",
                 ["Codec::read_message", "FrameHeader::read_from", "FrameHeader::decode", "FrameHeader::validate", "MessageType::from_u8"],
                 witness, covers=covers)


def write_message_obligation(ctx, R, prover):
    ex = ctx.ex()
    kind = ex.fresh_int("message_kind", lo=0, hi=6)
    msg_enum = ctx.enums.get("Message")
    if not msg_enum or len(msg_enum) != 7:
        raise Inconclusive("Message enum has changed: %s" % msg_enum)
    msg = VEnum("Message", kind, {i: [VOpaque("field")] * 3 for i in range(7)})
    st = State()
    st.frames[0] = {"w": VStruct("RecordingWriter", []), "codec": VStruct("Codec", [VSeq(z3.K(z3.IntSort(), I(0)), I(0), I(0), "u8")]), "m": msg}
    res = ex.exec_fn(ctx.fn(ex, "Codec::write_message"), [VRef("place", 0, "codec"), VRef("place", 0, "w"), VRef("place", 0, "m")], st)
    if res is None:
        raise Inconclusive("write_message never returns")
    ex.exit_guards.append(st.guard)
    enc_ok, L, ENC = ex.inputs["encode"]
    ok = simp(res.discr == 0)
    writes = [e for e in codecmodels.effects(ex) if e["call"] == "write_all"]
    # expected type code per variant (declaration order of Message -> wire code of the property text)
    names = sorted(msg_enum, key=lambda k: msg_enum[k])
    code = I(0)
    for nm in names:
        code = z3.If(kind == msg_enum[nm], I(TYPE_CODES[nm]), code)
    goals = {"ok<=>encodable-and-payload<=16MiB": ok == z3.And(enc_ok, L <= MAXP)}
    if len(writes) == 2:
        h, p = writes[0]["bytes"], writes[1]["bytes"]
        hb = [h.at(I(i)) for i in range(12)]
        goals["ok=>header-then-payload-written"] = z3.Implies(ok, z3.And(
            writes[0]["guard"], writes[1]["guard"], h.len == 12,
            hb[0] == ord("C"), hb[1] == ord("O"), hb[2] == ord("P"), hb[3] == ord("A"),
            hb[4] + 256 * hb[5] + 65536 * hb[6] + 16777216 * hb[7] == L, hb[8] == code, hb[9] == 1,
            p.len == L, simp(p.off) == 0, p.arr == ENC))
        goals["error=>nothing-written"] = z3.Implies(z3.Not(ok), z3.And(z3.Not(writes[0]["guard"]), z3.Not(writes[1]["guard"])))
    else:
        goals["exactly-two-writes(header,payload)"] = z3.BoolVal(False)
    prover.prove(ex, goals, "C20/Codec::write_message",
                 "all 7 message kinds; Message::encode yields an arbitrary payload of any length (or an error); writer records what it is given",
                 ["Codec::write_message", "FrameHeader::new", "FrameHeader::write_to", "FrameHeader::encode", "Message::msg_type"], None,
                 covers={"ok-reachable": ok, "too-large-rejected": z3.And(z3.Not(ok), enc_ok)})
