"""Common driver of the bisync checks C02 / C06 / C07 / C08 (obligations in bisynclib.py)."""
import json

from mirsmt.env import Inconclusive
from mirsmt.symexec import Unsupported
from mirsmt.prove import Prover
from . import bisynclib, bisyncnative, hubnative

TRUSTED = ["rustc nightly MIR dump of the copia binary crate", "mirsmt encoder + std models",
           "the file-system EFFECT RECORDER (mirsmt/fsmodels.py): every std::fs call is recorded in program order with an arbitrary outcome; paths are terms over "
           "uninterpreted join/suffix/parent constructors", "z3 5.1 (deciding), cvc5 / z3 4.8.12 (re-deciding)",
           "native oracle /verif/replay-hub (the real bidir.rs / archive.rs / reconcile.rs / meta.rs compiled unchanged)"]

SCOPE = ("STEP level: one `apply`, one `Archive::load`/`save`, one `run_bisync` orchestration (universe of 2-3 paths, apply replaced by its decided contract), each from an "
         "arbitrary state with every file-system operation allowed to fail. NOT explored: crash points between two system calls, the directory scan, symlink handling, "
         "serde_json itself, histories longer than the inductive step (the native history oracle samples some; it validates, it does not decide).")


def _guard(R, pid, what, f):
    try:
        f()
    except (Inconclusive, Unsupported) as e:
        R.add("%s/%s/encoding" % (pid, what), "inconclusive", detail=str(e)[:400])


def native_validation(R, pid):
    try:
        r = bisyncnative.conformance(R, "%s/native-histories" % pid, "%s/native-histories" % pid)
    except Inconclusive as e:
        R.add("%s/native-histories" % pid, "inconclusive", detail=str(e)[:400])
        return
    n = len(bisyncnative.histories())
    R.validation["cases"] += 2 * n
    if r["confirmed"]:
        R.validation["disagreements"] += 1
        R.add("%s/native-histories" % pid, "violated", confirmed=True, replay_path=r["replay_path"], key=r["key"], detail=r["detail"])
    else:
        R.add("%s/native-histories" % pid, "holds", queries=0, solver_s=0.0,
              detail="the real run_bisync keeps every version, converges and records exactly the tree on %d edit/run histories (dev+release); validation of the "
                     "abstractions, not the deciding step" % n)


def run(R, pid, tier, seed):
    R.trusted += TRUSTED
    R.assumptions += [SCOPE]
    ctx = bisynclib.Ctx()
    prover = Prover(R, tier)
    U = 2 if tier == "quick" else 3
    if pid == "C02":
        R.assumptions += ["the per-path decision is decided under C18; here: what ONE apply step does to the two trees for every action and every pair of fingerprints "
                          "(maps = uninterpreted functions of map and key). 'Never loses a version across any history' is ARGUED from C18's table + these step "
                          "obligations + the run-level obligations of C06/C07; it is not decided as one query"]
        _guard(R, pid, "apply", lambda: bisynclib.apply_obligations(ctx, R, prover, pid))
        # a stale recorded state makes a LATER run delete a re-created file: the run-level record obligation is C02's too
        _guard(R, pid, "run_bisync", lambda: bisynclib.run_obligations(ctx, R, prover, pid, U))
        try:
            t = bisyncnative.type_clash_check(R, "C02/apply", "C02/apply/file-vs-directory")
            if t["confirmed"]:
                R.add("C02/native-type-clash", "violated", confirmed=True, replay_path=t["replay_path"], key=t["key"], detail=t["detail"])
            else:
                R.add("C02/native-type-clash", "holds", queries=0, solver_s=0.0, detail=t["detail"] + " (validation, not the deciding step)")
        except Inconclusive as e:
            R.add("C02/native-type-clash", "inconclusive", detail=str(e)[:300])
    elif pid == "C06":
        R.assumptions += ["apply's effect on the common map is decided here at step level and then USED as a contract inside the run_bisync obligation (compositional)",
                          "mtime-independence and order-independence of the DECISION are C18's symmetry / equality-only obligations; the winner rule (greater BLAKE3) is decided here",
                          "idempotence of a second run is argued from: recorded state = tree (decided) + C18 (equal everywhere => Noop); not decided as one query"]
        _guard(R, pid, "apply", lambda: bisynclib.apply_obligations(ctx, R, prover, pid))
        _guard(R, pid, "run_bisync", lambda: bisynclib.run_obligations(ctx, R, prover, pid, U))
        _guard(R, pid, "root_pair_hash", lambda: bisynclib.pair_hash_obligation(ctx, R, prover, pid))
    elif pid == "C07":
        R.assumptions += ["serde_json is a contract (any Archive value or an error), std::fs::read any bytes or an error: a missing / empty / truncated / unparsable archive is "
                          "a read or parse failure, another format version or pair is a parsed value failing the gate",
                          "'no delete without a trusted base' for the decision itself is C18's obligation, re-asked here"]
        _guard(R, pid, "Archive::load", lambda: bisynclib.load_obligations(ctx, R, prover, pid))
        _guard(R, pid, "root_pair_hash", lambda: bisynclib.pair_hash_obligation(ctx, R, prover, pid))
        _guard(R, pid, "run_bisync", lambda: bisynclib.run_obligations(ctx, R, prover, pid, U))
        _guard(R, pid, "apply", lambda: bisynclib.apply_obligations(ctx, R, prover, "C07"))
    elif pid == "C08":
        R.assumptions += ["crash points are NOT explored. Decided: the ORDER of requests the crash argument rests on — copies go to a `.copia-tmp` sibling and only a rename puts "
                          "bytes at a path; the archive is written to `.tmp`, synced, the old one kept as `.bak`, then renamed, then the directory synced; run_bisync saves "
                          "the archive only after every action was applied successfully. Atomicity of rename(2) and durability after fsync are the kernel's",
                          "note: copy_atomic does not fsync the staged copy before the rename (std::fs::copy + rename); the property's 'flushed to stable storage' clause for "
                          "DATA files is therefore not established by the code as far as these obligations can see — reported in DESIGN.md §13 as an observation, not "
                          "raised as a violation because no crash point is explored"]
        _guard(R, pid, "apply", lambda: bisynclib.apply_obligations(ctx, R, prover, pid))
        _guard(R, pid, "Archive::save", lambda: bisynclib.save_obligations(ctx, R, prover, pid))
        _guard(R, pid, "run_bisync", lambda: bisynclib.run_obligations(ctx, R, prover, pid, U))
        try:
            a = bisyncnative.archive_write_order_check(R, "C08/Archive::save", "C08/Archive::save/write-order")
            if a["confirmed"]:
                R.add("C08/native-archive-write-order", "violated", confirmed=True, replay_path=a["replay_path"], key=a["key"], detail=a["detail"])
            else:
                R.add("C08/native-archive-write-order", "holds", queries=0, solver_s=0.0, detail=a["detail"] + " (validation, not the deciding step)")
        except Inconclusive as e:
            R.add("C08/native-archive-write-order", "inconclusive", detail=str(e)[:300])
    native_validation(R, pid)


def replay(path):
    case = json.load(open(path))["case"]
    case.pop("observed", None)
    case.pop("deviation", None)
    out = {p: hubnative.run_cases([case], p)[0] for p in ("dev", "release")}
    print(json.dumps(out, indent=1)[:6000])
    if case.get("fn") == "bisync_history":
        for p, r in out.items():
            print(p, "judgement:", bisyncnative.judge_history(case["steps"], r))
    return 0
