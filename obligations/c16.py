"""C16 — the delta is at least as small as textbook greedy rsync (DESIGN §4 C16)."""
import json

from mirsmt import native, env
from mirsmt.env import Inconclusive
from mirsmt.symexec import Unsupported
from mirsmt.prove import Prover
from . import deltalib, parallel, c17
from .c01 import QUICK, THOROUGH, replay  # noqa: F401


def instance(R, pid, tier, seed, bl, sl, bs, which, tag):
    ctx = deltalib.Ctx()
    prover = Prover(R, tier, cross_order=("z3-4.8.12", "cvc5"))
    deltalib.pipeline_obligations(ctx, R, prover, pid, bl, sl, bs, which)


def weak_link(R, pid, tier, seed, tag):
    """first link: weak hashes of signature side and scan side agree at full width (C17's obligations under C16's id)"""
    from mirsmt.report import Runner
    sub = Runner("C17", tier, "proof", seed)
    import io
    import contextlib
    with contextlib.redirect_stdout(io.StringIO()):
        c17.all_obligations(sub, tier, seed)
    for r in sub.results:
        r = dict(r)
        r["id"] = r["id"].replace("C17/", "C16/weak-agreement/", 1)
        if r["status"] == "violated":
            r["key"] = "C16/weak-agreement"
        R.results.append(r)
    R.validation["cases"] += sub.validation["cases"]
    R.validation["disagreements"] += sub.validation["disagreements"]


def run(R, tier, seed):
    R.trusted += ["as C01 and C17", "composition argument (DESIGN §4 C16): small-size pipeline instances decide the control structure given faithful weak "
                  "hashes; the C17 obligations decide weak-hash faithfulness for every content at every window length up to 65536"]
    R.assumptions += ["the product `greedy structure x 64 KiB blocks` is not decided by a single query",
                      "the `k + 2 blocks` corollary is a property of the greedy reference, not separately encoded"]
    insts = QUICK if tier == "quick" else THOROUGH
    # the full-width checksum link runs first and alone (its queries are timing-sensitive under load)
    n0 = len(R.results)
    weak_link(R, "C16", tier, seed, "weak-agreement")
    moved = R.results[n0:]
    del R.results[n0:]
    for r in moved:
        r = dict(r)
        R.add(r.pop("id"), r.pop("status"), **r)
    jobs = []
    for (bl, sl, bs) in insts:
        jobs.append(("obligations.c16", "instance", dict(pid="C16", tier=tier, seed=seed, bl=bl, sl=sl, bs=bs, which="C16",
                                                         tag="pipeline[bl=%d,sl=%d,bs=%d]" % (bl, sl, bs))))
    R.extra["instances"] = [list(x) for x in insts]
    parallel.run_jobs(R, jobs)
