"""C01 — delta round-trip reconstructs the source byte-for-byte (DESIGN §4 C01)."""
import json

from mirsmt import native
from mirsmt.env import Inconclusive
from mirsmt.symexec import Unsupported
from mirsmt.prove import Prover
from . import deltalib, parallel

QUICK = [(0, 3, 2), (3, 0, 2), (2, 2, 1), (4, 4, 2), (5, 5, 2), (3, 6, 2), (6, 3, 2), (6, 6, 3), (4, 7, 3), (5, 6, 4), (6, 6, 2)]
THOROUGH = QUICK + [(7, 7, 2), (8, 8, 2), (8, 8, 3), (9, 7, 3), (7, 9, 3), (8, 8, 4), (9, 9, 3), (10, 10, 4), (10, 10, 5), (6, 8, 2), (10, 6, 2), (3, 3, 1), (5, 5, 1)]


def instance(R, pid, tier, seed, bl, sl, bs, which, tag):
    ctx = deltalib.Ctx()
    prover = Prover(R, tier, cross_order=("z3-4.8.12", "cvc5"))
    deltalib.pipeline_obligations(ctx, R, prover, pid, bl, sl, bs, which)


def roundtrip(R, pid, tier, seed, bl, sl, bs, engine, tag):
    from . import patchlib
    ctx = deltalib.Ctx()
    patchlib.roundtrip_obligations(ctx, R, Prover(R, tier, cross_order=("z3-4.8.12", "cvc5")), engine, bl, sl, bs)


def big_signature(R, pid, tier, seed, n, bs, tag):
    ctx = deltalib.Ctx()
    deltalib.big_signature_obligation(ctx, R, Prover(R, tier, cross_order=("z3-4.8.12", "cvc5")), n, bs)


def async_signature(R, pid, tier, seed, n, bs, tag):
    ctx = deltalib.Ctx()
    deltalib.async_signature_obligation(ctx, R, Prover(R, tier, cross_order=("z3-4.8.12", "cvc5")), n, bs)


def validate_job(R, pid, tier, seed, count, tag, engine="sync"):
    ctx = deltalib.Ctx()
    deltalib.validate(ctx, R, seed, count, engine=engine)
    R.results.append({"id": "%s/translator-validation-%s" % (pid, engine), "status": "holds", "queries": 0,
                      "detail": "%d concrete %s pipeline runs agree with the native build" % (R.validation["cases"], engine)})


def run(R, tier, seed):
    R.trusted += ["rustc nightly MIR dump of the copia library (features: async; no tracing)",
                  "mirsmt encoder + std models (Vec, HashMap as a math map, iterator adaptors, in-memory Read), validated in concrete mode vs native",
                  "contract summaries: rolling checksums = function D of the window (decided by C17), StrongHash = ideal collision-free hash",
                  "z3 5.1 (deciding), cvc5 / z3 4.8.12 (re-deciding)",
                  "Kani harnesses of C05 decide that the real patch() applies the ops it is given (composition argument in DESIGN §4 C01)"]
    R.assumptions += ["concrete lengths (one instance per (basis length, source length, block size)), symbolic contents; the instance list is the bound",
                      "hash collisions are outside the claim; weak-hash collisions with different content ARE covered (D is an arbitrary function)",
                      "covered engines: CopiaSync::delta and the AsyncCopiaSync::delta state machine (from its coroutine MIR; in-memory reader always ready), plus op-for-op agreement of the two",
                      "the parallel (> 64 KiB) branch of Signature::generate is decided separately on inputs of 65537..200000 symbolic bytes: its blocks equal the sequential "
                      "definition (rayon adaptors modelled as order-preserving sequential ones); the delta scan itself is only run at small sizes",
                      "AsyncCopiaSync::signature (coroutine MIR) is shown equal to Signature::generate on small inputs delivered in ARBITRARY pieces (every read may be short)",
                      "NOT covered: deltas of inputs longer than the bound, sync_files, the CLI file chain through bincode",
                      "in-memory readers never fail (the io::Error path of delta() is not explored)"]
    insts = QUICK if tier == "quick" else THOROUGH
    jobs = [("obligations.c01", "validate_job", dict(pid="C01", tier=tier, seed=seed, count=40 if tier == "quick" else 300, tag="validate")),
            ("obligations.c01", "validate_job", dict(pid="C01", tier=tier, seed=seed + 1, count=20 if tier == "quick" else 150, tag="validate-async", engine="async"))]
    for n, (bl, sl, bs) in enumerate(insts):
        kinds = ["C01", "C01-agree"]
        if tier != "quick" or n % 3 == 0:
            kinds.append("C01-async")
        for which in kinds:
            jobs.append(("obligations.c01", "instance", dict(pid="C01", tier=tier, seed=seed, bl=bl, sl=sl, bs=bs, which=which,
                                                             tag="%s[bl=%d,sl=%d,bs=%d]" % (which, bl, sl, bs))))
    rts = [(4, 4, 2), (6, 6, 3), (3, 6, 2)] if tier == "quick" else [(4, 4, 2), (6, 6, 3), (3, 6, 2), (6, 3, 2), (0, 3, 2), (5, 5, 1), (8, 8, 4), (7, 7, 3)]
    for (bl, sl, bs) in rts:
        for eng in ("sync", "async"):
            jobs.append(("obligations.c01", "roundtrip", dict(pid="C01", tier=tier, seed=seed, bl=bl, sl=sl, bs=bs, engine=eng,
                                                              tag="%s-roundtrip[bl=%d,sl=%d,bs=%d]" % (eng, bl, sl, bs))))
    R.extra["roundtrip_instances"] = [list(x) for x in rts]
    bigs = [(70036, 1000), (65537, 4096), (131073, 65536)] if tier == "quick" else \
        [(70036, 1000), (65537, 4096), (131073, 65536), (66000, 512), (70036, 700), (66000, 100), (200000, 8192), (65600, 33)]
    for (n, bs) in bigs:
        jobs.append(("obligations.c01", "big_signature", dict(pid="C01", tier=tier, seed=seed, n=n, bs=bs, tag="parallel-signature[n=%d,bs=%d]" % (n, bs))))
    R.extra["parallel_signature_instances"] = [list(x) for x in bigs]
    asigs = [(3, 2), (4, 3), (2, 1), (0, 2)] if tier == "quick" else [(3, 2), (4, 3), (2, 1), (0, 2), (4, 2), (5, 2), (6, 3), (5, 5)]
    for (n, bs) in asigs:
        jobs.append(("obligations.c01", "async_signature", dict(pid="C01", tier=tier, seed=seed, n=n, bs=bs, tag="async-signature[n=%d,bs=%d]" % (n, bs))))
    R.extra["async_signature_instances"] = [list(x) for x in asigs]
    # biggest instances first so the pool drains evenly
    jobs.sort(key=lambda j: -(j[2].get("bl", 0) + j[2].get("sl", 0)) * (2 if j[2].get("which") == "C01-agree" else 1))
    R.extra["instances"] = [list(x) for x in insts]
    parallel.run_jobs(R, jobs)


def replay(path):
    case = json.load(open(path))["case"]
    case = {k: v for k, v in case.items() if k not in ("observed", "expected")}
    print(json.dumps(native.run_both(case), indent=1)[:3000])
    return 0
