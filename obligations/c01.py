"""C01 — delta round-trip reconstructs the source byte-for-byte (DESIGN §4 C01)."""
import json

from mirsmt import native
from mirsmt.env import Inconclusive
from mirsmt.symexec import Unsupported
from mirsmt.prove import Prover
from . import deltalib, parallel

QUICK = [(0, 3, 2), (3, 0, 2), (2, 2, 1), (4, 4, 2), (5, 5, 2), (3, 6, 2), (6, 3, 2), (6, 6, 3), (4, 7, 3), (5, 6, 4), (6, 6, 2)]
THOROUGH = QUICK + [(7, 7, 2), (8, 8, 2), (8, 8, 3), (9, 7, 3), (7, 9, 3), (8, 8, 4), (9, 9, 3), (10, 10, 4), (10, 10, 5), (6, 10, 2), (10, 6, 2), (3, 3, 1), (5, 5, 1)]


def instance(R, pid, tier, seed, bl, sl, bs, which, tag):
    ctx = deltalib.Ctx()
    prover = Prover(R, tier, cross_order=("z3-4.8.12", "cvc5"))
    deltalib.pipeline_obligations(ctx, R, prover, pid, bl, sl, bs, which)


def validate_job(R, pid, tier, seed, count, tag):
    ctx = deltalib.Ctx()
    deltalib.validate(ctx, R, seed, count)
    R.results.append({"id": "%s/translator-validation" % pid, "status": "holds", "queries": 0,
                      "detail": "%d concrete pipeline runs agree with the native build" % R.validation["cases"]})


def run(R, tier, seed):
    R.trusted += ["rustc nightly MIR dump of the copia library (features: async; no tracing)",
                  "mirsmt encoder + std models (Vec, HashMap as a math map, iterator adaptors, in-memory Read), validated in concrete mode vs native",
                  "contract summaries: rolling checksums = function D of the window (decided by C17), StrongHash = ideal collision-free hash",
                  "z3 5.1 (deciding), cvc5 / z3 4.8.12 (re-deciding)",
                  "Kani harnesses of C05 decide that the real patch() applies the ops it is given (composition argument in DESIGN §4 C01)"]
    R.assumptions += ["concrete lengths (one instance per (basis length, source length, block size)), symbolic contents; the instance list is the bound",
                      "hash collisions are outside the claim; weak-hash collisions with different content ARE covered (D is an arbitrary function)",
                      "NOT covered: inputs longer than the bound (> 64 KiB bases, the rayon path), AsyncCopiaSync (unless listed), sync_files, the CLI file chain through bincode",
                      "in-memory readers never fail (the io::Error path of delta() is not explored)"]
    insts = QUICK if tier == "quick" else THOROUGH
    jobs = [("obligations.c01", "validate_job", dict(pid="C01", tier=tier, seed=seed, count=40 if tier == "quick" else 300, tag="validate"))]
    for (bl, sl, bs) in insts:
        jobs.append(("obligations.c01", "instance", dict(pid="C01", tier=tier, seed=seed, bl=bl, sl=sl, bs=bs, which="C01",
                                                         tag="pipeline[bl=%d,sl=%d,bs=%d]" % (bl, sl, bs))))
    R.extra["instances"] = [list(x) for x in insts]
    parallel.run_jobs(R, jobs)


def replay(path):
    case = json.load(open(path))["case"]
    case = {k: v for k, v in case.items() if k not in ("observed", "expected")}
    print(json.dumps(native.run_both(case), indent=1)[:3000])
    return 0
