"""Common driver of the hub checks C03 / C10 / C11 / C12 (obligations in hublib.py)."""
import json

from mirsmt.env import Inconclusive
from mirsmt.symexec import Unsupported
from mirsmt.prove import Prover
from . import hublib, hubnative

TRUSTED = ["rustc nightly MIR dump of the copia binary crate", "mirsmt encoder + std models",
           "the file-system EFFECT RECORDER (mirsmt/fsmodels.py): every std::fs / fs2 call is recorded in program order with an arbitrary outcome; paths are "
           "terms over uninterpreted join/suffix/parent constructors", "z3 5.1 (deciding), cvc5 / z3 4.8.12 (re-deciding)",
           "native oracle /verif/replay-hub (the real serve.rs / wire.rs compiled unchanged) + strace for system-call order"]

SCOPE = ("SEQUENTIAL, one request: the obligations decide what ONE handler call requests of the file system / stream and replies, from an arbitrary state, "
         "with every operation allowed to fail. NOT explored: interleavings of several server processes, crash points between two system calls, the kernel's "
         "own behaviour (rename atomicity, flock exclusion, fsync durability), symlinks inside the served tree, the serve() dispatch loop itself.")


def _guard(R, pid, what, f):
    try:
        f()
    except (Inconclusive, Unsupported) as e:
        R.add("%s/%s/encoding" % (pid, what), "inconclusive", detail=str(e)[:400])


def conformance_validation(R, pid, only=None):
    """the effect-recorder abstraction is validated every run: the real handlers, run natively on the scenario family,
    must conform to the sequential reference the obligations are written against"""
    cases = [c for c in hubnative.scenarios() if only is None or only(c)]
    bad = []
    for prof in ("dev", "release"):
        res = hubnative.run_cases(cases, prof)
        for c, r in zip(cases, res):
            d = hubnative.deviation(c, r)
            if d:
                bad.append((prof, c, d, r))
    R.validation["cases"] += 2 * len(cases)
    R.validation["disagreements"] += len(bad)
    R.validation["samples"] += [(p, c["op"], c.get("path"), d) for p, c, d, _ in bad[:3]]
    return bad


def run(R, pid, tier, seed):
    R.trusted += TRUSTED
    R.assumptions += [SCOPE]
    ctx = hublib.Ctx()
    prover = Prover(R, tier)
    ncap = 3 if tier == "quick" else 5
    if pid == "C03":
        R.assumptions += ["cas_decide, with_commit_lock, handle_put's and handle_delete's closures run from MIR; current_hash (reads the file) is an arbitrary "
                          "Option<[u8;32]> recorded in the trace; linearizability across processes is ARGUED from what is decided (the hash read, the compare and the "
                          "rename/remove sit in one flock critical section; flock exclusion is the kernel's), not decided"]
        _guard(R, pid, "handle_put", lambda: hublib.put_obligations(ctx, R, prover, pid, ncap))
        _guard(R, pid, "handle_delete", lambda: hublib.delete_obligations(ctx, R, prover, pid))
        # the conflict copy's name `<path>.conflict-<first 12 hex of the losing content's hash>`: the helper, for every digest
        from . import hexname
        R.assumptions += ["wire::short_hash is decided on all 2^256 digests (write!(\"{b:02x}\") decoded from its template); in the handler obligations it is a summary"]
        hexname.run(R, prover, pid, "short_hash")
    elif pid == "C10":
        R.assumptions += ["BLAKE3 = 32 uninterpreted functions of the hashed stream (any hash function); the content stream has 0..%d symbolic bytes delivered in "
                          "arbitrary pieces; crash-atomicity of rename(2) and durability after fsync are the kernel's" % ncap]
        _guard(R, pid, "handle_put", lambda: hublib.put_obligations(ctx, R, prover, pid, ncap))
        _guard(R, pid, "handle_get", lambda: hublib.get_obligations(ctx, R, prover, pid))
    elif pid == "C11":
        R.assumptions += ["safe_join is decided on strings with std::path's Unix semantics modelled (is_absolute, components: RootDir / CurDir / ParentDir / Normal) "
                          "and validated each run against the native function; in the handler obligations safe_join is an arbitrary refusal + join(root, path)",
                          "lexical containment only: a symlink inside the served tree is outside the claim"]
        _guard(R, pid, "safe_join", lambda: hublib.safe_join_obligation(ctx, R, prover, pid, 5 if tier == "quick" else 7))
        _guard(R, pid, "handle_put", lambda: hublib.put_obligations(ctx, R, prover, pid, ncap))
        _guard(R, pid, "handle_delete", lambda: hublib.delete_obligations(ctx, R, prover, pid))
        _guard(R, pid, "handle_get", lambda: hublib.get_obligations(ctx, R, prover, pid))
    elif pid == "C12":
        R.assumptions += ["ciborium is NOT modelled: from_reader is an arbitrary function of exactly the slice it is given, into_writer yields an arbitrary byte string or "
                          "an error; what is decided is the framing, the allocation bound and that the stream stays in step",
                          "the serve() dispatch loop is executed from MIR with read_magic / read_frame / write_frame and the handlers as summaries: nothing but creating the served directory and its .copia directory happens before the prologue is accepted, every frame goes to exactly its handler, nothing is read or dispatched after the end of input / an error / Bye (sessions of 2 (quick) / 3 (thorough) frames; the List arm is C13's)"]
        _guard(R, pid, "frames", lambda: hublib.frame_obligations(ctx, R, prover, pid))
        _guard(R, pid, "serve", lambda: hublib.serve_obligation(ctx, R, prover, pid, 2 if tier == "quick" else 3))
        from . import hubnative as _hn
        sp = _hn.serve_prologue_check(R, "%s/serve" % pid, "%s/serve/prologue" % pid)
        if sp["confirmed"]:
            R.add("%s/native-serve-prologue" % pid, "violated", confirmed=True, replay_path=sp["replay_path"], key=sp["key"], detail=sp["detail"])
        else:
            R.add("%s/native-serve-prologue" % pid, "holds", queries=0, solver_s=0.0, detail=sp["detail"] + "; validation, not the deciding step")
        try:
            ss = _hn.serve_session_check(R, "%s/serve" % pid, "%s/serve/session" % pid)
            if ss["confirmed"]:
                R.add("%s/native-serve-session" % pid, "violated", confirmed=True, replay_path=ss["replay_path"], key=ss["key"], detail=ss["detail"])
            else:
                R.add("%s/native-serve-session" % pid, "holds", queries=0, solver_s=0.0, detail=ss["detail"] + "; validation, not the deciding step")
        except hublib.Inconclusive as e:
            R.add("%s/native-serve-session" % pid, "inconclusive", detail=str(e)[:300])
        _guard(R, pid, "handle_put", lambda: hublib.put_obligations(ctx, R, prover, pid, ncap))
    # the ORDER of the real system calls (strace) of a commit / conflict / delete is checked on every run too: it holds the line when a
    # change makes the symbolic side inconclusive
    if pid in ("C03", "C10"):
        try:
            for what in (("handle_put", "handle_delete") if pid == "C03" else ("handle_put",)):
                o = hubnative.order_check(R, "%s/native-order/%s" % (pid, what), "%s/native-order/%s" % (pid, what), what)
                if o["confirmed"]:
                    R.add("%s/native-order/%s" % (pid, what), "violated", confirmed=True, replay_path=o["replay_path"], key=o["key"], detail=o["detail"])
                else:
                    R.add("%s/native-order/%s" % (pid, what), "holds", queries=0, solver_s=0.0, detail=o["detail"] + " (validation, not the deciding step)")
        except Inconclusive as e:
            R.add("%s/native-order" % pid, "inconclusive", detail=str(e)[:300])
    # the abstraction is validated natively on every run; a deviation of the REAL handlers from the reference is a violation in its own right
    only = {"C03": lambda c: c["op"] in ("put", "delete"), "C10": lambda c: c["op"] in ("put", "get"), "C12": lambda c: c["op"] == "put", "C11": None}[pid]
    try:
        bad = conformance_validation(R, pid, only)
    except Inconclusive as e:
        R.add("%s/native-conformance" % pid, "inconclusive", detail=str(e)[:400])
        return
    if bad:
        prof, c, d, r = bad[0]
        c = dict(c)
        c["observed"] = {prof: r}
        c["deviation"] = d
        R.add("%s/native-conformance" % pid, "violated", confirmed=True, replay_path=R.save_replay("%s/native-conformance" % pid, c),
              key="%s/native-conformance/%s" % (pid, c["op"]),
              detail="the real handler deviates from the sequential reference: %s %r (expected=%s, hash=%s): %s (%s)" % (c["op"], c.get("path"), c.get("expected"), c.get("hash"), d, prof))
    else:
        R.add("%s/native-conformance" % pid, "holds", detail="real handlers conform to the sequential reference on the scenario family (dev+release); this validates the "
              "effect-recorder abstraction, it is not the deciding step", queries=0, solver_s=0.0)


def replay(path):
    case = json.load(open(path))["case"]
    if case.get("fn") == "serve_prologue":
        from mirsmt.report import Runner
        r = hubnative.serve_prologue_check(Runner("C12", "quick", "model_checking", 1), "C12/serve/replay", "C12/serve/replay")
        print(json.dumps(r, indent=1)[:1500])
        return 0
    obs = case.pop("observed", None)
    case.pop("deviation", None)
    case.pop("expected_refused", None)
    if case.pop("strace", False):
        for prof in ("dev", "release"):
            ev, res = hubnative.strace_case(case, prof)
            print(prof, json.dumps(hubnative.logical_trace(ev, case.get("path", "")))[:2000])
        return 0
    out = {p: hubnative.run_cases([case], p)[0] for p in ("dev", "release")}
    print(json.dumps(out, indent=1))
    if case.get("op") != "safe_join":
        for p, r in out.items():
            print(p, "deviation:", hubnative.deviation(case, r))
    return 0
