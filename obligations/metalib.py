"""C14 (arithmetic around the mtime round trip): meta::set_local_mtime and meta::mtime_secs from MIR.
The file system is NOT modelled: `set_modified` is recorded as an effect, `Metadata` is an input."""
import json
import z3

from mirsmt import stdmodels, native
from mirsmt.symexec import State, VInt, VBool, VStruct, VEnum, VRef, VOpaque, I, simp
from mirsmt.env import model_int, model_bool, Inconclusive
from . import planlib

I64MAX = (1 << 63) - 1


def ctx_with_meta():
    from mirsmt import env
    from mirsmt.symexec import Executor

    class C(planlib.Ctx):
        def __init__(self):
            def keep(n):
                return n in ("set_local_mtime", "mtime_secs") or n.startswith(("mtime_secs::", "set_local_mtime::"))
            self.mir, self.mir_path, self.dump_s = env.load("bin", keep)
            self.idx = env.impl_index(self.mir)
            self.enums = env.source_enums()
    return C()


def set_mtime_obligation(ctx, prover, pid):
    R = prover.R
    ex = ctx.ex()
    stdmodels.install_time_fs(ex)
    secs = ex.fresh_int("secs", ty="i64")
    st = State()
    res = ex.exec_fn(ctx.fn(ex, "set_local_mtime"), [VRef("val", val=VOpaque("path")), VInt(secs, "i64")], st)
    if res is None:
        raise Inconclusive("set_local_mtime never returns")
    ex.exit_guards.append(st.guard)
    eff = getattr(ex, "effects", [])
    opens = getattr(ex, "inputs", {}).get("open_ok", [])
    if len(opens) != 1:
        raise Inconclusive("expected exactly one open() in set_local_mtime, found %d" % len(opens))
    open_ok = opens[0]
    want = z3.If(secs > 0, secs, 0)
    fired = [e["guard"] for e in eff]
    exactly_one = z3.And(z3.Or(*fired), *[z3.Not(z3.And(fired[i], fired[j])) for i in range(len(fired)) for j in range(i + 1, len(fired))]) if fired else z3.BoolVal(False)
    right_time = z3.And(*[z3.Implies(e["guard"], z3.And(e["time"].f[0].t == want, e["time"].f[1].t == 0)) for e in eff]) if eff else z3.BoolVal(True)
    same_result = z3.And(*[z3.Implies(e["guard"], (res.discr == 0) == e["ok"]) for e in eff]) if eff else z3.BoolVal(True)
    goals = {
        "opened-file-gets-its-mtime-set-exactly-once": z3.Implies(open_ok, exactly_one),
        "mtime-set-to-the-whole-second-requested": right_time,
        "result-is-the-outcome-of-set_modified": z3.Implies(open_ok, same_result),
        "open-failure-is-reported": z3.Implies(z3.Not(open_ok), z3.And(res.discr == 1, z3.Not(z3.Or(*fired)) if fired else z3.BoolVal(True))),
    }

    def witness(name, model, neg):
        s = model_int(model, secs)
        case = {"fn": "set_local_mtime_roundtrip", "secs": s}
        res_n = native.run_both(case)
        want_s = max(s, 0)
        bad = {p: r for p, r in res_n.items() if r.get("mtime_after") != want_s}
        if bad:
            case["expected"] = want_s
            case["observed"] = res_n
            return {"confirmed": True, "replay_path": R.save_replay("%s/set_local_mtime" % pid, case), "key": "%s/set_local_mtime" % pid,
                    "detail": "set_local_mtime(file, %d) then mtime_secs: native %s, expected %d" % (s, json.dumps(bad)[:200], want_s)}
        return {"confirmed": False, "detail": "native set_local_mtime(%d) + read-back gives %d as expected" % (s, want_s)}

    prover.prove(ex, goals, "%s/set_local_mtime" % pid, "all secs: i64; outcome of open() and set_modified() arbitrary; file system not modelled",
                 ["set_local_mtime"], witness, covers={"set_modified-reachable": z3.Or(*fired) if fired else z3.BoolVal(False)})


def mtime_secs_obligation(ctx, prover, pid):
    ex = ctx.ex()
    stdmodels.install_time_fs(ex)
    ok = ex.fresh_bool("modified_ok")
    s = ex.fresh_int("mtime_s", lo=-(1 << 62), hi=I64MAX)
    ns = ex.fresh_int("mtime_ns", lo=0, hi=999999999)
    meta = VStruct("Metadata", [VBool(ok), VStruct("SystemTime", [VInt(s, "i64"), VInt(ns, "u32")])])
    st = State()
    r = ex.exec_fn(ctx.fn(ex, "mtime_secs"), [VRef("val", val=meta)], st)
    if r is None:
        raise Inconclusive("mtime_secs never returns")
    ex.exit_guards.append(st.guard)
    goals = {"whole-seconds-since-epoch": z3.Implies(z3.And(ok, s >= 0), r.t == s),
             "fallback-0-before-epoch-or-unreadable": z3.Implies(z3.Or(z3.Not(ok), s < 0), r.t == 0)}
    R = prover.R

    def witness(name, model, neg):
        sv = model_int(model, s)
        if not model_bool(model, ok) or sv < 0:
            return {"confirmed": False, "detail": "model needs unreadable / pre-epoch metadata: not replayed on a real file"}
        case = {"fn": "set_local_mtime_roundtrip", "secs": sv, "raw_ns": model_int(model, ns)}
        res_n = native.run_both(case)
        bad = {p: r for p, r in res_n.items() if r.get("mtime_after") != sv}
        if bad:
            case["expected"] = sv
            case["observed"] = res_n
            return {"confirmed": True, "replay_path": R.save_replay("%s/mtime_secs" % pid, case), "key": "%s/mtime_secs" % pid,
                    "detail": "a file with mtime %d s is read back as %s (expected %d)" % (sv, json.dumps(bad)[:160], sv)}
        return {"confirmed": False, "detail": "native read-back of mtime %d agrees (file system may not store it)" % sv}

    prover.prove(ex, goals, "%s/mtime_secs" % pid, "all modification times (secs i64, nanos < 1e9) and unreadable metadata", ["mtime_secs"], witness)
