"""C14 — an unchanged tree is never re-sent (planner level only; thin claim: DESIGN §4 C14)."""
from mirsmt.env import Inconclusive
from mirsmt.symexec import Unsupported
from . import planlib
from .c19 import replay  # noqa: F401


def run(R, tier, seed):
    R.trusted += ["rustc nightly MIR dump of the copia binary crate", "mirsmt encoder + std models (validated in concrete mode vs native)",
                  "z3 5.1 (deciding), cvc5 / z3 4.8.12 (re-deciding)"]
    R.assumptions += ["ASSUMED, not decided: after a successful run the destination's (size, whole-second mtime) equals the source's "
                      "(SystemTime, `touch -d @`, `find -printf %T@` round trip) — kernel/coreutils behaviour",
                      "decided: given equal metadata the plan transfers and deletes nothing; a path is in the plan only if absent or size/mtime differ",
                      "is_excluded abstracted as an arbitrary predicate"]
    ctx = planlib.Ctx()
    R.extra["mir_dump"] = {"file": ctx.mir_path, "seconds": round(ctx.dump_s, 2)}
    prover = planlib.Prover(R, tier)
    steps = [
        ("needs_transfer", lambda: planlib.needs_transfer_obligation(ctx, prover, "C14")),
        ("validate-build_plan", lambda: planlib.validate_build_plan(ctx, R, seed, 10 if tier == "quick" else 60)),
        ("build_plan", lambda: planlib.build_plan_obligation(ctx, prover, "C14", 3 if tier == "quick" else 5, seed)),
    ]
    for name, f in steps:
        try:
            f()
        except (Unsupported, Inconclusive) as e:
            R.add("C14/%s/encoding" % name, "inconclusive", detail=str(e)[:400])
