"""C14 — an unchanged tree is never re-sent (planner level only; thin claim: DESIGN §4 C14)."""
from mirsmt.env import Inconclusive
from mirsmt.symexec import Unsupported
from . import planlib
from .c19 import replay  # noqa: F401


def run(R, tier, seed):
    R.trusted += ["rustc nightly MIR dump of the copia binary crate", "mirsmt encoder + std models (validated in concrete mode vs native)",
                  "z3 5.1 (deciding), cvc5 / z3 4.8.12 (re-deciding)"]
    R.assumptions += ["ASSUMED, not decided: the kernel stores the mtime it is given and returns it (a file is a cell), `touch -d @` / `find -printf %T@` "
                      "on the remote side, and that the delivery code calls set_local_mtime with the source's mtime",
                      "decided (local side): set_local_mtime asks the file system for exactly max(secs,0) whole seconds, exactly once, for EVERY i64 (incl. 0 and far "
                      "future), and reports failures; mtime_secs returns the whole seconds since the epoch (0 before it / unreadable)",
                      "decided: given equal metadata the plan transfers and deletes nothing; a path is in the plan only if absent or size/mtime differ",
                      "is_excluded abstracted as an arbitrary predicate"]
    from . import planjobs
    planjobs.run(R, "C14", tier, seed, ["needs_transfer", "build_plan", "mtime"])
