"""The helpers that NAME conflict copies: bidir::short_hex (bisync, C02/C06) and wire::short_hash (hub, C03/C10/C13) from MIR,
on a fully symbolic 32-byte digest, with write!("{b:02x}") decoded (mirsmt/textmodels.py).  Goal: the result is exactly the
first 12 lower-case hex digits of the digest - for every digest (2^256 values; only the first six bytes matter and the solver
shows that too)."""
import json
import re
import z3

from mirsmt import env, stdmodels, patchmodels, codecmodels, fsmodels, itermodels, textmodels
from mirsmt.symexec import Executor, State, VInt, VStruct, VRef, VSeq, I, simp, Unsupported
from mirsmt import stdmodels as _sm
from mirsmt.env import model_int, Inconclusive
from mirsmt.textmodels import seq_eq, K0


class Ctx:
    def __init__(self):
        def keep(n):
            return n in ("short_hex", "short_hash") or n.endswith(("::short_hex", "::short_hash")) or n.startswith(("short_hex::", "short_hash::"))
        self.mir, self.mir_path, self.dump_s = env.load("bin", keep)
        self.idx = env.impl_index(self.mir)
        self.enums = env.source_enums()


def obligation(ctx, R, prover, pid, fn_name):
    ex = Executor(ctx.mir, ctx.enums, K=8)
    ex.impl_index = ctx.idx
    stdmodels.install_core(ex)
    itermodels.install(ex)
    ex.byte_cap = 32
    patchmodels.install(ex)
    codecmodels.install(ex)
    fsmodels.install(ex)
    textmodels.install(ex, str_cap=16, fmt_cap=16)
    H = [ex.fresh_int("h%d" % i, ty="u8") for i in range(32)]
    fn = ex.find_fn(fn_name)
    if fn is None:
        raise Inconclusive("no MIR body for %s" % fn_name)
    st = State()
    out = ex.exec_fn(fn, [VRef("val", val=VStruct("[array]", [VInt(h, "u8") for h in H]))], st)
    if out is None:
        raise Inconclusive("%s never returns" % fn_name)
    ex.exit_guards.append(st.guard)
    s = out.f[0] if isinstance(out, VStruct) else out
    if not isinstance(s, VSeq):
        raise Inconclusive("%s returns %r" % (fn_name, out))
    spec = K0
    for i in range(6):
        for k, d in enumerate((H[i] / 16, H[i] % 16)):
            spec = z3.Store(spec, 2 * i + k, z3.If(d < 10, 48 + d, 87 + d))
    idx = z3.Int("ANY_INDEX")
    goals = {"the-name-suffix-is-exactly-the-first-12-lower-case-hex-digits-of-the-digest": seq_eq(s, VSeq(spec, I(0), I(12), "char"), idx)}

    def witness(name, model, neg):
        from . import hubnative
        digests = []
        if model is not None:
            digests.append([model_int(model, h) for h in H])
        digests += [[0] * 32, [0x0a, 0xb0, 0x00, 0xff, 0x10, 0x01] + [7] * 26, list(range(32)), [0xab] * 32]
        for d in digests:
            want = "".join("%02x" % b for b in d[:6])
            case = {"fn": "short_names", "digest": d}
            for prof in ("dev", "release"):
                r = hubnative.run_cases([case], prof)[0]
                key = "short_hex" if fn_name == "short_hex" else "short_hash"
                if r.get(key) != want:
                    case["expected"] = want
                    case["observed"] = {prof: r}
                    return {"confirmed": True, "replay_path": R.save_replay("%s/%s" % (pid, fn_name), case), "key": "%s/%s" % (pid, fn_name),
                            "detail": "%s(%s..) = %r, the first 12 hex digits of the digest are %r (%s)" % (fn_name, d[:6], r.get(key), want, prof)}
        return {"confirmed": False, "detail": "the real %s returns the first 12 hex digits on the model's digest and the fixed family" % fn_name}
    prover.prove(ex, goals, "%s/%s" % (pid, fn_name), "all 2^256 digests (32 symbolic bytes); write!(\"{b:02x}\") decoded from its template; loop unrolled 8 times",
                 [fn.name], witness, covers={"returns": z3.BoolVal(True)})


def run(R, prover, pid, fn_name):
    try:
        obligation(Ctx(), R, prover, pid, fn_name)
    except (Inconclusive, Unsupported) as e:
        R.add("%s/%s/encoding" % (pid, fn_name), "inconclusive", detail=str(e)[:400])
