"""Worker entry points for the plan.rs obligations (C19 / C15 / C14), so that they run in parallel."""
from mirsmt.prove import Prover
from . import planlib


def step(R, pid, tier, seed, what, tag):
    ctx = planlib.Ctx()
    prover = Prover(R, tier)
    q = tier == "quick"
    if what == "validate-glob":
        planlib.validate_glob(ctx, R, seed, 40 if q else 200)
    elif what == "needs_transfer":
        planlib.needs_transfer_obligation(ctx, prover, pid)
    elif what == "glob_match":
        planlib.glob_obligation(ctx, prover, pid, *((4, 5) if q else (6, 7)), direction="protect" if pid == "C15" else "iff")
    elif what == "build_plan":
        planlib.validate_build_plan(ctx, R, seed, 10 if q else 60)
        planlib.build_plan_obligation(ctx, prover, pid, 3 if q else 5, seed)
    elif what == "is_excluded":
        planlib.validate_is_excluded(ctx, R, seed, 40 if q else 200)
        planlib.is_excluded_obligation(ctx, prover, pid, 1, 4, 4)
    elif what == "is_excluded-2":
        planlib.is_excluded_obligation(ctx, prover, pid, 2, 2, 3)
    elif what == "is_excluded-long":
        planlib.is_excluded_obligation(ctx, prover, pid, 1, 4, 5)
    elif what == "mtime":
        from . import metalib
        mc = metalib.ctx_with_meta()
        metalib.set_mtime_obligation(mc, prover, pid)
        metalib.mtime_secs_obligation(mc, prover, pid)
    else:
        raise ValueError(what)


def run(R, pid, tier, seed, steps):
    from . import parallel
    from mirsmt import env
    env.dump_mir("bin")
    jobs = [("obligations.planjobs", "step", dict(pid=pid, tier=tier, seed=seed, what=w, tag=w)) for w in steps]
    parallel.run_jobs(R, jobs)
