"""E1 obligations over CopiaSync::patch / AsyncCopiaSync::patch / Delta::validate from MIR (C05, and the
generate -> delta -> patch round trip for C01)."""
import json
import random
import z3

from mirsmt import env, stdmodels, deltamodels, patchmodels, native
from mirsmt.symexec import (Executor, State, VInt, VBool, VStruct, VEnum, VRef, VSeq, VList, VOpaque, I, simp, Unsupported)
from mirsmt.env import decide, model_int, model_bool, Inconclusive, now
from mirsmt.prove import Prover
from . import deltalib


def engine_value(verify_term):
    cfg = VStruct("SyncConfig", [VInt(I(2048), "usize"), VInt(I(8), "usize"), VInt(I(65536), "usize"), VBool(verify_term)])
    return VStruct("Engine", [cfg])


def config_field_order(ctx, ex):
    """verify_checksum must be the 4th field of SyncConfig (checked against the aggregate in SyncConfig::default)"""
    names = ctx.struct_fields(ex, "<SyncConfig as Default>::default", "SyncConfig")
    if names != ["block_size", "strong_hash_len", "buffer_size", "verify_checksum"]:
        raise Inconclusive("SyncConfig fields changed: %s" % names)


def sym_delta(ctx, ex, nops, maxlit, cap, hash_model="ideal"):
    enums = ctx.enums
    ci, li = enums["DeltaOp"]["Copy"], enums["DeltaOp"]["Literal"]
    names = ctx.struct_fields(ex, "Delta::with_checksum", "Delta")
    items, meta = [], []
    for i in range(nops):
        is_copy = ex.fresh_bool("op%d_is_copy" % i)
        off = ex.fresh_int("op%d_off" % i, ty="u64")
        ln = ex.fresh_int("op%d_len" % i, ty="u32")
        larr = z3.Array("op%d_lit" % i, z3.IntSort(), z3.IntSort())
        llen = ex.fresh_int("op%d_litlen" % i, lo=0, hi=maxlit)
        for k in range(maxlit):
            ex.assumes += [z3.Select(larr, k) >= 0, z3.Select(larr, k) <= 255]
        lit = VSeq(larr, I(0), llen, "u8")
        items.append(VEnum("DeltaOp", simp(z3.If(is_copy, I(ci), I(li))), {ci: [VInt(off, "u64"), VInt(ln, "u32")], li: [lit]}))
        meta.append(dict(is_copy=is_copy, off=off, len=ln, lit=lit))
    n = ex.fresh_int("n_ops", lo=0, hi=nops)
    carr = z3.Array("checksum_preimage", z3.IntSort(), z3.IntSort())
    clen = ex.fresh_int("checksum_preimage_len", lo=0, hi=cap + 1)
    cbytes = [ex.fresh_int("checksum_byte%d" % i, lo=0, hi=255) for i in range(32)]
    f = {"block_size": VInt(ex.fresh_int("block_size", ty="u32"), "u32"),
         "source_size": VInt(ex.fresh_int("source_size", ty="u64"), "u64"),
         "basis_size": VInt(ex.fresh_int("basis_size", ty="u64"), "u64"),
         "ops": VList(items, n, "DeltaOp"),
         "checksum": VStruct("StrongHash", [VSeq(carr, I(0), clen, "u8")]) if hash_model == "ideal" else
         VStruct("StrongHash", [VStruct("[array]", [VInt(c, "u8") for c in cbytes])])}
    d = VStruct("Delta", [f[k] for k in names])
    return d, dict(ops=meta, n=n, carr=carr, clen=clen, f=f, cbytes=cbytes)


def mk_executor(ctx, bl, nops, maxlit, hash_model="ideal"):
    cap = max(1, nops * max(bl, maxlit))
    ex = ctx.ex(K=2 * nops + 5)
    deltamodels.install(ex, window_cap=1, byte_cap=cap, cand_cap=1)
    patchmodels.install(ex)
    ex.hash_cap = cap + 1
    ex.hash_model = hash_model
    if hash_model == "bytes":
        # the digest is a real [u8; 32]: StrongHash's own code (PartialEq, eq_truncated, from_bytes, as_bytes) runs from MIR
        for k in ("<StrongHash as PartialEq>::eq", "<StrongHash as PartialEq>::ne", "StrongHash::from_bytes", "StrongHash::as_bytes"):
            ex.summaries.pop(k, None)
    return ex, cap


def run_patch(ctx, ex, engine, eng_val, basis_seq, delta_val, st):
    st.frames[0] = st.frames.get(0, {})
    st.frames[0]["out"] = VSeq(z3.K(z3.IntSort(), I(0)), I(0), I(0), "u8")
    st.frames[0]["delta"] = delta_val
    st.frames[0]["eng"] = eng_val
    cur = patchmodels.cursor(basis_seq)
    if engine == "sync":
        fn = ctx.fn(ex, "<CopiaSync as Sync>::patch")
        r = ex.exec_fn(fn, [VRef("place", 0, "eng"), cur, VRef("place", 0, "delta"), VRef("place", 0, "out")], st)
        if r is None:
            raise Inconclusive("patch never returns")
        return r, z3.BoolVal(True)
    key = ctx.idx.get("AsyncCopiaSync::patch")
    cfn = ex.find_fn(key + "::{closure#0}") if key else None
    if cfn is None:
        raise Inconclusive("no MIR body for the async patch state machine")
    co = VEnum("Coroutine", I(0), {-1: [VRef("place", 0, "eng"), cur, VRef("place", 0, "delta"), VRef("place", 0, "out")]})
    st.frames[0]["co"] = co
    poll = ex.exec_fn(cfn, [VStruct("Pin", [VRef("place", 0, "co")]), VOpaque("Context")], st)
    if poll is None or 0 not in poll.pay:
        raise Inconclusive("async patch never becomes Ready")
    return poll.pay[0][0], simp(poll.discr == 0)


def interp_terms(ops, n, B, bl, cap):
    """(expected output array, expected length, all-live-copies-inside-basis) by interpreting the ops on the basis"""
    arr = z3.K(z3.IntSort(), I(0))
    ln = I(0)
    inside = []
    for i, o in enumerate(ops):
        live = i < n
        oplen = z3.If(o["is_copy"], o["len"], o["lit"].len)
        inside.append(z3.Implies(z3.And(live, o["is_copy"], o["len"] > 0), o["off"] + o["len"] <= bl))
        for k in range(cap):
            byte = z3.If(o["is_copy"], z3.Select(B, o["off"] + k), o["lit"].at(I(k)))
            arr = z3.If(z3.And(live, k < oplen), z3.Store(arr, ln + k, byte), arr)
        ln = simp(z3.If(live, ln + oplen, ln))
    return arr, ln, z3.And(*inside) if inside else z3.BoolVal(True)


def seq_eq(a_arr, a_len, b_arr, b_len, cap):
    return z3.And(a_len == b_len, *[z3.Implies(k < a_len, z3.Select(a_arr, k) == z3.Select(b_arr, k)) for k in range(cap)])


def c05_obligations(ctx, R, prover, engine, bl, nops, maxlit, hash_model="bytes"):
    ex, cap = mk_executor(ctx, bl, nops, maxlit, hash_model)
    config_field_order(ctx, ex)
    B = deltalib.sym_bytes(ex, "B", bl)
    verify = ex.fresh_bool("verify_checksum") if engine == "sync" else z3.BoolVal(True)
    d, M = sym_delta(ctx, ex, nops, maxlit, cap, hash_model)
    st = State()
    res, ready = run_patch(ctx, ex, engine, engine_value(verify), VSeq(B, I(0), I(bl), "u8"), d, st)
    ex.exit_guards.append(st.guard)
    out = st.frames[0]["out"]
    ok = simp(res.discr == 0)
    earr, elen, inside = interp_terms(M["ops"], M["n"], B, bl, cap)
    goals = {
        "success=>output-is-what-the-ops-describe": z3.Implies(ok, seq_eq(out.arr, out.len, earr, elen, cap)),
        "success=>no-read-outside-the-basis": z3.Implies(ok, inside),
    }
    if hash_model == "ideal":
        goals["success=>output-hashes-to-delta.checksum"] = z3.Implies(z3.And(ok, verify), seq_eq(out.arr, out.len, M["carr"], M["clen"], cap + 1))
    else:
        hb = patchmodels.hash_bytes(ex, VSeq(out.arr, out.off, out.len, "u8"))
        goals["success=>output-hashes-to-delta.checksum"] = z3.Implies(z3.And(ok, verify), z3.And(*[h.t == c for h, c in zip(hb.f, M["cbytes"])]))
    if engine == "async":
        goals["future-completes"] = ready
    covers = {"success-reachable": ok, "error-reachable": z3.Not(ok)}
    tag = "C05/%s-patch[bl=%d,ops<=%d,lit<=%d]" % (engine, bl, nops, maxlit)

    def witness(name, model, neg):
        # prefer a model with small copy lengths / offsets (a 4 GiB `vec![0; len]` is not something to replay)
        small = [z3.And(o["len"] <= 16, o["off"] <= 64) for o in M["ops"]]
        try:
            st_s, m_s, _ = decide(ex.assumes + small, neg, prover.cap)
            if st_s == "sat":
                model = m_s
        except Exception:
            pass
        basis = [model_int(model, z3.Select(B, i)) for i in range(bl)]
        n = model_int(model, M["n"])
        ops = []
        for o in M["ops"][:n]:
            if model_bool(model, o["is_copy"]):
                ops.append({"copy": [model_int(model, o["off"]), model_int(model, o["len"])]})
            else:
                k = model_int(model, o["lit"].len)
                ops.append({"lit": [model_int(model, o["lit"].at(I(j))) for j in range(k)]})
        clen = model_int(model, M["clen"])
        pre = [model_int(model, z3.Select(M["carr"], j)) % 256 for j in range(min(clen, cap + 1))]
        delta = {"block_size": model_int(model, M["f"]["block_size"].t), "source_size": model_int(model, M["f"]["source_size"].t),
                 "basis_size": model_int(model, M["f"]["basis_size"].t), "ops": ops, "checksum": "00" * 32, "checksum_of": pre}
        if hash_model == "bytes":
            # checksum := real BLAKE3 of what the ops describe, with exactly those bytes altered where the model's
            # checksum differs from the model's hash of the output
            outv = []
            for o in ops:
                if "copy" in o:
                    a, l = o["copy"]
                    outv += basis[a:a + l] if (l and a + l <= len(basis)) else []
                else:
                    outv += o["lit"]
            hbm = patchmodels.hash_bytes(ex, VSeq(out.arr, out.off, out.len, "u8"))
            flips = [i for i in range(32) if model_int(model, hbm.f[i].t) != model_int(model, M["cbytes"][i])]
            delta["checksum_of"] = outv
            delta["checksum_flip"] = flips
        v = model_bool(model, verify) if engine == "sync" else True
        case = {"fn": "patch", "engine": engine, "basis": basis, "delta": delta, "verify": v}
        if any("copy" in o and o["copy"][1] > (1 << 24) for o in ops):
            return {"confirmed": False, "detail": "model needs a copy of %s bytes: not replayed (allocation size)" % ops}
        res_n = native.run_both(case)
        interp = []
        okc = True
        for o in ops:
            if "copy" in o:
                a, l = o["copy"]
                if l and a + l > len(basis):
                    okc = False
                interp += basis[a:a + l] if l else []
            else:
                interp += o["lit"]
        bad = {}
        for p, r in res_n.items():
            if "panic" in r or "crash" in r:
                bad[p] = "crash instead of a reported error: %s" % str(r)[:140]
            elif r.get("result") == "ok":
                if v and not r.get("hash_matches"):
                    bad[p] = "success although the output does not hash to delta.checksum"
                elif not okc:
                    bad[p] = "success although a copy reads outside the basis"
                elif r.get("output") != interp:
                    bad[p] = "success with output %s, ops describe %s" % (r.get("output"), interp)
        if bad:
            case["observed"] = res_n
            kind = "crash" if any("crash" in b for b in bad.values()) else "wrong-success"
            return {"confirmed": True, "replay_path": R.save_replay(tag, case), "key": "C05/%s-patch/%s" % (engine, kind),
                    "detail": "patch(%s): native %s" % (json.dumps(case)[:300], bad)}
        return {"confirmed": False, "detail": "native patch behaves correctly on %s" % json.dumps(case)[:260]}

    fns = ["<CopiaSync as Sync>::patch" if engine == "sync" else "AsyncCopiaSync::patch (coroutine)", "Delta::validate",
           "Delta::expected_output_size", "DeltaOp::output_len"]
    prover.prove(ex, goals, tag,
                 "basis of %d symbolic bytes; op list of length 0..%d, every op's kind symbolic; copy offset any u64, copy length any u32; literals of 0..%d "
                 "symbolic bytes; block_size/source_size/basis_size any; checksum = ideal hash of an arbitrary string (or of none); verify_checksum symbolic"
                 % (bl, nops, maxlit), fns, witness, extra_info={"executed": sorted(ex.executed_fns)}, covers=covers)


def roundtrip_obligations(ctx, R, prover, engine, bl, sl, bs):
    """C01: patch(basis, delta(source, generate(basis))) succeeds with output == source (one query over the whole chain)"""
    P = deltalib.run_pipeline(ctx, bl, sl, bs, engine=engine)
    ex = P["ex"]
    patchmodels.install(ex)
    ex.hash_cap = max(ex.hash_cap, sl + bl + 1)
    ex.byte_cap = max(ex.byte_cap, sl + bs)
    config_field_order(ctx, ex)
    res = P["res"]
    if 0 not in res.pay:
        raise Inconclusive("delta returns only errors")
    d = res.pay[0][0]
    st = P["st"]
    g0 = st.guard
    pres, ready = run_patch(ctx, ex, engine, engine_value(z3.BoolVal(True)), VSeq(P["B"], I(0), I(bl), "u8"), d, st)
    ex.exit_guards[:] = [st.guard]
    out = st.frames[0]["out"]
    cap = max(sl, 1)
    goals = {"delta-ok": simp(res.discr == 0),
             "patch-ok": simp(pres.discr == 0),
             "output==source": z3.And(out.len == sl, *[out.at(I(k)) == z3.Select(P["S"], k) for k in range(sl)])}
    if engine == "async":
        goals["futures-complete"] = z3.And(P["ready"], ready)
    tag = "C01/%s-roundtrip[bl=%d,sl=%d,bs=%d]" % (engine, bl, sl, bs)

    def witness(name, model, neg):
        case = deltalib.model_case(model, P, engine)
        bad, resn = deltalib.native_verdict(case)
        if bad:
            case["observed"] = resn
            return {"confirmed": True, "replay_path": R.save_replay(tag, case), "key": "C01/%s-roundtrip" % engine,
                    "detail": "roundtrip(basis=%s, source=%s, bs=%d): native %s" % (case["basis"], case["source"], bs, bad)}
        try:
            st2, m2, _ = decide(ex.assumes + ex.exit_guards + deltalib.real_digest_axioms(ex), neg, prover.cap)
        except Inconclusive:
            st2 = "unknown"
        if st2 == "sat":
            case2 = deltalib.model_case(m2, P, engine)
            bad2, res2 = deltalib.native_verdict(case2)
            if bad2:
                case2["observed"] = res2
                return {"confirmed": True, "replay_path": R.save_replay(tag, case2), "key": "C01/%s-roundtrip" % engine,
                        "detail": "roundtrip(basis=%s, source=%s, bs=%d): native %s" % (case2["basis"], case2["source"], bs, bad2)}
        if st2 == "unsat":
            return {"refined_holds": True, "detail": "holds for the real weak hash at this size (exact small-window digest)"}
        return {"confirmed": False, "detail": "native round trip is correct on basis=%s source=%s" % (case["basis"], case["source"])}

    prover.prove(ex, goals, tag,
                 "basis %d / source %d symbolic bytes, block size %d: generate -> delta -> patch executed as one chain from MIR" % (bl, sl, bs),
                 ["Signature::generate", "delta", "patch", "Delta::validate"], witness)


# ------------------------------------------------------------------ translator validation for patch

def validate_patch(ctx, R, seed, count, engine="sync"):
    rnd = random.Random(seed)
    cases, mine = [], []
    for _ in range(count):
        bl = rnd.randrange(0, 5)
        basis = [rnd.randrange(256) for _ in range(bl)]
        ops = []
        for _ in range(rnd.randrange(0, 4)):
            if rnd.random() < 0.6:
                ops.append({"copy": [rnd.choice([0, 1, 2, 3, 5, 2 ** 40]), rnd.choice([0, 1, 2, 3, 6])]})
            else:
                ops.append({"lit": [rnd.randrange(256) for _ in range(rnd.randrange(0, 3))]})
        interp, okc = [], True
        for o in ops:
            if "copy" in o:
                a, l = o["copy"]
                if a + l > bl:
                    okc = False
                interp += basis[a:a + l]
            else:
                interp += o["lit"]
        total = sum(o["copy"][1] if "copy" in o else len(o["lit"]) for o in ops)
        src_size = total if rnd.random() < 0.8 else total + 1
        basis_size = rnd.choice([bl, bl + 3, 0, 2 ** 41])
        pre = interp if rnd.random() < 0.7 else [1, 2, 3, 4, 5, 6, 7][:rnd.randrange(0, 7)]
        verify = rnd.random() < 0.7 or engine == "async"
        case = {"fn": "patch", "engine": engine, "basis": basis, "verify": verify,
                "delta": {"block_size": 2, "source_size": src_size, "basis_size": basis_size, "ops": ops, "checksum": "00" * 32, "checksum_of": pre}}
        # encoding, concrete
        ex, cap = mk_executor(ctx, max(bl, 1), max(len(ops), 1), 3)
        enums = ctx.enums
        ci, li = enums["DeltaOp"]["Copy"], enums["DeltaOp"]["Literal"]
        names = ctx.struct_fields(ex, "Delta::with_checksum", "Delta")
        items = []
        for o in ops:
            if "copy" in o:
                items.append(VEnum("DeltaOp", I(ci), {ci: [VInt(I(o["copy"][0]), "u64"), VInt(I(o["copy"][1]), "u32")]}))
            else:
                items.append(VEnum("DeltaOp", I(li), {li: [VSeq(deltalib.lit_bytes(o["lit"]), I(0), I(len(o["lit"])), "u8")]}))
        f = {"block_size": VInt(I(2), "u32"), "source_size": VInt(I(src_size), "u64"), "basis_size": VInt(I(basis_size), "u64"),
             "ops": VList(items, I(len(items)), "DeltaOp"), "checksum": VStruct("StrongHash", [VSeq(deltalib.lit_bytes(pre), I(0), I(len(pre)), "u8")])}
        d = VStruct("Delta", [f[k] for k in names])
        st = State()
        res, _ = run_patch(ctx, ex, engine, engine_value(z3.BoolVal(verify)), VSeq(deltalib.lit_bytes(basis), I(0), I(bl), "u8"), d, st)
        s = z3.Solver()
        s.add(ex.assumes)
        panic = False
        if s.check() == z3.sat:
            m0 = s.model()
            panic = any(z3.is_true(m0.eval(o.formula, model_completion=True)) for o in ex.obligs if o.kind == "panic")
        if panic:
            mine.append("panic")
        else:
            s.add(st.guard)
            if s.check() != z3.sat:
                raise Inconclusive("translator validation (patch): no feasible exit")
            m = s.model()
            okm = model_int(m, res.discr) == 0
            out = st.frames[0]["out"]
            mine.append(("ok", [model_int(m, out.at(I(k))) for k in range(model_int(m, out.len))]) if okm else "err")
        cases.append(case)
    nat = native.run_cases(cases, "dev")
    dis = 0
    for c, mn, r in zip(cases, mine, nat):
        got = "panic" if ("panic" in r or "crash" in r) else (("ok", r["output"]) if r.get("result") == "ok" else "err")
        if got != mn:
            dis += 1
            R.validation["samples"].append({"case": c, "encoding": mn, "native": got})
    R.validation["cases"] += len(cases)
    R.validation["disagreements"] += dis
    if cases and len(R.validation["samples"]) < 3:
        R.validation["samples"].append({"case": cases[0], "encoding": mine[0], "agree": True})
    if dis:
        raise Inconclusive("translator validation (patch, %s): %d/%d concrete cases disagree with the native build: %s"
                           % (engine, dis, len(cases), json.dumps(R.validation["samples"][-1])[:500]))
