#!/bin/bash
# Regenerates every evidence file on the (clean) current tree and validates it. usage: run_all.sh [quick|thorough]
tier=${1:-quick}
cd "$(dirname "$0")/.."
mkdir -p .build
if [ -n "$(git -C /repo status --porcelain)" ]; then echo "/repo is dirty - refusing"; exit 3; fi
rc_all=0
for c in C17 C19 C15 C14 C18 C20 C16 C01 C05 C03 C10 C11 C12 C02 C06 C07 C08 C13 C04 C09; do
  s=$(date +%s)
  ./check $c --tier $tier > .build/all-$c.log 2>&1
  rc=$?
  echo "$c exit=$rc $(( $(date +%s) - s ))s  ok=$(grep -c '^  ok' .build/all-$c.log) other=$(grep -c '^  FAIL\|^  ???' .build/all-$c.log)"
  [ $rc -ne 0 ] && rc_all=1
done
/usr/local/bin/python3-vt - <<'PY'
import json, jsonschema, glob
sch = json.load(open('/root/.vp/EVIDENCE.schema.json'))
for f in sorted(glob.glob('evidence/*.json')):
    e = json.load(open(f))
    jsonschema.validate(e, sch)
    c = e['coverage']
    flag = '' if (e['level'] != 'proof' or c['obligations'] == c['discharged']) else '  <-- proof-level but discharged != obligations'
    print(f.split('/')[-1], e['level'], c['obligations'], c['discharged'], e['wall_s'], flag)
PY
exit $rc_all
