#!/usr/bin/env python3
"""Run the baseline test command in /repo and compare with /root/.vp/BASELINE.json stable_pass."""
import json, subprocess, sys, re, os
import xml.etree.ElementTree as ET
b = json.load(open("/root/.vp/BASELINE.json"))
env = dict(os.environ, CARGO_NET_OFFLINE="true")
p = subprocess.run("cargo nextest run --workspace --no-fail-fast --tool-config-file pb:/w/lib/nextest.toml --profile pb --test-threads 8 --offline",
                   shell=True, cwd="/repo", env=env, stdout=subprocess.PIPE, stderr=subprocess.STDOUT, text=True)
tree = ET.parse("/repo/target/nextest/pb/junit.xml")
passed = set()
for ts in tree.getroot().iter("testsuite"):
    for tc in ts.iter("testcase"):
        ok = tc.find("failure") is None and tc.find("error") is None
        name = "%s::%s" % (ts.get("name"), tc.get("name"))
        if ok:
            passed.add(name)
stable = set(b["stable_pass"])
missing = sorted(stable - passed)
print("passed %d, stable baseline %d, baseline tests not passing now: %d" % (len(passed), len(stable), len(missing)))
for m in missing[:20]:
    print("  MISSING", m)
sys.exit(1 if missing else 0)
