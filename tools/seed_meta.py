#!/usr/bin/env python3
"""seed_meta.py <seed-id> '<what it needs to manifest>' '<what the change is>' '<caught by / result>'"""
import json, os, sys
sid, needs, what, result = sys.argv[1:5]
d = "/verif/seeded/%s" % sid
ev = json.load(open(os.path.join(d, "eval.json")))
meta = {"seed": sid, "property": ev["property"], "change": what, "needs_to_manifest": needs,
        "demonstration": {"files": "demo.diff (apply on top of patch.diff or on the clean tree)", "command": ev["demo_cmd"]},
        "confirmed_by_me": {"demo_fails_with_change": ev["demo_with_change_rc"] != 0, "demo_passes_without_change": ev["demo_without_change_rc"] == 0,
                            "baseline_suite_with_change": ev["baseline_with_change"]},
        "checks_run": result}
json.dump(meta, open(os.path.join(d, "meta.json"), "w"), indent=1)
print("wrote", d + "/meta.json")
