#!/bin/bash
# Evaluate a seeded change WITHOUT touching /repo (e.g. while a long run is using it):
# copies /verif to /tmp/seedlab/verif and checks out /repo's HEAD + the patch to /tmp/seedlab/repo, rewrites the
# hard-coded /repo paths in the copy, runs the checks there.   usage: seedlab.sh <seed-id> <tier> <check ids...>
sid=$1; tier=$2; shift 2
LAB=${SEEDLAB:-/tmp/seedlab}
mkdir -p $LAB
if [ ! -d $LAB/repo ]; then git -C /repo worktree add -q --detach $LAB/repo HEAD || exit 3; fi
git -C $LAB/repo checkout -q --detach $(git -C /repo rev-parse HEAD) 2>/dev/null
git -C $LAB/repo checkout -- . ; git -C $LAB/repo clean -fdq -e target
git -C $LAB/repo apply /verif/seeded/$sid/patch.diff || exit 3
rsync -a --delete --exclude .build --exclude .git /verif/ $LAB/verif/
mkdir -p $LAB/verif/.build
cd $LAB/verif
grep -rl '/repo' --include=Cargo.toml --include=*.rs --include=*.py . | xargs sed -i "s#\"/repo#\"$LAB/repo#g; s#= \"/repo\"#= \"$LAB/repo\"#g; s#path = \"/repo/#path = \"$LAB/repo/#g"
export VERIF_REPO=$LAB/repo
for c in "$@"; do
  ./check $c --tier $tier > $LAB/seed-$sid-$c.log 2>&1
  rc=$?
  echo "seed=$sid check=$c tier=$tier exit=$rc  $(grep -c '^VIOLATION' $LAB/seed-$sid-$c.log) VIOLATION lines, $(grep -c '^INCONCLUSIVE' $LAB/seed-$sid-$c.log) INCONCLUSIVE"
  grep -m2 -A1 '^VIOLATION' $LAB/seed-$sid-$c.log | cut -c1-400
  cp $LAB/seed-$sid-$c.log /verif/.build/seed-$sid-$c.log
done
git -C $LAB/repo checkout -- .
