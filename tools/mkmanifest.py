#!/usr/local/bin/python3-vt
"""Regenerates /verif/MANIFEST.json (and validates it against the schema)."""
import json
import os
import sys

HERE = os.path.dirname(os.path.dirname(os.path.abspath(__file__)))

BASELINE = ("cd /repo && cargo nextest run --workspace --no-fail-fast --tool-config-file pb:/w/lib/nextest.toml "
            "--profile pb --test-threads 8 --offline || cargo test --workspace --no-fail-fast --offline")

NA = {
    "C02": "quantifies over histories of two real directory trees and the archive; the keeping/losing happens through std::fs copy/rename/remove, PathBuf/format! names and serde_json, none of which can be put in front of a solver here (Kani: no FS, BTreeMap<PathBuf,_> with 2 keys >15 min); the per-path decision it rests on is decided under C18",
    "C03": "quantifies over interleavings of separate OS processes synchronised by flock on a shared directory; Kani/CBMC do not model concurrency or the file system, and a hand-written interleaving model would not be the real code",
    "C04": "the end state of a destination tree after tokio tasks, ssh, `cat > tmp && mv`, `xargs rm`: effects of other processes and the kernel, not encodable; the plan it executes is decided under C19",
    "C06": "same code as C02 (apply + archive save/load + re-scan): convergence of directory trees and of the on-disk archive is not encodable; symmetry/data-independence of the per-path decision are decided under C18",
    "C07": "the fault -> 'no base' mapping is std::fs::read + serde_json::from_slice on arbitrary bytes and the consequence is a whole run_bisync over real directories: not encodable; the one decidable link (no base => never a delete) is an obligation of C18",
    "C08": "quantifies over kill points between libc calls (fsync/rename ordering): crash points are not states of any program a solver sees",
    "C09": "quantifies over kill points of the copia process and over what a remote shell does when its stdin closes: outside any encoding",
    "C10": "interleavings of server processes plus crash points on a real file system (C03 + C08 reasons)",
    "C11": "safe_join's whole content is std::path::Path::components on the client's string: under Kani 4 symbolic path bytes = 2.2M SSA steps and out of memory at 16 GB; modelling std::path by hand would verify the model, not the parser; the drained-stream clause needs the server loop on stdin",
    "C12": "totality over all byte strings is a statement about ciborium's CBOR decoder and the serve loop on a locked stdin: neither is encodable within reach (serde visitors allocate with symbolic capacity); the 4-byte length comparison alone is too small a part of the property to claim it",
    "C13": "client and server processes over a pipe, directory walks and multi-client histories: not encodable",
}

PENDING = {}

CHECKS = [
    dict(pid="C04", level="model_checking",
         text="LOCAL -> LOCAL step, from MIR of the async state machines run sequentially (every future completes at its await, a spawned task runs at its spawn point): deliver_local copies to the `.copia-tmp` sibling, renames over the destination only after the copy succeeded, then sets exactly the mtime it was given, requests nothing else and reports failures; run_local, for ANY SyncPlan over a universe of 2 (quick) / 3 (thorough) paths (build_plan itself is C19's), delivers exactly the plan's transfer entries in order from src/rel to dst/rel with the SOURCE's mtime, removes exactly the plan's delete entries under the destination after every delivery, creates directories only under the destination, and requests nothing in a dry run or for an empty source without --delete.",
         ref="DESIGN.md §15 one-way sync",
         note="ONE schedule only: the job count / task interleavings are NOT explored. Push and pull over ssh are NOT decided by the solver (the remote shell's `cat > tmp && mv`, `touch -d`, `xargs rm`, `find -printf`, host:path parsing); they are exercised natively on every run - the real binary, the real remote commands, executed through a two-line local stand-in for `ssh` - as validation only; 'files the quick check matched are left as they were' follows from 'nothing but the plan is touched' (decided) and C19. Validation each run: the real `copia sync -r` binary on 17 local scenarios (delete / dry-run / excludes incl. a `?` glob over a non-ASCII name / same-mtime-different-size) plus one pull and two push runs, against the tree C04 describes.",
         technique="SMT over MIR (async coroutines executed sequentially; effect trace; BTreeMap model); native end-to-end replay with the real binary, strace for order"),
    dict(pid="C09", level="model_checking",
         text="ORDER of requests the crash argument rests on, local and pull directions, from MIR: bytes reach a destination path only through a rename of its `.copia-tmp` sibling; that rename is requested only after the local copy / the remote stream into the sibling succeeded; nothing else is requested of the destination; removals of stale files come after every delivery.",
         ref="DESIGN.md §15 one-way sync",
         note="Kill points are NOT explored (atomic rename(2) is the kernel's; a killed run leaves at worst a reserved `.copia-tmp` name: argued, not decided). Pull transport (transfer_file_from_remote, the body inside #[instrument]) is decided too: the local file is opened creating and truncating, never exclusively (a leftover staging file must not block the re-run), nothing but that path is touched, and Ok(n) needs a spawned child, n streamed bytes, a flush and a successful exit status - with the ssh child, its pipe and its status as arbitrary inputs. The PUSH direction (`cat > tmp && mv -f tmp dst` executed by a remote shell) is not covered. One schedule. Validation: strace of a real local delivery (existing and new file); a real pull over leftover staging files through a local stand-in for ssh.",
         technique="SMT over MIR (ordered effect trace of the delivery state machines); strace of the real binary"),
    dict(pid="C13", level="model_checking",
         text="CLIENT step, from MIR: hub_sync's orchestration over an ordered universe of 2 (quick) / 3 (thorough) paths with the hub's listing and the local scan symbolic and HubClient's methods summarised — exactly the local files whose hash differs from the listed one (or that the hub does not list) are Put, once each, in path order, carrying the file's hash, its path under the local root and the LISTED hash as `expected`; nothing but connect/list/put/bye is requested (hub files at other paths are never addressed); exit 0 exactly when the run completed and every Put committed. HubClient::put with the pipe as a recorder: one Put frame with the given path/expected/hash and the file's length, then the file streamed, flushed, then the reply read; Ok(committed) only for a PutResult reply.",
         ref="DESIGN.md §14 hub-sync client",
         note="The server end of the pipe is decided separately (C03/C10/C11/C12); a second client between List and Put is C03's subject (the Put carries the listed hash, so a stale one cannot commit). The directory scan and target parsing (host:root) are not covered. Validation each run: the real hub_sync against the real serve() loop in a child process on 5 scenarios, twice (second run sends nothing).",
         technique="SMT over MIR (orchestration over a BTreeMap model with summarised client calls; request/stream order as a recorded trace); native end-to-end replay"),
    dict(pid="C02", level="model_checking",
         text="STEP level, from MIR with the file system as an effect recorder: for ONE bidir::apply call with ANY action, any fingerprints on either side (maps are uninterpreted functions of map and key) and every file-system operation allowed to fail, the solver shows: a file is removed only by a Delete action and only that side's path; Noop/ConvergeIdentical request nothing; copies go to a `.copia-tmp` sibling and only a rename puts bytes at a path; a live path is overwritten only as the action says and only with the other side's live content; on a both-changed conflict the losing version is delivered to the same conflict name under BOTH roots before its own path is overwritten; delete-vs-modify never removes and restores the survivor; propagation delivers or reports an error.",
         ref="DESIGN.md §13 bisync",
         note="'Never loses a version across ANY history' is ARGUED from C18 (the decision table, proof level) + these step obligations + the run-level obligations of C06/C07; it is not decided as one query. NOT explored: crash points, the directory scan, symlinks. Found and fixed through C06's run-level obligation: stale archive entries made a later run delete a re-created file (4c7b136). Validation: the real run_bisync on 14 edit/run histories judged against the C02/C06/C07 texts.",
         technique="SMT over MIR (effect trace of one apply step; uninterpreted path constructors and abstract maps); native replay of histories"),
    dict(pid="C06", level="model_checking",
         text="From MIR: (1) one apply step keeps, on a both-changed conflict, the version with the greater BLAKE3 at the path (ties: A) and names the other `<path>.conflict-<host>-<short hex of the LOSING digest>` under each root, and updates the common map with exactly the version now at each path (insert / remove per action). (2) run_bisync over an ordered universe of 2 (quick) / 3 (thorough) paths — both scans and the loaded archive symbolic, `reconcile` from MIR, `apply` replaced by the contract decided in (1), every outcome arbitrary: the archive is saved at most once, to the pair's path, with the epoch advanced by one, only after every planned action was applied successfully, never in a dry run, and the saved common state has exactly the paths and digests both sides hold after the run.",
         ref="DESIGN.md §13 bisync",
         note="Idempotence of an immediate second run and independence from mtimes / argument order are ARGUED from 'recorded state = tree' (decided here) and C18's table, symmetry and equality-only obligations; not decided as one query. Conflict-copy entries (keys outside the path universe) are checked at step level only. Found and fixed: paths gone from both sides stayed in the archive (4c7b136).",
         technique="SMT over MIR (compositional: step contract decided, then used inside the orchestration; BTreeMap model over an ordered path universe); native replay of the model as an edit/run history"),
    dict(pid="C07", level="model_checking",
         text="From MIR: Archive::load returns an archive only if the file was read, parsed, has the current format version and carries the expected pair id (std::fs::read = any bytes or an error; serde_json = ANY Archive value or an error), and reads only the archive file; run_bisync trusts the base exactly when load returned an archive, passes its entries (else an empty map) to the real reconcile, and without a trusted archive applies no Delete action; the apply step removes files only for Delete actions (C02's obligations re-asked).",
         ref="DESIGN.md §13 bisync",
         note="serde_json itself (which byte strings fail to parse) is not modelled: a missing/empty/truncated/unparsable file is by contract a read or parse failure. 'No delete without a base' for the per-path decision is C18's proof-level obligation. Universe of 2/3 paths for the orchestration.",
         technique="SMT over MIR (gate function over all parsed values; orchestration with the real reconcile); native replay with damaged / foreign / missing archives"),
    dict(pid="C08", level="model_checking",
         text="ORDER of requests the crash argument rests on, from MIR with the file system as an effect recorder: a bisync delivery copies to a `.copia-tmp` sibling, flushes it, and only then renames it into place (never writes a live path directly); Archive::save writes `<archive>.tmp`, syncs it, keeps the old archive as `.bak`, renames, then syncs the directory, and never creates or writes the archive path directly; run_bisync saves the archive only after every planned action was applied successfully and never in a dry run.",
         ref="DESIGN.md §13 bisync",
         note="Crash points themselves are NOT explored: atomicity of rename(2) and durability after fsync are the kernel's; recovery by re-running is argued from C02/C06. Counterexamples to ORDER goals are confirmed on the real code with strace. Found and fixed: deliveries were renamed into place without an fsync of the staged copy (20e40bb).",
         technique="SMT over MIR (ordered effect trace with guards); strace system-call order of the real code as replay"),
    dict(pid="C03", level="model_checking",
         text="SEQUENTIAL compare-and-swap step, from MIR with the file system as an effect recorder: for ONE Put or Delete from an arbitrary state (any names, any expected / current / claimed hash, every operation may fail) the solver shows that the live path is renamed over / removed only if the hash read equals the client's expected hash, that this read, the compare (the real cas_decide) and the rename/remove all lie inside ONE exclusive-lock section on <root>/.copia/commit.lock, that a stale expected hash sends the verified bytes to `<path>.conflict-<short hash>` and touches nothing else, that at most one rename/remove is requested, and that the reply reports exactly the decision taken (committed/deleted flag, current hash). Counterexamples are confirmed against the real handlers (scenario family vs a sequential reference) and, for ORDER goals, against the real system-call order observed with strace.",
         ref="DESIGN.md §12 hub",
         note="NOT explored: interleavings of several server processes. Linearizability is ARGUED from the decided shape (read-compare-write in one flock critical section + exact CAS gate) and the kernel's flock exclusion; it is not decided. Crash points, the hub_sync client and the serve() dispatch loop are outside the claim. Trusted: MIR dump, encoder, the effect-recorder abstraction (validated each run: the real handlers conform to the sequential reference on ~300 scenarios, dev+release).",
         technique="SMT over MIR (symbolic execution of the real handlers; file system = recorded effects with arbitrary outcomes; uninterpreted path constructors); native replay + strace system-call order"),
    dict(pid="C10", level="model_checking",
         text="SEQUENTIAL publish discipline of ONE Put / Get, from MIR with the file system as an effect recorder, BLAKE3 as 32 uninterpreted functions of the stream and a content stream of 0..3 (quick) / 0..5 (thorough) symbolic bytes delivered in arbitrary pieces: content is written only to the staging sibling; the bytes written are the streamed bytes in order; a rename happens only after every byte was written successfully, the staging file was synced, the stream delivered exactly the declared length and the hash of exactly those bytes equals the declared hash; on a mismatch the staging file is removed, an error is replied and nothing else is touched; nothing but the staging file is ever removed; exactly min(len, available) content bytes are consumed. Get announces the length and hash it read, streams only after that header, and only reads.",
         ref="DESIGN.md §12 hub",
         note="NOT explored: interleavings and crash points (atomicity of rename(2), durability after fsync are the kernel's); Get's three separate reads are not atomic and a concurrent writer is outside the claim. Found and fixed: a stream shorter than its declared length was committed when its hash matched (known_findings.json, 62888f3).",
         technique="SMT over MIR (effect trace of the real handler, uninterpreted hash functions, short-read stream model); native replay + strace system-call order"),
    dict(pid="C11", level="model_checking",
         text="(1) safe_join (from MIR) refuses exactly the strings that are absolute or contain a `..` component and otherwise returns root.join(the same string), for every string of length <= 5 (quick) / 7 (thorough) over {a . /}. (2) For ONE Put / Delete / Get with safe_join's verdict arbitrary: a refused path causes no file-system request at all, an Error reply, and (Put) exactly the declared content bytes are drained so the connection stays in step; for an accepted path every file-system request is on join(root, path), its `.copia-tmp` / `.conflict-` sibling, its parent directory or the lock file.",
         ref="DESIGN.md §12 hub",
         note="std::path (is_absolute, components) is a CONTRACT MODEL of its Unix semantics, validated every run against the native implementation through the real safe_join on 131 strings; it is not decided. Containment is lexical: symlinks inside the served tree, and what the kernel resolves, are outside the claim. Sequential, one request.",
         technique="SMT over MIR (bounded strings, loop unrolling with unwinding assertion; effect trace of the handlers); native replay"),
    dict(pid="C12", level="model_checking",
         text="Framing layer from MIR: read_frame on ANY wire input (length up to 2^40, all 2^32 prefixes) never panics, never requests an allocation above 1 MiB, rejects an oversize prefix before allocating, returns None at a clean end of input, returns a message only for a complete frame decoded from exactly its payload and leaves the stream at the next frame even when decoding fails; read_magic is true exactly for `COPIA1`; write_frame writes a big-endian length and exactly the encoding iff it is <= 1 MiB. handle_put consumes exactly min(len, available) content bytes on every non-error path, including a refused path.",
         ref="DESIGN.md §12 hub",
         note="ciborium is NOT modelled (from_reader = arbitrary function of exactly the slice it is given; into_writer = arbitrary bytes or error), so totality of the CBOR decoder itself is not covered. NOT covered: the serve() loop (nothing changes before a valid prologue, exit status, no spinning after EOF), memory used by List replies.",
         technique="SMT over MIR (framing and allocation requests over all inputs; contract summaries for the CBOR codec); native replay with an allocation-tracking oracle"),
    dict(pid="C17", level="proof",
         text="Every public operation of both rolling-checksum types (new, empty, roll, push, digest, len, sum_a, sum_b) is executed symbolically from the compiler's MIR and shown by SMT (z3, re-decided by cvc5/z3 4.8.12) to preserve a representation invariant tying the state to the exact sums of the window, for every window length 1..65536 and all byte values at full machine width; `new`'s loop is handled by additive loop acceleration plus an unrolled cross-check. One inductive step per operation covers operation sequences of any length, which no finite test reaches.",
         ref="DESIGN.md §4 C17",
         note="Trusted: rustc's MIR dump, the mirsmt encoder (validated each run in concrete mode against the native build), the solvers, and two meta-arguments (invariant induction; additive accumulator loop => exact sum mod 2^W). Windows longer than 65536 bytes and roll on an empty window are outside the claim.",
         technique="SMT over MIR (symbolic execution of rustc MIR, integer encoding with explicit wrap); inductive invariant step; loop acceleration"),
    dict(pid="C01", level="model_checking",
         text="Signature::generate, SignatureTable::{from_signature,has_weak_match,find_match} and the whole scan loop of CopiaSync::delta with Delta::push_* are executed symbolically from the compiler's MIR on a basis and a source of symbolic bytes (one instance per concrete (basis length, source length, block size) triple); SMT shows for every content: the result is Ok, the header fields are those of the source, op lengths sum to the source size, every copy is block-aligned inside the basis, adjacent ops are merged, and interpreting the ops against the basis yields the source. Weak-hash collisions are covered (the digest is an arbitrary function of the window). The same is decided for the AsyncCopiaSync::delta state machine, the two engines are shown to produce identical deltas op for op, and on further instances the whole chain generate -> delta -> patch (both engines, patch from MIR too) is shown to succeed with output == source in one query. Engine/path independence of signatures: AsyncCopiaSync::signature (coroutine MIR, reader delivering the input in arbitrary pieces) equals Signature::generate on small inputs, and the parallel (> 64 KiB, rayon) branch of Signature::generate equals the sequential definition on inputs of 65537-200000 symbolic bytes.",
         ref="DESIGN.md §4 C01",
         note="Bounded: quick up to 6/6 bytes, block sizes 1-4; thorough up to 10/10, block sizes 1-5. Leaves replaced by contracts: rolling checksums (contract decided by C17), BLAKE3 as an ideal collision-free hash. std models (Vec, HashMap as math map, iterator adaptors, in-memory reader) are trusted and validated each run in concrete mode against the native build. AsyncCopiaSync::signature is compared with Signature::generate over a reader whose reads may be short (bounded instances). NOT covered: sync_files, the CLI chain through bincode files, > 64 KiB inputs / the rayon path, I/O errors.",
         technique="SMT over MIR (symbolic execution of the real pipeline with state merging; bounded unrolling with unwinding assertions; contract summaries); native replay"),
    dict(pid="C16", level="model_checking",
         text="Two solver-decided links. (1) At full width (windows up to 65536 bytes, all byte values) the signature-side and scan-side rolling checksums both equal the definition, re-asked from C17 under this id. (2) On the MIR-executed pipeline (same instances as C01) the delta's literal byte count is <= that of a textbook greedy scan encoded from the property text on the same symbolic basis/source, and an identical file costs fewer literal bytes than one block.",
         ref="DESIGN.md §4 C16",
         note="The product `greedy control structure x 64 KiB blocks` is composed by argument, not decided by one query. Same bounds, contracts and trusted base as C01 and C17.",
         technique="SMT over MIR (bounded pipeline vs reference greedy scan) + full-width inductive checksum obligations"),
    dict(pid="C19", level="model_checking",
         text="glob_match's real loop (from MIR, unrolled with an unwinding assertion) is shown equal to the recursive wildcard definition for every pattern/text up to the length bound over {a,b,*,?,.,/}; needs_transfer is decided at full 64-bit width (SMT over MIR, and again by Kani/CBMC on the compiled function); build_plan (from MIR, with BTreeMap/Vec/sort modelled over an ordered path universe and is_excluded as an arbitrary predicate) is shown equal to the set definition of transfer/skipped/delete for every presence/metadata/flag assignment; a printed remote listing (size TAB secs[.frac] TAB ./name NUL) is parsed back into exactly the triples that produced it. The solver covers all inputs inside the bound at once, which unit tests sample.",
         ref="DESIGN.md §4 C19",
         note="Bounded: quick |p|<=4,|t|<=5 and 3 paths; thorough |p|<=6,|t|<=7 and 5 paths. is_excluded (pattern trimming, per-component vs whole-path dispatch, loops over patterns and components) is executed from MIR and shown equal to its definition for 1-2 patterns (length <= 3-4) and relative paths (length <= 4-5) of '/'-separated plain names — Path::components is modelled only on that domain (no '.'/'..' components, no leading '/'). In build_plan its result is an arbitrary predicate. parse_remote_meta_output is decided on a symbolic two-record listing (bounded digits / name lengths, tabs, newlines and dots in names, optional sign and fraction) with std's text routines as contract models validated natively each run; non-ASCII names and what a real `find` prints are not covered. Trusted: MIR dump, encoder and its std models (BTreeMap iteration in key order, Vec::push, sort = sorted permutation), validated each run against the native build.",
         technique="SMT over MIR (bounded loop unrolling with unwinding assertions; std collection models); counterexamples replayed natively"),
    dict(pid="C15", level="model_checking",
         text="At the level of the plan a run executes: every name that matches an exclude pattern under the stated wildcard semantics is recognised by the real glob_match, every path the exclusion definition (slash-free pattern = any single component, pattern with '/' = whole path, trailing '/' trimmed, empty ignored) excludes is reported by the real is_excluded (bounded lengths), and for every exclusion predicate build_plan never puts an excluded path in transfer or delete, produces no delete set without --delete, and deletes only paths absent from the source. Solver-decided over all inputs in the bound.",
         ref="DESIGN.md §4 C15",
         note="The dry-run clause and the effect on the destination tree are file-system observations and are outside the claim; is_excluded's per-component/whole-path dispatch is decided from MIR on relative paths of plain names (bounded lengths; Path::components modelled on that domain only). Same bounds and trusted base as C19.",
         technique="SMT over MIR (bounded); planner-level obligations; native replay"),
    dict(pid="C14", level="model_checking",
         text="Planner level plus the local mtime arithmetic. For every pair of metadata maps in which each non-excluded source path has equal (size, whole-second mtime) at the destination, build_plan transfers nothing and (without --delete, or when the destination has no extra paths) deletes nothing; a path is in the transfer list only if it is absent or differs; needs_transfer is exact at full width. set_local_mtime (from MIR) asks the file system for exactly max(secs,0) whole seconds exactly once for every i64 and reports failures; mtime_secs returns the whole seconds since the epoch for every SystemTime.",
         ref="DESIGN.md §4 C14",
         note="ASSUMED, not decided: the kernel keeps the mtime it is given; the remote side (`touch -d @`, `find -printf %T@`, its text parser); that the delivery code calls set_local_mtime with the source's mtime. The file system is not modelled (set_modified is recorded as an effect; counterexamples are replayed on a real temp file). Bounds and trusted base as C19.",
         technique="SMT over MIR (bounded); planner-level obligations"),
    dict(pid="C18", level="proof", engine="kani",
         text="reconcile_path and Fingerprint::same (byte-identical copy of reconcile.rs) are model-checked by Kani/CBMC over ALL triples of optional fingerprints with fully symbolic 32-byte digests and entry types: equal to the documented table written independently, mirror-symmetric, no delete without a base, and a function of presence/equality bits only. The domain is complete (no quotient, no sampling), so this is proof-level for the per-path decision.",
         ref="DESIGN.md §4 C18",
         note="Trusted: Kani/CBMC, the check-time copy mechanism. Tree-level reconcile() is decided by E1 (SMT over MIR: BTreeMap keys/chain/collect/sort_unstable/dedup modelled over an ordered universe of 2 (quick) / 3 (thorough) paths, full 32-byte fingerprints): output = exactly the non-Noop per-path table decisions over the union of both sides' paths, base ignored when untrusted. That part is bounded (model checking), the per-path part is proof-level. The Lean model is not used.",
         technique="Kani/CBMC bounded model checking (SAT) of the real function over its full input domain"),
    dict(pid="C20", level="proof", engine="kani",
         text="Header level (Kani/CBMC, full domain): FrameHeader::{decode,encode,validate,new} and MessageType::from_u8 over all 2^96 header buffers and all valid header values: decode accepts exactly COPA/version 1/type 1..7/length <= 16 MiB, returns the little-endian length, re-encodes to the same bytes, and encode/decode is the identity. Framing level (SMT over MIR): Codec::read_message on ANY wire input (length up to 2^40) never panics, never makes an allocation request above 16 MiB, rejects every malformed header and every short input, on success has handed exactly the announced payload slice to Message::decode, and rejects a complete well-formed frame only if Message::decode rejects its payload however the reader splits the bytes (Read::read modelled by its contract: short reads allowed); Codec::write_message writes COPA | LE length | type code | 1 | flags followed by exactly the encoded payload iff the message is encodable and <= 16 MiB, and nothing otherwise. CLI level (SMT over MIR): `copia delta` / `copia patch` on a file that decodes to any value never panic.",
         ref="DESIGN.md §4 C20",
         note="bincode itself is NOT modelled: Message::encode/decode are contracts (arbitrary payload / arbitrary result on the given slice), so the round trip of field values through bincode and Message::decode's own behaviour on arbitrary bytes are not covered; bincode::deserialize_from is modelled by its hazard (it reserves length prefixes read from the untrusted stream). CLI file readers (DESIGN §17): run_delta / run_patch are executed from MIR with the file decoding to ANY value (bincode = contract) and every file operation a recorded effect with arbitrary outcome - no decoded block size or field value makes `copia delta` / `copia patch` panic (one schedule: awaits complete at once; AsyncCopiaSync::with_block_size by its assert contract read from the source, engine calls summarised); witnesses are replayed on the real binary with tampered files. Kani: std::fmt::format stubbed to String::new().",
         technique="Kani/CBMC (SAT) over the full 96-bit header space + SMT over MIR for the codec framing and allocation bound; native replay with an allocation-tracking oracle"),
    dict(pid="C05", level="model_checking", engine="kani",
         text="Two engines decide it. E1 (SMT over MIR): CopiaSync::patch AND the AsyncCopiaSync::patch state machine with Delta::validate are executed symbolically on a symbolic basis and a delta whose op KINDS, copy offsets (any u64), copy lengths (any u32), literal bytes, header fields, checksum and the verify flag are all symbolic (op lists up to 3-4 ops): no panic, success implies the output is exactly what the ops describe, no copy reads outside the basis, and (verification on) the output hashes to delta.checksum. E2 (Kani/CBMC) re-decides the sync engine on the compiled code for concrete op-list shapes with copy length <= 4.",
         ref="DESIGN.md §4 C05",
         note="Bounded: basis <= 5 bytes, <= 4 ops, literals <= 4 bytes (instances listed in evidence). BLAKE3 is idealised in both engines (E1 for C05: the digest is 32 uninterpreted bytes of the content, so StrongHash's own comparison code runs from MIR and partial comparisons are visible; E2: injective padding shim). E1 trusts its in-memory Cursor/Vec/tokio-future models (validated each run against the native build). The `copia patch` exit status is decided at the level of run_patch from MIR (DESIGN §17): Ok only if AsyncCopiaSync::patch returned Ok, and the output file is touched only by File::create and through that call (file system = recorded effects, one schedule); replayed on the real binary with a tampered delta file. Counterexamples are replayed natively in dev and release.",
         technique="SMT over MIR (sync + async coroutine) and Kani/CBMC bounded model checking; native replay of counterexamples"),
]


def build():
    checks = []
    for c in CHECKS:
        checks.append({
            "property_id": c["pid"],
            "quick_cmd": "./check %s --tier quick" % c["pid"],
            "thorough_cmd": "./check %s --tier thorough" % c["pid"],
            "evidence_file": "/verif/evidence/%s.json" % c["pid"],
            "replay_cmd_template": "./check %s --replay {path}" % c["pid"],
            "engine": c.get("engine", "mirsmt"),
            "level_claimed": {"category": c["level"], "text": c["text"], "design_ref": c["ref"]},
            "level_note": c["note"],
            "technique": c["technique"],
        })
    na = [{"property_id": k, "reason": v} for k, v in sorted({**NA, **PENDING}.items())
          if k not in {c["pid"] for c in CHECKS}]
    return {
        "version": 1,
        "setup_cmd": "./setup.sh",
        "hooks": {
            "guard": "paiml_copia_verif",
            "enable": "no hooks are needed: E1 reads rustc's MIR dump of the unmodified sources, E2 (Kani) uses path dependencies and check-time copies of src/bin/copia modules",
            "baseline_off_cmd": BASELINE,
            "source_commits": [],
            "add_only": True,
        },
        "engines": [
            {"name": "mirsmt", "path": "/verif/mirsmt", "serves_properties": ["C01", "C02", "C03", "C04", "C05", "C06", "C07", "C08", "C09", "C10", "C11", "C12", "C13", "C14", "C15", "C16", "C17", "C18", "C19", "C20"],
             "kind_free_text": "own symbolic executor over nightly rustc MIR text -> z3 terms (Int encoding with explicit wrap); z3 decides, cvc5 / z3 4.8.12 re-decide the exported SMT-LIB2"},
            {"name": "kani", "path": "/verif/kani-lib, /verif/kani-bin", "serves_properties": ["C01", "C05", "C18", "C19", "C20"],
             "kind_free_text": "Kani 0.68 / CBMC 6.11 proof harnesses in out-of-tree crates over the real code (path dependency; environment shims for blake3, rayon, rustc-hash)"},
        ],
        "checks": checks,
        "not_applicable": na,
        "notes": "SCOPE WARNING: for C02, C03, C04, C06-C13 the claim is the SEQUENTIAL / STEP level spelled out in each check's text; the quantifiers of those properties over process interleavings, crash points, edit/run histories of unbounded length, arbitrary archive bytes through serde_json / ciborium and what a remote shell does are NOT decided by any check here (each level_note says so) - for those quantifiers the honest answer remains 'not applicable to this technique'. Technique family: solver-based checking of the real code. Exit codes: 0 held, 1 VIOLATION (replayed natively), 2 INCONCLUSIVE (never reported as success or violation). known_findings.json lists fixed/open findings.",
    }


if __name__ == "__main__":
    m = build()
    path = os.path.join(HERE, "MANIFEST.json")
    json.dump(m, open(path, "w"), indent=1)
    try:
        import jsonschema
        jsonschema.validate(m, json.load(open("/root/.vp/MANIFEST.schema.json")))
        print("MANIFEST.json valid: %d checks, %d not applicable" % (len(m["checks"]), len(m["not_applicable"])))
    except ImportError:
        print("written (jsonschema not available)")
