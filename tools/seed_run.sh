#!/bin/bash
# usage: seed_run.sh <seed-id> <tier> <check ids...>   -- applies /verif/seeded/<id>/patch.diff to /repo, runs the checks, reverts
sid=$1; tier=$2; shift 2
cd /verif
if [ -n "$(git -C /repo status --porcelain)" ]; then echo "/repo is dirty"; exit 3; fi
git -C /repo apply /verif/seeded/$sid/patch.diff || exit 3
for c in "$@"; do
  ./check $c --tier $tier > /verif/.build/seed-$sid-$c.log 2>&1
  rc=$?
  echo "seed=$sid check=$c tier=$tier exit=$rc  $(grep -c '^VIOLATION' /verif/.build/seed-$sid-$c.log) VIOLATION lines, $(grep -c '^INCONCLUSIVE' /verif/.build/seed-$sid-$c.log) INCONCLUSIVE"
  grep -m2 -A1 '^VIOLATION' /verif/.build/seed-$sid-$c.log | cut -c1-400
done
git -C /repo checkout -- .
git -C /repo status --porcelain | head -3
