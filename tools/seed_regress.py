#!/usr/bin/env python3
"""Re-evaluate kept seeded changes against the CURRENT checks, in isolated lab worktrees (never /repo).
usage: seed_regress.py <n-labs> [seed-id ...]   -> /verif/.build/regress.json, one line per seed on stdout
For each seed: the checks named after 'CAUGHT by' / 'caught by' in its meta (default: its own property's check), quick tier.
Expected: exit 1 with a VIOLATION line from at least one of them for seeds recorded as caught; recorded misses are re-run too."""
import json, os, re, subprocess, sys, glob, concurrent.futures as cf, threading
n = int(sys.argv[1])
ids = sys.argv[2:] or sorted(os.path.basename(d) for d in glob.glob("/verif/seeded/*"))
labs = ["/tmp/seedlab%d" % i for i in range(n)]
free = list(labs)
lock = threading.Lock()

def checks_of(meta):
    r = meta["checks_run"] if isinstance(meta["checks_run"], str) else json.dumps(meta["checks_run"])
    own = meta["property"]
    cs = []
    for m in re.finditer(r"(?:CAUGHT|caught)\W+(?:now |also )?by ((?:C\d\d(?:[ ,/+]| and | \(|\w| )*)+)", r):
        cs += re.findall(r"C\d\d", m.group(1))
    cs = [c for i, c in enumerate(cs) if c not in cs[:i]]
    return cs[:2] or [own]

def one(sid):
    meta = json.load(open("/verif/seeded/%s/meta.json" % sid))
    cs = checks_of(meta)
    with lock:
        lab = free.pop()
    try:
        p = subprocess.run(["tools/seedlab.sh", sid, "quick"] + cs, cwd="/verif", env=dict(os.environ, SEEDLAB=lab), stdout=subprocess.PIPE, stderr=subprocess.STDOUT, text=True, errors="replace")
        res = {}
        for line in p.stdout.split("\n"):
            m = re.match(r"seed=(\S+) check=(\S+) tier=quick exit=(\d+)\s+(\d+) VIOLATION lines, (\d+) INCONCLUSIVE", line)
            if m:
                res[m.group(2)] = {"exit": int(m.group(3)), "violations": int(m.group(4)), "inconclusive": int(m.group(5))}
        caught = any(v["exit"] == 1 and v["violations"] > 0 for v in res.values())
        if not caught:
            # other checks the meta mentions (a change is sometimes caught by a neighbouring property's check)
            rtxt = meta["checks_run"] if isinstance(meta["checks_run"], str) else json.dumps(meta["checks_run"])
            more = [c for c in dict.fromkeys(re.findall(r"C\d\d", rtxt)) if c not in cs][:2]
            if more:
                p = subprocess.run(["tools/seedlab.sh", sid, "quick"] + more, cwd="/verif", env=dict(os.environ, SEEDLAB=lab), stdout=subprocess.PIPE, stderr=subprocess.STDOUT, text=True, errors="replace")
                for line in p.stdout.split("\n"):
                    m = re.match(r"seed=(\S+) check=(\S+) tier=quick exit=(\d+)\s+(\d+) VIOLATION lines, (\d+) INCONCLUSIVE", line)
                    if m:
                        res[m.group(2)] = {"exit": int(m.group(3)), "violations": int(m.group(4)), "inconclusive": int(m.group(5))}
                caught = any(v["exit"] == 1 and v["violations"] > 0 for v in res.values())
        r = meta["checks_run"] if isinstance(meta["checks_run"], str) else json.dumps(meta["checks_run"])
        recorded_miss = sid in ("c05-3", "c17-3", "c19-5")
        return sid, {"checks": res, "caught_now": caught, "recorded_miss": recorded_miss, "raw": p.stdout[-300:] if not res else ""}
    finally:
        with lock:
            free.append(lab)

out = {}
with cf.ThreadPoolExecutor(n) as ex:
    for sid, r in ex.map(one, ids):
        out[sid] = r
        flag = "ok " if r["caught_now"] != r["recorded_miss"] or (r["caught_now"] and r["recorded_miss"]) else "!! "
        if not r["caught_now"] and not r["recorded_miss"]:
            flag = "!! "
        print(flag, sid, json.dumps(r["checks"]), r["raw"][:120], flush=True)
        json.dump(out, open("/verif/.build/regress.json", "w"), indent=1)
