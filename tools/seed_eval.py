#!/usr/bin/env python3
"""Confirm a seeded change delivered by a sub-agent and file it under /verif/seeded/<id>/.

usage: seed_eval.py <seed-id> <property> <worktree> <src.diff> <demo command...>
 - <src.diff>: unified diff of the source change only (relative to the worktree's HEAD)
 - the worktree currently holds change + demonstration
Steps: demo fails with the change; demo passes with the change reverse-applied; baseline suite passes with the change.
"""
import json, os, subprocess, sys, shutil

sid, prop, wt, srcdiff = sys.argv[1:5]
demo_cmd = " ".join(sys.argv[5:])
env = dict(os.environ, CARGO_NET_OFFLINE="true")

def sh(cmd, cwd=wt):
    p = subprocess.run(cmd, shell=True, cwd=cwd, env=env, stdout=subprocess.PIPE, stderr=subprocess.STDOUT, text=True)
    return p.returncode, p.stdout

out = {"seed": sid, "property": prop, "demo_cmd": demo_cmd}
rc, o = sh(demo_cmd)
out["demo_with_change_rc"] = rc
print("demo with change: rc", rc)
rc2, o2 = sh("git apply -R %s" % srcdiff)
assert rc2 == 0, o2
rc, o = sh(demo_cmd)
out["demo_without_change_rc"] = rc
print("demo without change: rc", rc, o[-300:] if rc else "")
rc2, o2 = sh("git apply %s" % srcdiff)
assert rc2 == 0, o2
rc, o = sh("python3 /tmp/baseline_check.py %s" % wt, cwd="/tmp")
out["baseline_with_change"] = o.strip().split("\n")[0]
print(o.strip()[:300])
ok = out["demo_with_change_rc"] != 0 and out["demo_without_change_rc"] == 0 and "not passing now: 0" in o
out["confirmed"] = ok
d = "/verif/seeded/%s" % sid
os.makedirs(d, exist_ok=True)
shutil.copy(srcdiff, os.path.join(d, "patch.diff"))
# the demonstration = everything else that differs from HEAD once the source change is removed
sh("git apply -R %s" % srcdiff)
sh("git add -N . >/dev/null 2>&1; git diff > %s/demo.diff" % d)
sh("git apply %s" % srcdiff)
json.dump(out, open(os.path.join(d, "eval.json"), "w"), indent=1)
print("CONFIRMED" if ok else "NOT CONFIRMED", "->", d)
