
// ---- appended by /verif (check-time copy): re-exports of the private handlers for the native oracle
pub mod verif_wrap {
    use super::*;
    pub fn v_safe_join(root: &Path, rel: &str) -> Option<PathBuf> {
        safe_join(root, rel)
    }
    #[allow(clippy::too_many_arguments)]
    pub fn v_put<R: Read, W: Write>(root: &Path, lockdir: &Path, path: &str, expected: Option<Hash>, len: u64, hash: Hash, r: &mut R, w: &mut W) -> std::io::Result<()> {
        handle_put(root, lockdir, path, expected, len, hash, r, w)
    }
    pub fn v_delete<W: Write>(root: &Path, lockdir: &Path, path: &str, expected: Option<Hash>, w: &mut W) -> std::io::Result<()> {
        handle_delete(root, lockdir, path, expected, w)
    }
    pub fn v_get<W: Write>(root: &Path, path: &str, w: &mut W) -> std::io::Result<()> {
        handle_get(root, path, w)
    }
}
